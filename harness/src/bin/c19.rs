//! C19 — measuring, sampling, walking and splitting by distance are mutually consistent.
//!
//! Families
//!   `sampler`  (tie + oracle)  polyline path (several sub-paths, closed/open, zero-length edges,
//!              single-point sub-paths, 0–2 attributes) + a whole sequence of `sample` /
//!              `split_range` queries on ONE `PathSampler` (cursor state), Distance or Normalized.
//!   `walk`     (tie + oracle)  polyline path + start offset + RegularPattern / RepeatedPattern
//!              (callback stops after `cap` events, so non-positive requests can be observed).
//!   `curved`   (oracle only)   paths with quadratic/cubic segments: length identities, samples
//!              re-measured on an independent fine flattening, split additivity, walker.
//!   `witness`  (tie + oracle)  the fixed witnesses of the known defects.
//!
//! HISTORIES (every family, drawn from the case RNG after all other draws):
//!   * the `PathMeasurements` object a case measures with has a LIFE: in a good share of the cases
//!     it was initialised before with 1–4 other paths (longer, shorter, empty, other attribute
//!     counts / tolerances), through every entry point (`from_path`, `from_path_slice`,
//!     `from_iter`, `empty()` + `initialize` / `initialize_with_path` /
//!     `initialize_with_path_slice`, and the three `initialize*` on the used object); in every
//!     phase of that life a sampler (Distance / Normalized, with or without attributes) runs a
//!     query sequence which is printed (tie) and checked by the same oracle clauses — the
//!     property holds for the path the object was LAST initialised with;
//!   * the walk families measure the walked path on such a recycled object (`mlen`), and walk
//!     with a pattern OBJECT that has walked another path before (`RepeatedPattern::index`
//!     survives; `pre`).
//!
//! IMPL token streams are documented in `lean/LyonVerif/Drive/C19.lean`.

use lyon_algorithms::length::approximate_length;
use lyon_algorithms::measure::{PathMeasurements, PathSampler, SampleType};
use lyon_algorithms::walk::{walk_along_path, RegularPattern, RepeatedPattern, WalkerEvent};
use lyon_geom::{point, CubicBezierSegment, Point, QuadraticBezierSegment};
use lyon_path::builder::PathBuilder;
use lyon_path::{AttributeStore, Attributes, EndpointId, Path};
use vh::{CaseOut, Ctx, Oracle, Out, Rng};

type Pt = Point<f32>;

#[derive(Clone, Debug)]
enum Cmd {
    B(Pt, Vec<f32>),
    L(Pt, Vec<f32>),
    Q(Pt, Pt, Vec<f32>),
    C(Pt, Pt, Pt, Vec<f32>),
    E(bool),
}

#[derive(Clone, Debug)]
enum Query {
    S(f32),
    R(f32, f32),
}

// ---------------------------------------------------------------------------------------------
// generators

#[derive(Clone, Copy, PartialEq, Debug)]
enum Coords {
    /// integer / quarter lattice, mostly axis-aligned steps (many exact lengths)
    Lattice,
    /// uniform in [-100, 100]
    Uniform,
}

fn gen_point(rng: &mut Rng, c: Coords, prev: Option<Pt>) -> Pt {
    match c {
        Coords::Lattice => {
            if let (Some(p), true) = (prev, rng.chance(2, 3)) {
                // axis-aligned or 3-4-5 step from the previous point: exact length
                let k = rng.range(1, 6) as f32;
                match rng.below(6) {
                    0 => point(p.x + k, p.y),
                    1 => point(p.x - k, p.y),
                    2 => point(p.x, p.y + k),
                    3 => point(p.x, p.y - k * 0.25),
                    4 => point(p.x + 3.0 * k, p.y + 4.0 * k),
                    _ => point(p.x - 4.0 * k, p.y + 3.0 * k),
                }
            } else {
                point(rng.lattice(64, 2) as f32, rng.lattice(64, 2) as f32)
            }
        }
        Coords::Uniform => point(rng.uniform(-100.0, 100.0) as f32, rng.uniform(-100.0, 100.0) as f32),
    }
}

fn gen_attrs(rng: &mut Rng, n: usize) -> Vec<f32> {
    (0..n).map(|_| rng.range(-8, 8) as f32 * 0.5).collect()
}

/// polyline or curved path; returns commands and a shape word for the tag
fn gen_path(rng: &mut Rng, nattr: usize, curved: bool, c: Coords) -> (Vec<Cmd>, String) {
    let mut cmds = Vec::new();
    let nsub = match rng.below(10) {
        0 => 0,
        1..=3 => 1,
        4..=6 => 2,
        7..=8 => 3,
        _ => 4,
    };
    let mut single = 0;
    let mut zero = 0;
    let mut closed = 0;
    for _ in 0..nsub {
        let first = gen_point(rng, c, None);
        cmds.push(Cmd::B(first, gen_attrs(rng, nattr)));
        let nedges = match rng.below(8) {
            0 => 0,
            1 => 1,
            _ => rng.range(1, 6),
        };
        if nedges == 0 {
            single += 1;
        }
        let mut prev = first;
        for _ in 0..nedges {
            let mut to = gen_point(rng, c, Some(prev));
            match rng.below(16) {
                0 => {
                    to = prev;
                    zero += 1;
                }
                1 => {
                    // tiny edge (below / around the walker's 1e-5 threshold)
                    to = point(prev.x + [4e-6f32, 1e-5, 3e-5][rng.below(3) as usize], prev.y);
                }
                2 => to = first,
                _ => {}
            }
            let a = gen_attrs(rng, nattr);
            if curved && (to - prev).length() >= 1.0 && rng.chance(3, 5) {
                // mostly well-shaped curves (control points over the chord), sometimes arbitrary ones
                let wild = rng.chance(1, 5);
                let mut ctrl = |rng: &mut Rng, lo: f64, hi: f64| -> Pt {
                    if wild {
                        gen_point(rng, c, None)
                    } else {
                        let u = rng.uniform(lo, hi) as f32;
                        let h = rng.uniform(-0.6, 0.6) as f32;
                        let d = to - prev;
                        let q = point(prev.x + d.x * u - d.y * h, prev.y + d.y * u + d.x * h);
                        if c == Coords::Lattice {
                            point((q.x * 4.0).round() / 4.0, (q.y * 4.0).round() / 4.0)
                        } else {
                            q
                        }
                    }
                };
                if rng.chance(1, 2) {
                    cmds.push(Cmd::Q(ctrl(rng, 0.25, 0.75), to, a));
                } else {
                    let c1 = ctrl(rng, 0.1, 0.5);
                    let c2 = ctrl(rng, 0.5, 0.9);
                    cmds.push(Cmd::C(c1, c2, to, a));
                }
            } else {
                cmds.push(Cmd::L(to, a));
            }
            prev = to;
        }
        let close = rng.chance(2, 5);
        if close {
            closed += 1;
        }
        cmds.push(Cmd::E(close));
    }
    let shape = format!(
        "sub{}{}{}{}",
        nsub,
        if single > 0 { " single-point" } else { "" },
        if zero > 0 { " zero-edge" } else { "" },
        if closed > 0 { " closed" } else { "" }
    );
    (cmds, shape)
}

fn build_path(cmds: &[Cmd], nattr: usize) -> Path {
    let mut b = Path::builder_with_attributes(nattr);
    for c in cmds {
        match c {
            Cmd::B(p, a) => {
                b.begin(*p, a);
            }
            Cmd::L(p, a) => {
                b.line_to(*p, a);
            }
            Cmd::Q(c1, p, a) => {
                b.quadratic_bezier_to(*c1, *p, a);
            }
            Cmd::C(c1, c2, p, a) => {
                b.cubic_bezier_to(*c1, *c2, *p, a);
            }
            Cmd::E(cl) => b.end(*cl),
        }
    }
    b.build()
}

fn put_cmds(o: &mut Out, cmds: &[Cmd], with_attrs: bool) {
    o.u(cmds.len() as u64);
    for c in cmds {
        match c {
            Cmd::B(p, a) => {
                o.t("B").p(*p);
                if with_attrs {
                    for x in a {
                        o.f(*x);
                    }
                }
            }
            Cmd::L(p, a) => {
                o.t("L").p(*p);
                if with_attrs {
                    for x in a {
                        o.f(*x);
                    }
                }
            }
            Cmd::Q(c1, p, a) => {
                o.t("Q").p(*c1).p(*p);
                if with_attrs {
                    for x in a {
                        o.f(*x);
                    }
                }
            }
            Cmd::C(c1, c2, p, a) => {
                o.t("C").p(*c1).p(*c2).p(*p);
                if with_attrs {
                    for x in a {
                        o.f(*x);
                    }
                }
            }
            Cmd::E(cl) => {
                o.t("E").b(*cl);
            }
        }
    }
}

// ---------------------------------------------------------------------------------------------
// independent reference: the path as an f64 polyline with cumulative arclength

#[derive(Clone, Debug)]
struct RefEdge {
    a: (f64, f64),
    b: (f64, f64),
    s0: f64,
    s1: f64,
    /// attributes of the two endpoints of the ORIGINAL segment and the parameter range on it
    fa: Vec<f64>,
    ta: Vec<f64>,
    t0: f64,
    t1: f64,
    /// index of the original segment (command index)
    seg: usize,
    curved: bool,
}

fn p64(p: Pt) -> (f64, f64) {
    (p.x as f64, p.y as f64)
}
fn d64(a: (f64, f64), b: (f64, f64)) -> f64 {
    ((a.0 - b.0).powi(2) + (a.1 - b.1).powi(2)).sqrt()
}
fn v64(a: &[f32]) -> Vec<f64> {
    a.iter().map(|x| *x as f64).collect()
}

/// Flatten with lyon_geom at `tol` (curves) — lines are taken as they are.  Zero-length edges
/// are kept (s0 == s1).
fn ref_edges(cmds: &[Cmd], tol: f32) -> Vec<RefEdge> {
    let mut out = Vec::new();
    let mut s = 0.0f64;
    let mut first = (point(0.0, 0.0), Vec::new());
    let mut prev = (point(0.0f32, 0.0f32), Vec::<f32>::new());
    let mut push = |out: &mut Vec<RefEdge>, s: &mut f64, a: Pt, b: Pt, fa: &[f32], ta: &[f32], t0: f64, t1: f64, seg: usize, curved: bool| {
        let l = d64(p64(a), p64(b));
        out.push(RefEdge { a: p64(a), b: p64(b), s0: *s, s1: *s + l, fa: v64(fa), ta: v64(ta), t0, t1, seg, curved });
        *s += l;
    };
    for (i, c) in cmds.iter().enumerate() {
        match c {
            Cmd::B(p, a) => {
                first = (*p, a.clone());
                prev = (*p, a.clone());
            }
            Cmd::L(p, a) => {
                push(&mut out, &mut s, prev.0, *p, &prev.1, a, 0.0, 1.0, i, false);
                prev = (*p, a.clone());
            }
            Cmd::Q(c1, p, a) => {
                let q = QuadraticBezierSegment { from: prev.0, ctrl: *c1, to: *p };
                let pa = prev.1.clone();
                q.for_each_flattened_with_t(tol, &mut |l, t| {
                    push(&mut out, &mut s, l.from, l.to, &pa, a, t.start as f64, t.end as f64, i, true);
                });
                prev = (*p, a.clone());
            }
            Cmd::C(c1, c2, p, a) => {
                let q = CubicBezierSegment { from: prev.0, ctrl1: *c1, ctrl2: *c2, to: *p };
                let pa = prev.1.clone();
                q.for_each_flattened_with_t(tol, &mut |l, t| {
                    push(&mut out, &mut s, l.from, l.to, &pa, a, t.start as f64, t.end as f64, i, true);
                });
                prev = (*p, a.clone());
            }
            Cmd::E(cl) => {
                if *cl {
                    push(&mut out, &mut s, prev.0, first.0, &prev.1, &first.1, 0.0, 1.0, i, false);
                }
            }
        }
    }
    out
}

fn total(edges: &[RefEdge]) -> f64 {
    edges.last().map(|e| e.s1).unwrap_or(0.0)
}

fn maxcoord(cmds: &[Cmd]) -> f64 {
    let mut m = 1.0f64;
    let mut up = |p: &Pt| m = m.max(p.x.abs() as f64).max(p.y.abs() as f64);
    for c in cmds {
        match c {
            Cmd::B(p, _) | Cmd::L(p, _) => up(p),
            Cmd::Q(a, p, _) => {
                up(a);
                up(p)
            }
            Cmd::C(a, b, p, _) => {
                up(a);
                up(b);
                up(p)
            }
            _ => {}
        }
    }
    m
}

/// candidates on the reference polyline at arclength `d` (within `slack`):
/// (point, edge index, parameter on the reference edge)
fn at_arclength(edges: &[RefEdge], d: f64, slack: f64) -> Vec<((f64, f64), usize, f64)> {
    let mut v = Vec::new();
    for (k, e) in edges.iter().enumerate() {
        let l = e.s1 - e.s0;
        if l <= 0.0 {
            continue;
        }
        if d >= e.s0 - slack && d <= e.s1 + slack {
            let u = ((d - e.s0) / l).clamp(0.0, 1.0);
            v.push(((e.a.0 + (e.b.0 - e.a.0) * u, e.a.1 + (e.b.1 - e.a.1) * u), k, u));
        }
    }
    v
}

/// arclengths (on the reference polyline) of all reference points within `r` of `p`
fn arclengths_near(edges: &[RefEdge], p: (f64, f64), r: f64) -> Vec<(f64, usize)> {
    let mut v = Vec::new();
    for (k, e) in edges.iter().enumerate() {
        let l = e.s1 - e.s0;
        let (dx, dy) = (e.b.0 - e.a.0, e.b.1 - e.a.1);
        let u = if l > 0.0 { (((p.0 - e.a.0) * dx + (p.1 - e.a.1) * dy) / (l * l)).clamp(0.0, 1.0) } else { 0.0 };
        let q = (e.a.0 + dx * u, e.a.1 + dy * u);
        if d64(p, q) <= r {
            v.push((e.s0 + l * u, k));
        }
    }
    v
}

// ---------------------------------------------------------------------------------------------
// recording builder (what split_range sends to its output)

#[derive(Clone, Debug)]
enum Call {
    B(Pt, Vec<f32>),
    L(Pt, Vec<f32>),
    Q(Pt, Pt, Vec<f32>),
    C(Pt, Pt, Pt, Vec<f32>),
    E(bool),
}

struct Rec {
    n: usize,
    calls: Vec<Call>,
}

impl PathBuilder for Rec {
    fn num_attributes(&self) -> usize {
        self.n
    }
    fn begin(&mut self, at: Pt, a: Attributes) -> EndpointId {
        self.calls.push(Call::B(at, a.to_vec()));
        EndpointId::INVALID
    }
    fn end(&mut self, close: bool) {
        self.calls.push(Call::E(close));
    }
    fn line_to(&mut self, to: Pt, a: Attributes) -> EndpointId {
        self.calls.push(Call::L(to, a.to_vec()));
        EndpointId::INVALID
    }
    fn quadratic_bezier_to(&mut self, c: Pt, to: Pt, a: Attributes) -> EndpointId {
        self.calls.push(Call::Q(c, to, a.to_vec()));
        EndpointId::INVALID
    }
    fn cubic_bezier_to(&mut self, c1: Pt, c2: Pt, to: Pt, a: Attributes) -> EndpointId {
        self.calls.push(Call::C(c1, c2, to, a.to_vec()));
        EndpointId::INVALID
    }
}

fn well_nested(calls: &[Call]) -> bool {
    let mut inside = false;
    for c in calls {
        match c {
            Call::B(..) => {
                if inside {
                    return false;
                }
                inside = true
            }
            Call::E(_) => {
                if !inside {
                    return false;
                }
                inside = false
            }
            _ => {
                if !inside {
                    return false;
                }
            }
        }
    }
    !inside
}

/// length of a recorded trace (curves measured on a fine flattening), in f64
fn calls_length(calls: &[Call], tol: f32) -> f64 {
    let cmds: Vec<Cmd> = calls
        .iter()
        .map(|c| match c {
            Call::B(p, a) => Cmd::B(*p, a.clone()),
            Call::L(p, a) => Cmd::L(*p, a.clone()),
            Call::Q(c1, p, a) => Cmd::Q(*c1, *p, a.clone()),
            Call::C(c1, c2, p, a) => Cmd::C(*c1, *c2, *p, a.clone()),
            Call::E(cl) => Cmd::E(*cl),
        })
        .collect();
    total(&ref_edges(&cmds, tol))
}

fn put_calls(o: &mut Out, calls: &[Call]) {
    o.u(calls.len() as u64);
    for c in calls {
        match c {
            Call::B(p, a) => {
                o.t("B").p(*p);
                for x in a {
                    o.f(*x);
                }
            }
            Call::L(p, a) => {
                o.t("L").p(*p);
                for x in a {
                    o.f(*x);
                }
            }
            Call::Q(c1, p, a) => {
                o.t("Q").p(*c1).p(*p);
                for x in a {
                    o.f(*x);
                }
            }
            Call::C(c1, c2, p, a) => {
                o.t("C").p(*c1).p(*c2).p(*p);
                for x in a {
                    o.f(*x);
                }
            }
            Call::E(cl) => {
                o.t("E").b(*cl);
            }
        }
    }
}

// ---------------------------------------------------------------------------------------------
// witness predicates of the cursor defect repaired by /repo commit 72673fa5 (computed from the
// INPUT; the clauses and classes stay active: a regression is reported under the same class)

/// the first sub-path is a single point left open, and the path has positive length:
/// `edges[1]` is a `Begin` entry, `move_cursor(0.0)` puts the cursor there
fn single_point_first(cmds: &[Cmd]) -> bool {
    matches!(cmds.get(0), Some(Cmd::B(..))) && matches!(cmds.get(1), Some(Cmd::E(false)))
}

/// the first edge-table entry after the initial `Begin` has zero length (first edge degenerate,
/// or a single-point first sub-path that is closed)
fn zero_length_first_edge(cmds: &[Cmd]) -> bool {
    match (cmds.get(0), cmds.get(1)) {
        (Some(Cmd::B(p, _)), Some(Cmd::L(q, _))) => p == q,
        (Some(Cmd::B(p, _)), Some(Cmd::Q(c, q, _))) => p == q && p == c,
        (Some(Cmd::B(p, _)), Some(Cmd::C(c1, c2, q, _))) => p == q && p == c1 && p == c2,
        (Some(Cmd::B(..)), Some(Cmd::E(true))) => true,
        _ => false,
    }
}

/// A curved segment that lyon_geom's flattening is known to mishandle (C09 findings: `is_linear`
/// accepts control points that overshoot a short or closed baseline; the curve is then replaced
/// by its baseline).  The C19 oracle re-measures on lyon_geom's own flattening, so on such inputs
/// it has no reference: they are skipped here and reported by C09.
fn has_degenerate_curve(cmds: &[Cmd], tol: f32) -> bool {
    let mut prev = point(0.0f32, 0.0f32);
    let bad = |from: Pt, to: Pt, ctrls: &[Pt]| -> bool {
        let b = (to.x as f64 - from.x as f64, to.y as f64 - from.y as f64);
        let l2 = b.0 * b.0 + b.1 * b.1;
        let poly: f64 = ctrls.iter().map(|c| d64(p64(*c), p64(from))).fold(0.0, f64::max);
        if l2.sqrt() <= 0.25 * poly {
            return true;
        }
        ctrls.iter().any(|c| {
            let v = (c.x as f64 - from.x as f64, c.y as f64 - from.y as f64);
            let u = (v.0 * b.0 + v.1 * b.1) / l2;
            let perp = (v.0 * b.1 - v.1 * b.0).abs() / l2.sqrt();
            perp <= 8.0 * tol as f64 && (u < -0.01 || u > 1.01)
        })
    };
    for c in cmds {
        match c {
            Cmd::B(p, _) | Cmd::L(p, _) => prev = *p,
            Cmd::Q(c1, p, _) => {
                if bad(prev, *p, &[*c1]) {
                    return true;
                }
                prev = *p;
            }
            Cmd::C(c1, c2, p, _) => {
                if bad(prev, *p, &[*c1, *c2]) {
                    return true;
                }
                prev = *p;
            }
            _ => {}
        }
    }
    false
}

// ---------------------------------------------------------------------------------------------
// the sampler run: IMPL stream + oracle

struct SamplerRun<'a> {
    cmds: &'a [Cmd],
    nattr: usize,
    /// the sampler is created with `create_sampler_with_attributes` (else `create_sampler`:
    /// attribute store `()`, every sample / builder call carries no attributes)
    sattr: bool,
    normalized: bool,
    tol: f32,
    curved: bool,
}

fn eff_dist(d: f32, normalized: bool, len: f32) -> f32 {
    let mut x = d;
    if normalized {
        x *= len;
    }
    x.max(0.0).min(len)
}

impl<'a> SamplerRun<'a> {
    /// number of attributes the sampler interpolates
    fn sn(&self) -> usize {
        if self.sattr {
            self.nattr
        } else {
            0
        }
    }

    /// `m` must have been initialised (by whatever history) with `path` = `build_path(self.cmds)`
    /// at `self.tol`.  Returns `false` if a query panicked (the IMPL stream ends there).
    fn run(&self, m: &PathMeasurements, path: &Path, queries: &[Query], o: &mut Out, orc: &mut Oracle) -> bool {
        let ty = if self.normalized { SampleType::Normalized } else { SampleType::Distance };
        if self.sattr {
            let mut sampler = m.create_sampler_with_attributes(path, path, ty);
            self.run_with(m, path, &mut sampler, queries, o, orc)
        } else {
            let mut sampler = m.create_sampler(path, ty);
            self.run_with(m, path, &mut sampler, queries, o, orc)
        }
    }

    fn run_with<AS: AttributeStore>(&self, m: &PathMeasurements, path: &Path, sampler: &mut PathSampler<Path, AS>, queries: &[Query], o: &mut Out, orc: &mut Oracle) -> bool {
        let len = m.length();
        let alen = approximate_length(path.iter(), self.tol);
        // coarse = lyon_geom's flattening at the sampler's tolerance (what the table is built from)
        let coarse = ref_edges(self.cmds, self.tol.max(1e-4));
        // fine = independent reference for re-measuring
        let fine = if self.curved { ref_edges(self.cmds, (self.tol * 0.02).max(1e-4)) } else { coarse.clone() };
        let lref = total(&coarse);
        let mc = maxcoord(self.cmds);
        let n_edges = coarse.len() as f64;
        let eps = 1.2e-7f64;
        // f32 accumulation over the table + interpolation
        let round = 16.0 * eps * (lref + mc) * (n_edges + 4.0);
        // chord deficit of the flattening w.r.t. the curve: ≤ 4·tol per flattened curved edge
        let deficit = if self.curved { 4.0 * self.tol.max(1e-4) as f64 * coarse.iter().filter(|e| e.curved).count() as f64 } else { 0.0 };
        let longest = coarse.iter().filter(|e| e.curved).map(|e| e.s1 - e.s0).fold(0.0, f64::max);
        if self.curved {
            // table entries: Begin, Line, closing End, and one per flattened line of each curve
            o.t("len").f(len).t("alen").f(alen).t("edges").u(count_table_entries(self.cmds) - self.cmds.iter().filter(|c| matches!(c, Cmd::Q(..) | Cmd::C(..))).count() as u64 + coarse.iter().filter(|e| e.curved).count() as u64);
        } else {
            o.t("len").f(len).t("alen").f(alen).t("edges").u(count_table_entries(self.cmds));
        }

        // --- length identities
        orc.check((len as f64 - lref).abs() <= round, "measure.length/equals-flattening", "generic", || {
            format!("length {} flattening {} allowance {}", len, lref, round)
        });
        // approximate_length: the same sum for polylines.  For curves it is the closed-form /
        // quadratic-approximation length of the CURVE, while the measured length is that of the
        // inscribed polyline: never longer (chords), and arbitrarily shorter only where a turn
        // narrower than the tolerance is flattened away — so only the upper side is demanded.
        if self.curved {
            orc.check(len as f64 <= alen as f64 + round + deficit + 1e-3 * lref, "length.approximate_length/not-shorter-than-measured", "generic", || {
                format!("length {} approximate_length {} allowance {}", len, alen, round + deficit + 1e-3 * lref)
            });
        } else {
            orc.check((len as f64 - alen as f64).abs() <= round, "length.approximate_length/equals-measured", "generic", || {
                format!("length {} approximate_length {} allowance {}", len, alen, round)
            });
        }

        // --- queries on ONE sampler
        for q in queries {
            match q {
                Query::S(d) => {
                    let r = vh::guarded(|| {
                        let mut s = sampler.sample(*d);
                        (s.position(), s.tangent(), s.attributes().to_vec())
                    });
                    match r {
                        None => {
                            o.t("S").t("panic");
                            let class = if single_point_first(self.cmds) && eff_dist(*d, self.normalized, len) == 0.0 && len > 0.0 {
                                "single-point-subpath-cursor"
                            } else {
                                "generic"
                            };
                            orc.check(false, "sampler.sample/no-panic", class, || format!("sample({}) panicked", d));
                            return false;
                        }
                        Some((pos, tan, attrs)) => {
                            o.t("S").p(pos).v(tan);
                            for a in &attrs {
                                o.f(*a);
                            }
                            self.check_sample(orc, *d, len, pos, tan, &attrs, &coarse, &fine, round, deficit, longest);
                        }
                    }
                }
                Query::R(a, b) => {
                    let mut rec = Rec { n: self.nattr, calls: Vec::new() };
                    let r = vh::guarded(|| sampler.split_range(*a..*b, &mut rec));
                    match r {
                        None => {
                            o.t("R").t("panic");
                            let s = eff_dist(*a, self.normalized, len);
                            let class = if single_point_first(self.cmds) && s == 0.0 && len > 0.0 { "single-point-subpath-cursor" } else { "generic" };
                            orc.check(false, "sampler.split_range/no-panic", class, || format!("split_range({}..{}) panicked", a, b));
                            return false;
                        }
                        Some(()) => {
                            o.t("R");
                            put_calls(o, &rec.calls);
                            self.check_split(orc, *a, *b, len, &rec.calls, round, deficit, longest);
                        }
                    }
                }
            }
        }

        // --- additivity a..b + b..c = a..c on a fresh sampler (explicit form of the property)
        if len > 0.0 && !(single_point_first(self.cmds)) {
            let mut s2 = m.create_sampler_with_attributes(path, path, SampleType::Distance);
            let mut cuts: Vec<f32> = queries
                .iter()
                .flat_map(|q| match q {
                    Query::S(d) => vec![eff_dist(*d, self.normalized, len)],
                    Query::R(a, b) => vec![eff_dist(*a, self.normalized, len), eff_dist(*b, self.normalized, len)],
                })
                .collect();
            cuts.sort_by(|x, y| x.partial_cmp(y).unwrap());
            cuts.dedup();
            if cuts.len() >= 3 {
                let (a, b, c) = (cuts[0], cuts[cuts.len() / 2], cuts[cuts.len() - 1]);
                let mut lens = [0.0f64; 3];
                let mut ok = true;
                for (k, (x, y)) in [(a, b), (b, c), (a, c)].iter().enumerate() {
                    let mut rec = Rec { n: self.nattr, calls: Vec::new() };
                    if vh::guarded(|| s2.split_range(*x..*y, &mut rec)).is_none() {
                        ok = false;
                        break;
                    }
                    lens[k] = calls_length(&rec.calls, (self.tol * 0.02).max(1e-4));
                }
                if ok {
                    let allow = 3.0 * round + if self.curved { 2.0 * deficit + 2.0 * longest * 0.5 } else { 0.0 };
                    let nan_first = zero_length_first_edge(self.cmds) && a == 0.0;
                    let class = if nan_first { "zero-length-first-edge" } else { "generic" };
                    orc.check((lens[0] + lens[1] - lens[2]).abs() <= allow, "sampler.split_range/lengths-add", class, || {
                        format!("a={} b={} c={}: {} + {} vs {} allowance {}", a, b, c, lens[0], lens[1], lens[2], allow)
                    });
                }
            }
        }
        true
    }

    #[allow(clippy::too_many_arguments)]
    fn check_sample(&self, orc: &mut Oracle, d: f32, len: f32, pos: Pt, tan: lyon_geom::Vector<f32>, attrs: &[f32], coarse: &[RefEdge], fine: &[RefEdge], round: f64, deficit: f64, longest: f64) {
        if len == 0.0 {
            // zero-length path: the first point (or NaNs for an empty path) — nothing to re-measure
            if let Some(Cmd::B(p, a)) = self.cmds.get(0) {
                let want: &[f32] = if self.sattr { &a[..] } else { &[] };
                orc.check(pos == *p && attrs == want, "sampler.sample/zero-length-path", "generic", || format!("got {:?} {:?}", pos, attrs));
            } else {
                orc.check(pos.x.is_nan() && pos.y.is_nan(), "sampler.sample/empty-path-nan", "generic", || format!("got {:?}", pos));
            }
            return;
        }
        let de = eff_dist(d, self.normalized, len) as f64;
        let nan_class = if zero_length_first_edge(self.cmds) && de == 0.0 { "zero-length-first-edge" } else { "generic" };
        if !(pos.x.is_finite() && pos.y.is_finite()) {
            orc.check(false, "sampler.sample/position-at-distance", nan_class, || format!("sample({}) position {:?}", d, pos));
            return;
        }
        let p = p64(pos);
        if !self.curved {
            let cands = at_arclength(coarse, de, round);
            let best = cands.iter().map(|c| d64(p, c.0)).fold(f64::INFINITY, f64::min);
            orc.check(best <= round, "sampler.sample/position-at-distance", "generic", || {
                format!("sample({}) eff {} position {:?}: nearest reference point at that arclength is {} away (allowance {})", d, de, pos, best, round)
            });
            // tangent: direction of (one of) the edge(s) carrying that arclength
            let tn = (tan.x as f64, tan.y as f64);
            let tbest = cands
                .iter()
                .map(|c| {
                    let e = &coarse[c.1];
                    let l = e.s1 - e.s0;
                    d64(tn, ((e.b.0 - e.a.0) / l, (e.b.1 - e.a.1) / l))
                })
                .fold(f64::INFINITY, f64::min);
            // direction of a short edge is itself rounded: allow eps·coordinate/length
            let shortest = cands.iter().map(|c| coarse[c.1].s1 - coarse[c.1].s0).fold(f64::INFINITY, f64::min);
            let tallow = 1e-5 + 8.0 * 1.2e-7 * maxcoord(self.cmds) / shortest.max(1e-30);
            orc.check(tbest <= tallow, "sampler.sample/tangent", "generic", || format!("sample({}) tangent {:?}: off by {} (allowance {})", d, tan, tbest, tallow));
            // attributes: linear between the endpoints of the edge, at the edge parameter
            if self.sn() > 0 {
                let abest = cands
                    .iter()
                    .map(|c| {
                        let e = &coarse[c.1];
                        (0..self.nattr).map(|i| (attrs[i] as f64 - (e.fa[i] * (1.0 - c.2) + e.ta[i] * c.2)).abs()).fold(0.0, f64::max)
                    })
                    .fold(f64::INFINITY, f64::min);
                let shortest = shortest.max(1e-30);
                let aallow = 1e-5 + 8.0 * (round / shortest);
                orc.check(abest <= aallow, "sampler.sample/attributes-linear", "generic", || format!("sample({}) attributes {:?}: off by {} (allowance {})", d, attrs, abest, aallow));
            }
        } else {
            // re-measure on the independent fine flattening: some point of the reference within
            // reach of `pos` has arclength d, up to chord deficit + one flattening step
            let reach = 2.0 * self.tol.max(1e-4) as f64 + round;
            let lfine = total(fine);
            let near = arclengths_near(fine, p, reach);
            orc.check(!near.is_empty(), "sampler.sample/on-path", "generic", || format!("sample({}) position {:?} is more than {} away from the path", d, pos, reach));
            if near.is_empty() {
                return;
            }
            // arclength on the fine reference is ≥ the table's distance by at most the deficit
            let allow = round + deficit + (lfine - total(coarse)).abs() + longest;
            let best = near.iter().map(|(s, _)| (s - de).abs()).fold(f64::INFINITY, f64::min);
            orc.check(best <= allow, "sampler.sample/position-at-distance", "generic", || {
                format!("sample({}) eff {} position {:?}: re-measured arclength differs by {} (allowance {})", d, de, pos, best, allow)
            });
            let tn = (tan.x as f64, tan.y as f64);
            if tn.0.is_finite() {
                let tbest = near
                    .iter()
                    .map(|(_, k)| {
                        let e = &fine[*k];
                        let l = (e.s1 - e.s0).max(1e-30);
                        d64(tn, ((e.b.0 - e.a.0) / l, (e.b.1 - e.a.1) / l))
                    })
                    .fold(f64::INFINITY, f64::min);
                // neighbouring fine edges turn by little; cusps and tiny curves excluded by the skip below
                if lfine > 1.0 && tbest > 0.35 {
                    // only a gross error (wrong direction) is demanded here
                    orc.check(tbest <= 1.0, "sampler.sample/tangent", "generic", || format!("sample({}) tangent {:?}: off by {}", d, tan, tbest));
                }
            }
            if self.sn() > 0 {
                let abest = near
                    .iter()
                    .map(|(s, k)| {
                        let e = &fine[*k];
                        let l = (e.s1 - e.s0).max(1e-30);
                        let t = e.t0 + (e.t1 - e.t0) * ((s - e.s0) / l).clamp(0.0, 1.0);
                        (0..self.nattr)
                            .map(|i| {
                                let span = (e.fa[i] - e.ta[i]).abs();
                                // band: a quarter of the span (parameter non-uniformity within a flattening
                                // step) + the parameter uncertainty of a position known to f32 precision
                                ((attrs[i] as f64 - (e.fa[i] * (1.0 - t) + e.ta[i] * t)).abs() - 0.25 * span - span * (round / l).min(1.0)).max(0.0)
                            })
                            .fold(0.0, f64::max)
                    })
                    .fold(f64::INFINITY, f64::min);
                orc.check(abest <= 1e-3, "sampler.sample/attributes-linear", "generic", || format!("sample({}) attributes {:?}: outside the interpolation band by {}", d, attrs, abest));
            }
        }
    }

    #[allow(clippy::too_many_arguments)]
    fn check_split(&self, orc: &mut Oracle, a: f32, b: f32, len: f32, calls: &[Call], round: f64, deficit: f64, longest: f64) {
        orc.check(well_nested(calls), "sampler.split_range/trace-wellnested", "generic", || format!("{:?}", calls));
        let mut s = a;
        let mut e = b;
        if self.normalized {
            s *= len;
            e *= len;
        }
        s = s.max(0.0);
        e = e.max(s);
        s = s.min(len);
        e = e.min(len);
        if !(s < e) {
            orc.check(calls.is_empty(), "sampler.split_range/empty-range", "generic", || format!("{:?}", calls));
            return;
        }
        let got = calls_length(calls, (self.tol * 0.02).max(1e-4));
        let want = (e - s) as f64;
        let allow = 2.0 * round + if self.curved { deficit + longest } else { 0.0 };
        let class = if zero_length_first_edge(self.cmds) && s == 0.0 { "zero-length-first-edge" } else { "generic" };
        orc.check((got - want).abs() <= allow, "sampler.split_range/length", class, || {
            format!("split_range({}..{}) clamped {}..{}: output length {} expected {} allowance {}", a, b, s, e, got, want, allow)
        });
    }
}

/// number of entries of the edge table of a polyline path (Begin, Line, closing End)
fn count_table_entries(cmds: &[Cmd]) -> u64 {
    cmds.iter().filter(|c| !matches!(c, Cmd::E(false))).count() as u64
}

// ---------------------------------------------------------------------------------------------
// query generators

fn vertex_distances(cmds: &[Cmd]) -> Vec<f32> {
    // cumulative f32 sums exactly as the table is built (polylines)
    let mut v = vec![0.0f32];
    let mut d = 0.0f32;
    let mut first = point(0.0, 0.0);
    let mut prev = point(0.0, 0.0);
    for c in cmds {
        match c {
            Cmd::B(p, _) => {
                first = *p;
                prev = *p;
            }
            Cmd::L(p, _) | Cmd::Q(_, p, _) | Cmd::C(_, _, p, _) => {
                d += (prev - *p).length();
                v.push(d);
                prev = *p;
            }
            Cmd::E(true) => {
                d += (prev - first).length();
                v.push(d);
            }
            _ => {}
        }
    }
    v
}

fn gen_dist(rng: &mut Rng, normalized: bool, vd: &[f32], last: &mut Vec<f32>) -> f32 {
    let len = *vd.last().unwrap();
    let scale = |x: f32| if normalized && len > 0.0 { x / len } else { x };
    let hi = if normalized { 1.0 } else { len.max(1.0) };
    let d = match rng.below(16) {
        0 => 0.0,
        1 => scale(len),
        2 | 3 | 4 => scale(*rng.pick(vd)),
        5 => {
            // just around a vertex distance
            let v = *rng.pick(vd);
            scale(f32::from_bits((v.to_bits() as i64 + rng.range(-2, 2)).max(0) as u32))
        }
        6 => -(rng.unit() as f32) * hi,
        7 => hi * (1.0 + rng.unit() as f32),
        8 => {
            if last.is_empty() {
                0.5 * hi
            } else {
                *rng.pick(last)
            }
        }
        9 => -0.0,
        10 => hi * 1e-6 * rng.unit() as f32,
        _ => (rng.unit() as f32) * hi,
    };
    last.push(d);
    d
}

fn gen_queries(rng: &mut Rng, normalized: bool, cmds: &[Cmd], n: usize, mode: u64) -> Vec<Query> {
    let vd = vertex_distances(cmds);
    let mut last = Vec::new();
    let mut qs = Vec::new();
    for _ in 0..n {
        let split = match mode {
            0 => false,
            1 => true,
            _ => rng.chance(1, 3),
        };
        if split {
            let a = gen_dist(rng, normalized, &vd, &mut last);
            let b = gen_dist(rng, normalized, &vd, &mut last);
            if a <= b || rng.chance(1, 6) {
                qs.push(Query::R(a, b));
            } else {
                qs.push(Query::R(b, a));
            }
        } else {
            qs.push(Query::S(gen_dist(rng, normalized, &vd, &mut last)));
        }
    }
    // monotone sequences exercise the linear scans, random ones the binary search
    match rng.below(4) {
        0 => qs.sort_by(|x, y| key(x).partial_cmp(&key(y)).unwrap()),
        1 => qs.sort_by(|x, y| key(y).partial_cmp(&key(x)).unwrap()),
        _ => {}
    }
    qs
}

fn key(q: &Query) -> f32 {
    match q {
        Query::S(d) => *d,
        Query::R(a, _) => *a,
    }
}

fn put_queries(o: &mut Out, qs: &[Query]) {
    o.u(qs.len() as u64);
    for q in qs {
        match q {
            Query::S(d) => {
                o.t("S").f(*d);
            }
            Query::R(a, b) => {
                o.t("R").f(*a).f(*b);
            }
        }
    }
}

// ---------------------------------------------------------------------------------------------
// the life of one PathMeasurements object

#[derive(Clone, Copy, Debug, PartialEq)]
enum Entry {
    FromPath,
    FromSlice,
    FromIter,
    EmptyInit,
    EmptyInitPath,
    EmptyInitSlice,
    Init,
    InitPath,
    InitSlice,
}

const CTORS: [Entry; 6] = [Entry::FromPath, Entry::FromSlice, Entry::FromIter, Entry::EmptyInit, Entry::EmptyInitPath, Entry::EmptyInitSlice];
const REINITS: [Entry; 3] = [Entry::Init, Entry::InitPath, Entry::InitSlice];

impl Entry {
    fn word(self) -> &'static str {
        match self {
            Entry::FromPath => "fp",
            Entry::FromSlice => "fs",
            Entry::FromIter => "fi",
            Entry::EmptyInit => "ei",
            Entry::EmptyInitPath => "ep",
            Entry::EmptyInitSlice => "es",
            Entry::Init => "in",
            Entry::InitPath => "ip",
            Entry::InitSlice => "is",
        }
    }

    /// the object after this entry point: a new one (constructors) or `used`, re-initialised
    fn obtain(self, used: Option<PathMeasurements>, path: &Path, tol: f32) -> PathMeasurements {
        let reinit = |e: Entry, mut m: PathMeasurements| {
            match e {
                Entry::EmptyInit | Entry::Init => m.initialize(path.id_iter(), path, tol),
                Entry::EmptyInitPath | Entry::InitPath => m.initialize_with_path(path, tol),
                _ => m.initialize_with_path_slice(path.as_slice(), tol),
            }
            m
        };
        match self {
            Entry::FromPath => PathMeasurements::from_path(path, tol),
            Entry::FromSlice => PathMeasurements::from_path_slice(&path.as_slice(), tol),
            Entry::FromIter => PathMeasurements::from_iter(path.id_iter(), path, tol),
            Entry::EmptyInit | Entry::EmptyInitPath | Entry::EmptyInitSlice => reinit(self, PathMeasurements::empty()),
            Entry::Init | Entry::InitPath | Entry::InitSlice => reinit(self, used.unwrap_or_else(PathMeasurements::empty)),
        }
    }
}

/// one earlier phase of the object's life: initialised with `cmds`, queried by one sampler
#[derive(Clone, Debug)]
struct Phase {
    entry: Entry,
    tol: f32,
    nattr: usize,
    sattr: bool,
    normalized: bool,
    curved: bool,
    cmds: Vec<Cmd>,
    queries: Vec<Query>,
}

#[derive(Clone, Debug)]
struct History {
    phases: Vec<Phase>,
    /// entry point for the case's own path (a re-initialisation iff there are earlier phases)
    last: Entry,
    /// the case's sampler is created with attributes
    sattr: bool,
}

impl History {
    fn none() -> History {
        History { phases: Vec::new(), last: Entry::FromPath, sattr: true }
    }
    fn is_none(&self) -> bool {
        self.phases.is_empty() && self.last == Entry::FromPath && self.sattr
    }
    fn tag(&self) -> String {
        if self.is_none() {
            String::new()
        } else {
            format!(" hist{} {}{}", self.phases.len(), self.last.word(), if self.sattr { "" } else { " noattr-sampler" })
        }
    }
}

/// Drawn AFTER every other draw of the case.  `curved`: the earlier paths may contain curves.
fn gen_history(rng: &mut Rng, curved: bool) -> History {
    let k = match rng.below(8) {
        0..=2 => return History::none(),
        3 => 0,
        4 | 5 => 1,
        6 => 2,
        _ => rng.range(2, 4) as usize,
    };
    let mut phases = Vec::new();
    for i in 0..k {
        let nattr = *rng.pick(&[0usize, 0, 1, 2]);
        let coords = if rng.chance(1, 2) { Coords::Lattice } else { Coords::Uniform };
        let cv = curved && rng.chance(2, 3);
        // shorter, longer (several generated paths in a row) and empty ones
        let reps = match rng.below(6) {
            0 => 3,
            1 | 2 => 2,
            _ => 1,
        };
        let mut cmds = Vec::new();
        for _ in 0..reps {
            cmds.extend(gen_path(rng, nattr, cv, coords).0);
        }
        let tol = if cv { *rng.pick(&[0.01f32, 0.05, 0.1, 0.5]) } else { *rng.pick(&[0.01f32, 0.1, 1.0, 1e-5, 0.0]) };
        let normalized = rng.chance(1, 2);
        let nq = rng.range(0, 6) as usize;
        let mode = rng.below(4);
        let queries = gen_queries(rng, normalized, &cmds, nq, mode);
        let entry = if i == 0 { *rng.pick(&CTORS) } else { *rng.pick(&REINITS) };
        phases.push(Phase { entry, tol, nattr, sattr: rng.chance(2, 3), normalized, curved: cv, cmds, queries });
    }
    let last = if k == 0 { *rng.pick(&CTORS) } else { *rng.pick(&REINITS) };
    History { phases, last, sattr: rng.chance(3, 4) }
}

/// `H <k> <phase>{k} <entry> <sattr>` (nothing for the plain `from_path` + attributes case)
fn put_history(o: &mut Out, h: &History) {
    if h.is_none() {
        return;
    }
    o.t("H").u(h.phases.len() as u64);
    for p in &h.phases {
        o.t(p.entry.word()).f(p.tol).u(p.nattr as u64).b(p.sattr).b(p.normalized);
        put_cmds(o, &p.cmds, true);
        put_queries(o, &p.queries);
    }
    o.t(h.last.word()).b(h.sattr);
}

/// Live through the earlier phases on ONE object: each phase is printed (`h …`) and checked by the
/// same oracle as a case's own path.  Returns the used object, or `Err` if a query panicked.
fn run_phases(h: &History, o: &mut Out, orc: &mut Oracle) -> Result<Option<PathMeasurements>, ()> {
    let mut used: Option<PathMeasurements> = None;
    for (i, p) in h.phases.iter().enumerate() {
        let path = build_path(&p.cmds, p.nattr);
        let m = p.entry.obtain(used.take(), &path, p.tol);
        o.t("h");
        let run = SamplerRun { cmds: &p.cmds, nattr: p.nattr, sattr: p.sattr, normalized: p.normalized, tol: p.tol, curved: p.curved };
        let mut porc = Oracle::new();
        let ok = run.run(&m, &path, &p.queries, o, &mut porc);
        if p.curved && has_degenerate_curve(&p.cmds, p.tol.max(1e-4)) {
            porc = Oracle::new();
        }
        if let vh::Verdict::Fail { .. } = porc.verdict {
            if !orc.failed() {
                orc.verdict = porc.verdict;
                // say where in the object's life the failure happened
                if let vh::Verdict::Fail { detail, .. } = &mut orc.verdict {
                    *detail = format!("[phase {} of the measurements' history, entry {}] {}", i, p.entry.word(), detail);
                }
            }
        }
        if !ok {
            return Err(());
        }
        used = Some(m);
    }
    Ok(used)
}

fn sampler_case(ctx: &mut Ctx, family: &'static str, fixed: Option<(Vec<Cmd>, usize, bool, Vec<Query>, &'static str)>) {
    let curved = family == "curved";
    let is_fixed = fixed.is_some();
    ctx.case(family, move |rng| {
        let (cmds, nattr, normalized, queries, tag) = match fixed {
            Some((c, n, nm, q, t)) => (c, n, nm, q, t.to_string()),
            None => {
                let nattr = *rng.pick(&[0usize, 0, 1, 2]);
                let coords = if rng.chance(1, 2) { Coords::Lattice } else { Coords::Uniform };
                let (cmds, shape) = gen_path(rng, nattr, curved, coords);
                let normalized = rng.chance(1, 2);
                let mode = rng.below(4);
                let nq = rng.range(4, 24) as usize;
                let queries = gen_queries(rng, normalized, &cmds, nq, mode);
                let trivial = if cmds.is_empty() { " trivial" } else { "" };
                let tag = format!(
                    "{} {:?} {} attrs{} {} q{}{}",
                    family,
                    coords,
                    if normalized { "normalized" } else { "distance" },
                    nattr,
                    shape,
                    match mode {
                        0 => "sample",
                        1 => "split",
                        _ => "mixed",
                    },
                    trivial
                );
                (cmds, nattr, normalized, queries, tag)
            }
        };
        let tol = if curved { *rng.pick(&[0.01f32, 0.05, 0.1, 0.5]) } else { 0.01 };
        // the life of the PathMeasurements object before it measures this path (last draws)
        let hist = if is_fixed { History::none() } else { gen_history(rng, curved) };
        let tag = format!("{}{}", tag, hist.tag());
        let mut args = Out::new();
        if curved {
            args.f(tol);
        }
        args.u(nattr as u64).b(normalized);
        put_cmds(&mut args, &cmds, true);
        put_queries(&mut args, &queries);
        put_history(&mut args, &hist);
        (args, tag, move || {
            let mut o = Out::new();
            let mut horc = Oracle::new();
            let used = match run_phases(&hist, &mut o, &mut horc) {
                Ok(u) => u,
                Err(()) => return CaseOut { imp: o, orcl: horc.verdict },
            };
            let mut orc = Oracle::new();
            let path = build_path(&cmds, nattr);
            let m = hist.last.obtain(used, &path, tol);
            let run = SamplerRun { cmds: &cmds, nattr, sattr: hist.sattr, normalized, tol, curved };
            run.run(&m, &path, &queries, &mut o, &mut orc);
            if curved && has_degenerate_curve(&cmds, tol) {
                orc = Oracle::new();
                orc.skip("degenerate-curve-c09");
            }
            // a failure in an earlier phase of the object's life is a failure of the case
            if horc.failed() && !orc.failed() {
                orc = horc;
            }
            CaseOut { imp: o, orcl: orc.verdict }
        })
    });
}

// ---------------------------------------------------------------------------------------------
// walking

#[derive(Clone, Debug)]
enum Pattern {
    Reg(f32),
    Rep(Vec<f32>, usize),
}

struct WalkOut {
    events: Vec<(Pt, lyon_geom::Vector<f32>, f32, Vec<f32>)>,
}

/// One walk per entry of `walks` = (path, start, callback cap), in turn, all with the SAME pattern
/// object (and the same callback, whose event counter starts again for each walk): whatever the
/// pattern keeps between walks (`RepeatedPattern::index`) is part of the input of the later ones.
/// `nattr == 0`: `walk_along_path` on the built path (the public entry point).
/// `nattr > 0`: the same loop (`path_event`, stop when the pattern said stop) over
/// `PathWalker::with_attributes`, which `walk_along_path` cannot reach.
fn run_walks(walks: &[(&[Cmd], f32, usize)], nattr: usize, tol: f32, pat: &Pattern) -> Vec<WalkOut> {
    use std::cell::{Cell, RefCell};
    let events = RefCell::new(Vec::new());
    let n = Cell::new(0usize);
    let cap = Cell::new(0usize);
    let stopped = Cell::new(false);
    let mut cb = |e: WalkerEvent| {
        events.borrow_mut().push((e.position, e.tangent, e.distance, e.attributes.to_vec()));
        n.set(n.get() + 1);
        let go = n.get() <= cap.get();
        if !go {
            stopped.set(true);
        }
        go
    };
    let mut outs = Vec::new();
    let mut drive = |pattern: &mut dyn lyon_algorithms::walk::Pattern, cmds: &[Cmd], start: f32, c: usize| {
        n.set(0);
        cap.set(c);
        stopped.set(false);
        if nattr == 0 {
            let path = build_path(cmds, 0);
            walk_along_path(path.iter(), start, tol, pattern);
        } else {
            let mut w = lyon_algorithms::walk::PathWalker::with_attributes(nattr, start, tol, pattern);
            for c in cmds {
                match c {
                    Cmd::B(p, a) => {
                        w.begin(*p, a);
                    }
                    Cmd::L(p, a) => {
                        w.line_to(*p, a);
                    }
                    Cmd::Q(c1, p, a) => {
                        w.quadratic_bezier_to(*c1, *p, a);
                    }
                    Cmd::C(c1, c2, p, a) => {
                        w.cubic_bezier_to(*c1, *c2, *p, a);
                    }
                    Cmd::E(cl) => w.end(*cl),
                }
                if stopped.get() {
                    break;
                }
            }
        }
        outs.push(WalkOut { events: std::mem::take(&mut *events.borrow_mut()) });
    };
    match pat {
        Pattern::Reg(i) => {
            let mut p = RegularPattern { callback: &mut cb, interval: *i };
            for (cmds, start, c) in walks {
                drive(&mut p, cmds, *start, *c);
            }
        }
        Pattern::Rep(v, idx) => {
            let mut p = RepeatedPattern { callback: &mut cb, intervals: &v[..], index: *idx };
            for (cmds, start, c) in walks {
                drive(&mut p, cmds, *start, *c);
            }
        }
    }
    outs
}

/// the pattern as a later walk sees it after an earlier walk of `events` callbacks with cap `cap`
fn pattern_after(pat: &Pattern, events: usize, cap: usize) -> Pattern {
    match pat {
        Pattern::Reg(i) => Pattern::Reg(*i),
        Pattern::Rep(v, idx) => Pattern::Rep(v.clone(), idx + events.min(cap)),
    }
}

fn pattern_request(pat: &Pattern, k: usize) -> f32 {
    match pat {
        Pattern::Reg(i) => *i,
        Pattern::Rep(v, idx) => v[(idx + k) % v.len()],
    }
}

fn walk_case(ctx: &mut Ctx, family: &'static str, fixed: Option<(Vec<Cmd>, usize, f32, Pattern, usize, &'static str)>) {
    let curved = family == "curved_walk";
    let is_fixed = fixed.is_some();
    ctx.case(family, move |rng| {
        let (cmds, nattr, start, pat, cap, tag) = match fixed {
            Some((c, na, s, p, cap, t)) => (c, na, s, p, cap, t.to_string()),
            None => {
                let coords = if rng.chance(1, 2) { Coords::Lattice } else { Coords::Uniform };
                let nattr = *rng.pick(&[0usize, 0, 0, 1, 2]);
                let (cmds, shape) = gen_path(rng, nattr, curved, coords);
                let approx_len = *vertex_distances(&cmds).last().unwrap();
                let start = match rng.below(8) {
                    0 => 0.0,
                    1 => -1.0,
                    2 => approx_len + 1.0,
                    3 => approx_len,
                    4 => rng.range(0, 8) as f32 * 0.5,
                    _ => rng.unit() as f32 * approx_len.max(1.0) * 0.5,
                };
                let step = |rng: &mut Rng| -> f32 {
                    match rng.below(8) {
                        0 => rng.range(1, 12) as f32 * 0.25,
                        1 => 1.0,
                        2 => approx_len.max(1.0) / rng.range(1, 9) as f32,
                        _ => (0.02 + rng.unit() as f32) * approx_len.max(1.0) / rng.range(1, 12) as f32,
                    }
                };
                // non-positive requests: a few, always with a small cap
                let nonpos = rng.chance(1, 16);
                let pat = if rng.chance(1, 2) {
                    Pattern::Reg(if nonpos { *rng.pick(&[0.0f32, -0.0, -1.0, -0.25]) } else { step(rng) })
                } else {
                    let n = rng.range(1, 4) as usize;
                    let mut v: Vec<f32> = (0..n).map(|_| step(rng)).collect();
                    if nonpos {
                        let k = rng.below(n as u64) as usize;
                        v[k] = *rng.pick(&[0.0f32, -1.0]);
                    }
                    Pattern::Rep(v, rng.below(6) as usize)
                };
                let cap = if nonpos { rng.range(3, 12) as usize } else { rng.range(1, 120) as usize };
                let tag = format!(
                    "{} {:?} attrs{} {} {}{}{}",
                    family,
                    coords,
                    nattr,
                    shape,
                    match &pat {
                        Pattern::Reg(_) => "regular",
                        Pattern::Rep(..) => "repeated",
                    },
                    if nonpos { " nonpositive" } else { "" },
                    if cmds.is_empty() { " trivial" } else { "" }
                );
                (cmds, nattr, start, pat, cap, tag)
            }
        };
        let tol = if curved { *rng.pick(&[0.01f32, 0.05, 0.1]) } else { 0.1 };
        // histories (last draws): an earlier walk with the same pattern object, and the life of
        // the PathMeasurements object that measures the walked path
        let pre: Option<(Vec<Cmd>, f32, usize)> = if !is_fixed && rng.chance(1, 3) {
            let coords = if rng.chance(1, 2) { Coords::Lattice } else { Coords::Uniform };
            let (c0, _) = gen_path(rng, nattr, curved, coords);
            let l0 = *vertex_distances(&c0).last().unwrap();
            let start0 = match rng.below(4) {
                0 => 0.0,
                1 => rng.range(0, 8) as f32 * 0.5,
                _ => rng.unit() as f32 * l0.max(1.0) * 0.5,
            };
            let nonpos = match &pat {
                Pattern::Reg(i) => !(*i > 0.0),
                Pattern::Rep(v, _) => v.iter().any(|x| !(*x > 0.0)),
            };
            let cap0 = if nonpos { rng.range(0, 8) as usize } else { rng.range(0, 40) as usize };
            Some((c0, start0, cap0))
        } else {
            None
        };
        let hist = if is_fixed { History::none() } else { gen_history(rng, curved) };
        let tag = format!("{}{}{}", tag, if pre.is_some() { " used-pattern" } else { "" }, hist.tag());
        let mut args = Out::new();
        if curved {
            args.f(tol);
        }
        args.u(nattr as u64).f(start).u(cap as u64);
        match &pat {
            Pattern::Reg(i) => {
                args.t("reg").f(*i);
            }
            Pattern::Rep(v, idx) => {
                args.t("rep").u(*idx as u64).u(v.len() as u64);
                for x in v {
                    args.f(*x);
                }
            }
        }
        put_cmds(&mut args, &cmds, true);
        if let Some((c0, s0, cap0)) = &pre {
            args.t("P").f(*s0).u(*cap0 as u64);
            put_cmds(&mut args, c0, true);
        }
        put_history(&mut args, &hist);
        (args, tag, move || {
            let mut o = Out::new();
            let mut orc = Oracle::new();
            let path = build_path(&cmds, nattr);
            let mut walks: Vec<(&[Cmd], f32, usize)> = Vec::new();
            if let Some((c0, s0, cap0)) = &pre {
                walks.push((&c0[..], *s0, *cap0));
            }
            walks.push((&cmds[..], start, cap));
            let mut ws = run_walks(&walks, nattr, tol, &pat);
            let w = ws.pop().unwrap();
            // the pattern object as this walk found it
            let mut pat_now = pat.clone();
            let mut porc = Oracle::new();
            if let (Some(w0), Some((c0, s0, cap0))) = (ws.pop(), &pre) {
                o.t("pre").u(w0.events.len() as u64);
                // the earlier walk is a walk like any other: same oracle
                let m0 = PathMeasurements::from_path(&build_path(c0, nattr), tol);
                check_walk(&mut porc, c0, m0.length(), *s0, tol, &pat, *cap0, &w0, curved);
                if curved && has_degenerate_curve(c0, tol) {
                    porc = Oracle::new();
                }
                pat_now = pattern_after(&pat, w0.events.len(), *cap0);
            }
            o.t("n").u(w.events.len() as u64);
            for (p, t, d, a) in &w.events {
                o.p(*p).v(*t).f(*d);
                for x in a {
                    o.f(*x);
                }
            }
            // the walked path measured on a PathMeasurements object with a history
            let mut horc = Oracle::new();
            let mlen = match run_phases(&hist, &mut o, &mut horc) {
                Ok(used) => {
                    let m = hist.last.obtain(used, &path, tol);
                    if !hist.is_none() {
                        o.t("mlen").f(m.length());
                    }
                    Some(m.length())
                }
                Err(()) => None,
            };
            if let Some(mlen) = mlen {
                check_walk(&mut orc, &cmds, mlen, start, tol, &pat_now, cap, &w, curved);
            }
            if curved && has_degenerate_curve(&cmds, tol) {
                orc = Oracle::new();
                orc.skip("degenerate-curve-c09");
            }
            for h in [porc, horc] {
                if h.failed() && !orc.failed() {
                    orc = h;
                }
            }
            CaseOut { imp: o, orcl: orc.verdict }
        })
    });
}

#[allow(clippy::too_many_arguments)]
fn check_walk(orc: &mut Oracle, cmds: &[Cmd], measured: f32, start: f32, tol: f32, pat: &Pattern, cap: usize, w: &WalkOut, curved: bool) {
    let coarse = ref_edges(cmds, tol);
    let fine = if curved { ref_edges(cmds, (tol * 0.02).max(1e-4)) } else { coarse.clone() };
    let lref = total(&coarse);
    let mc = maxcoord(cmds);
    let eps = 1.2e-7f64;
    let n_edges = coarse.len() as f64;
    let n_ev = w.events.len() as f64;
    // leftover arithmetic: one rounding per event and per edge, at the magnitude of the length
    let round = 16.0 * eps * (lref + mc + start.abs() as f64) * (n_edges + n_ev + 4.0) + 2e-5 * n_edges;
    let deficit = if curved { 4.0 * tol as f64 * coarse.iter().filter(|e| e.curved).count() as f64 } else { 0.0 };
    let longest = coarse.iter().filter(|e| e.curved).map(|e| e.s1 - e.s0).fold(0.0, f64::max);

    // which requests were actually consumed: start, then pattern answers 0..n-2
    let consumed: Vec<f32> = (0..w.events.len()).map(|k| if k == 0 { start.max(0.0) } else { pattern_request(pat, k - 1) }).collect();
    let nonpos_at = consumed.iter().skip(1).position(|x| !(*x > 0.0));
    if let Some(k) = nonpos_at {
        // A non-positive request was consumed.  C19 speaks about the points visited at the
        // cumulative distances asked for and is silent about termination; a zero request asks for
        // the same point again.  What the real code does is RECORDED (not demanded): the loop
        // `while distance >= next_distance` makes no progress and only the callback's cap ends it
        // (theorems walker_needs_positive / walker_terminates_of_positive state the hypothesis).
        let capped = w.events.len() == cap + 1;
        let _ = k;
        if capped {
            orc.skip("nonpositive-interval-hangs");
        } else {
            orc.skip("nonpositive-interval-ended");
        }
        return;
    }
    // cumulative distances: exactly the f32 running sum of the requests
    let mut acc = 0.0f32;
    for (k, (p, t, d, _attrs)) in w.events.iter().enumerate() {
        acc += consumed[k];
        orc.check(*d == acc, "walker.event/cumulative-distance", "generic", || format!("event {} distance {} expected {}", k, d, acc));
        let pp = p64(*p);
        if !curved {
            let cands = at_arclength(&coarse, *d as f64, round);
            let best = cands.iter().map(|c| d64(pp, c.0)).fold(f64::INFINITY, f64::min);
            orc.check(best <= round, "walker.event/position-at-distance", "generic", || {
                format!("event {} at distance {} position {:?}: nearest reference point at that arclength is {} away (allowance {})", k, d, p, best, round)
            });
            let tn = (t.x as f64, t.y as f64);
            let tbest = cands
                .iter()
                .map(|c| {
                    let e = &coarse[c.1];
                    let l = e.s1 - e.s0;
                    d64(tn, ((e.b.0 - e.a.0) / l, (e.b.1 - e.a.1) / l))
                })
                .fold(f64::INFINITY, f64::min);
            let shortest = cands.iter().map(|c| coarse[c.1].s1 - coarse[c.1].s0).fold(f64::INFINITY, f64::min);
            let tallow = 1e-5 + 8.0 * eps * mc / shortest.max(1e-30) + 4e-5 / shortest.max(1e-30);
            orc.check(tbest <= tallow, "walker.event/tangent", "generic", || format!("event {} tangent {:?}: off by {} (allowance {})", k, t, tbest, tallow));
        } else {
            let reach = 2.0 * tol as f64 + round;
            let near = arclengths_near(&fine, pp, reach);
            orc.check(!near.is_empty(), "walker.event/on-path", "generic", || format!("event {} position {:?} is more than {} away from the path", k, p, reach));
            if !near.is_empty() {
                let allow = round + deficit + (total(&fine) - lref).abs() + longest;
                let best = near.iter().map(|(s, _)| (s - *d as f64).abs()).fold(f64::INFINITY, f64::min);
                orc.check(best <= allow, "walker.event/position-at-distance", "generic", || {
                    format!("event {} at distance {} position {:?}: re-measured arclength differs by {} (allowance {})", k, d, p, best, allow)
                });
            }
        }
    }
    // the walk covers the whole path: unless the callback stopped it, the next request would
    // have overshot the measured length (= walker's final distance, within rounding)
    // `measured` = PathMeasurements::length() of the walked path (on an object with any history)
    let len = measured as f64;
    // the measured length is that of the flattening
    orc.check((len - lref).abs() <= round, "measure.length/equals-flattening", "generic", || format!("length {} flattening {} allowance {}", len, lref, round));
    let stopped = w.events.len() == cap + 1;
    if !stopped {
        let next = if w.events.is_empty() { start.max(0.0) } else { acc + pattern_request(pat, w.events.len() - 1) };
        orc.check(next as f64 > len - round - deficit, "walker/final-distance-equals-length", "generic", || {
            format!("walk ended after {} events at {}, next request at {} but measured length is {}", w.events.len(), acc, next, len)
        });
    }
    if let Some(last) = w.events.last() {
        orc.check(last.2 as f64 <= len + round + deficit, "walker/final-distance-equals-length", "generic", || format!("last event at {} beyond measured length {}", last.2, len));
    }
}

// ---------------------------------------------------------------------------------------------

fn witness_cases(ctx: &mut Ctx) {
    let l = |x: f32, y: f32| Cmd::L(point(x, y), vec![]);
    let b = |x: f32, y: f32| Cmd::B(point(x, y), vec![]);
    // DESIGN.md §7: begin(0,0) end; begin(1,0) line(2,0) end — sample(0.0) hits unreachable!()
    sampler_case(ctx, "sampler", Some((vec![b(0.0, 0.0), Cmd::E(false), b(1.0, 0.0), l(2.0, 0.0), Cmd::E(false)], 0, false, vec![Query::S(0.5), Query::S(0.0)], "witness single-point-subpath sample")));
    sampler_case(ctx, "sampler", Some((vec![b(0.0, 0.0), Cmd::E(false), b(1.0, 0.0), l(2.0, 0.0), Cmd::E(false)], 0, true, vec![Query::R(0.0, 0.5)], "witness single-point-subpath split")));
    // zero-length first edge: sample(0.0) divides 0 by 0
    sampler_case(ctx, "sampler", Some((vec![b(0.0, 0.0), l(0.0, 0.0), l(1.0, 0.0), Cmd::E(false)], 0, false, vec![Query::S(0.25), Query::S(0.0), Query::R(0.0, 0.5)], "witness zero-length-first-edge")));
    // the same paths are fine when asked anywhere else
    sampler_case(ctx, "sampler", Some((vec![b(0.0, 0.0), Cmd::E(false), b(1.0, 0.0), l(2.0, 0.0), Cmd::E(false)], 0, false, vec![Query::S(0.5), Query::S(1.0), Query::S(0.25), Query::R(0.25, 0.75)], "witness single-point-subpath other-distances")));
    // walker: zero and negative interval (callback cap 8)
    walk_case(ctx, "walk", Some((vec![b(0.0, 0.0), l(10.0, 0.0), Cmd::E(false)], 0, 0.0, Pattern::Reg(0.0), 8, "witness walker zero-interval nonpositive")));
    walk_case(ctx, "walk", Some((vec![b(0.0, 0.0), l(10.0, 0.0), Cmd::E(false)], 0, 1.0, Pattern::Reg(-1.0), 8, "witness walker negative-interval nonpositive")));
    // walker attributes as the code computes them (recorded, not demanded): 0→10 edge, interval 2
    walk_case(ctx, "walk", Some((vec![Cmd::B(point(0.0, 0.0), vec![0.0]), Cmd::L(point(10.0, 0.0), vec![10.0]), Cmd::E(false)], 1, 0.0, Pattern::Reg(2.0), 100, "witness walker attributes t2")));
    // lyon's own tests
    walk_case(ctx, "walk", Some((vec![b(0.0, 0.0), l(6.0, 0.0), l(6.0, 6.0), l(0.0, 6.0), Cmd::E(true)], 0, 0.0, Pattern::Reg(2.0), 100, "witness walk_square")));
    walk_case(ctx, "walk", Some((vec![b(0.0, 0.0), l(5.0, 0.0), l(5.0, 5.0), l(0.0, 5.0), Cmd::E(true)], 0, 1.0, Pattern::Reg(3.0), 100, "witness walk_with_leftover")));
}

fn main() {
    let mut ctx = Ctx::from_args("C19");
    witness_cases(&mut ctx);
    for _ in 0..ctx.n(2400, 60000) {
        sampler_case(&mut ctx, "sampler", None);
    }
    for _ in 0..ctx.n(1200, 30000) {
        walk_case(&mut ctx, "walk", None);
    }
    for _ in 0..ctx.n(600, 20000) {
        sampler_case(&mut ctx, "curved", None);
    }
    for _ in 0..ctx.n(300, 10000) {
        walk_case(&mut ctx, "curved_walk", None);
    }
    ctx.finish();
}
