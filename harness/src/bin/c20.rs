//! C20 — hatch segments and dots lie exactly on the even-odd interior, at the set spacing.
//!
//! Families (f32 only: `hatching.rs` is not generic in the scalar):
//!   `hatch`  polygonal event stream → `Hatcher::hatch_path`; IMPL = the exact sequence of
//!            `next_offset(row)` / `add_segment` callbacks (compared with the model token by token)
//!   `dots`   polygonal event stream → `Hatcher::dot_path`; IMPL = `next_row_offset(col,row)` /
//!            `add_dot` callbacks
//!   `curves` (oracle only) paths with quadratic / cubic segments through both entry points
//!   `stall`  (oracle only, 9 fixed cases) the row loop at magnitudes where `y + offset == y`
//!
//! History of the Hatcher object: about half of the `hatch` / `dots` / `curves` cases run their call
//! on a `Hatcher` that has served earlier calls (`HIST k <call>*` behind the case's own arguments;
//! drawn after all draws of the case's own input): 1-3 calls through either entry point on other
//! paths (polygonal, curved, without edges), other angles / uv origins / tangent flags / patterns,
//! half of them ended early by their pattern (a regular pattern with a non-positive interval, or a
//! table pattern with a non-positive offset at a random row 1..10), plus the fixed complete
//! triangle call of the old `reused` cases.  IMPL = `hist k` + the trace of EVERY call in order
//! (the model runs the same history on one object of `Model/Algo/HatchObj.lean`); the oracle below
//! judges every call of the history with that call's own path / options / pattern.
//!
//! ORCL (always on the real implementation's output, independent f64 / lattice-exact reference):
//!   * `…/no-panic`            empty path → no output, no panic        (class `empty-path-unwrap`)
//!   * `hatch/offset-calls`    `next_offset` is asked for rows 0,1,2,… and nothing follows a
//!                             non-positive offset
//!   * `hatch/row-position`    row k lies at `min y' + Σ_{i≤k} offset_i` (rotated frame; + flattening tolerance)
//!   * `hatch/row-spacing`     two hatched rows are exactly the sum of the returned offsets apart
//!   * `hatch/rows-cover`      every such row above `max y'` is hatched, none below
//!   * `hatch/perpendicular`   both ends of a segment satisfy `sin a·X + cos a·Y = y_row`, and
//!                             `cos a·X − sin a·Y = u + uv_origin'.x`, `a.u ≤ b.u`
//!   * `hatch/midpoint-inside` mid-point of every segment is inside under an independent even-odd
//!                             crossing count (probes closer to the outline than the allowance —
//!                             flattening tolerance + f32 rounding — are not judged)
//!   * `hatch/outside-ends`    a point just beyond either end is outside (or covered by another
//!                             segment of the row)
//!   * `hatch/exact-intervals` lattice input, angle 0: the emitted intervals of every row (also rows
//!                             with no segment) equal the exact even-odd intervals of the row's line
//!                             (zero-length intervals dropped, touching ones merged; on a row that
//!                             contains a horizontal edge either one-sided limit is accepted)
//!   * `dots/inside`, `dots/on-row`, `dots/row-spacing`, `dots/aligned`, `dots/row-calls`,
//!     `dots/position-finite` (class `zero-length-segment-normalize`: known finding)

use std::cell::RefCell;

use lyon_algorithms::hatching::{
    Dot, DotBuilder, DotOptions, HatchBuilder, HatchSegment, Hatcher, HatchingOptions, RegularDotPattern,
    RegularHatchingPattern,
};
use lyon_path::math::{point, Angle, Point, Vector};
use lyon_path::{Path, PathEvent};
use vh::{CaseOut, Ctx, Oracle, Out, Rng};

const EPS32: f64 = 1.1920929e-7;

// ---------------------------------------------------------------------------------------------
// input

#[derive(Clone, Copy, Debug)]
enum Ev {
    B(Point),
    L(Point),
    Q(Point, Point),
    C(Point, Point, Point),
    E,
}

fn to_path_events(evs: &[Ev]) -> Vec<PathEvent> {
    // `from` / `last` / `first` are filled in the way `Path::iter` does; `EventsBuilder` ignores them
    let mut out = Vec::new();
    let mut first = point(0.0, 0.0);
    let mut cur = point(0.0, 0.0);
    for e in evs {
        match *e {
            Ev::B(p) => {
                out.push(PathEvent::Begin { at: p });
                first = p;
                cur = p;
            }
            Ev::L(p) => {
                out.push(PathEvent::Line { from: cur, to: p });
                cur = p;
            }
            Ev::Q(c, p) => {
                out.push(PathEvent::Quadratic { from: cur, ctrl: c, to: p });
                cur = p;
            }
            Ev::C(c1, c2, p) => {
                out.push(PathEvent::Cubic { from: cur, ctrl1: c1, ctrl2: c2, to: p });
                cur = p;
            }
            Ev::E => out.push(PathEvent::End { last: cur, first, close: true }),
        }
    }
    out
}

fn well_formed(evs: &[Ev]) -> bool {
    let mut open = false;
    for e in evs {
        match e {
            Ev::B(_) => {
                if open {
                    return false;
                }
                open = true
            }
            Ev::E => {
                if !open {
                    return false;
                }
                open = false
            }
            _ => {
                if !open {
                    return false;
                }
            }
        }
    }
    !open
}

/// through the real `Path` (builder + iterator) when the stream is well formed
fn events_via_path(evs: &[Ev]) -> Vec<PathEvent> {
    if !well_formed(evs) {
        return to_path_events(evs);
    }
    let mut b = Path::builder();
    for e in evs {
        match *e {
            Ev::B(p) => {
                b.begin(p);
            }
            Ev::L(p) => {
                b.line_to(p);
            }
            Ev::Q(c, p) => {
                b.quadratic_bezier_to(c, p);
            }
            Ev::C(c1, c2, p) => {
                b.cubic_bezier_to(c1, c2, p);
            }
            Ev::E => b.end(true),
        }
    }
    b.build().iter().collect()
}

fn put_events(o: &mut Out, evs: &[Ev]) {
    o.t("P").u(evs.len() as u64);
    for e in evs {
        match *e {
            Ev::B(p) => {
                o.t("B").p(p);
            }
            Ev::L(p) => {
                o.t("L").p(p);
            }
            Ev::Q(c, p) => {
                o.t("Q").p(c).p(p);
            }
            Ev::C(c1, c2, p) => {
                o.t("C").p(c1).p(c2).p(p);
            }
            Ev::E => {
                o.t("E");
            }
        }
    }
}

fn subpaths_to_events(sp: &[Vec<Point>]) -> Vec<Ev> {
    let mut v = Vec::new();
    for s in sp {
        if s.is_empty() {
            continue;
        }
        v.push(Ev::B(s[0]));
        for p in &s[1..] {
            v.push(Ev::L(*p));
        }
        v.push(Ev::E);
    }
    v
}

struct Shape {
    evs: Vec<Ev>,
    kind: &'static str,
    /// all coordinates on the 1/4 lattice, |c| ≤ 8
    lattice: bool,
}

fn lat(rng: &mut Rng) -> f32 {
    rng.lattice(32, 2) as f32
}

fn gen_shape(rng: &mut Rng) -> Shape {
    let k = rng.below(20);
    let lp = |rng: &mut Rng| point(lat(rng), lat(rng));
    match k {
        0..=2 => {
            // rectangle with a rectangular hole (hole may touch / stick out: still even-odd)
            let (x0, y0) = (rng.range(-32, -4), rng.range(-32, -4));
            let (x1, y1) = (rng.range(4, 32), rng.range(4, 32));
            let rect = |x0: i64, y0: i64, x1: i64, y1: i64, cw: bool| {
                let q = |x: i64, y: i64| point(x as f32 / 4.0, y as f32 / 4.0);
                let mut v = vec![q(x0, y0), q(x1, y0), q(x1, y1), q(x0, y1)];
                if cw {
                    v.reverse();
                }
                v
            };
            let mut sp = vec![rect(x0, y0, x1, y1, false)];
            let nh = rng.range(1, 2);
            for _ in 0..nh {
                let hx0 = rng.range(x0, x1 - 1);
                let hy0 = rng.range(y0, y1 - 1);
                let over = if rng.chance(1, 8) { 4 } else { 0 };
                let hx1 = rng.range(hx0 + 1, x1 + over);
                let hy1 = rng.range(hy0 + 1, y1);
                sp.push(rect(hx0, hy0, hx1, hy1, rng.chance(1, 2)));
            }
            Shape { evs: subpaths_to_events(&sp), kind: "rect-holes", lattice: true }
        }
        3..=5 => {
            // rectilinear staircase polygon: many horizontal edges, vertices level with rows
            let n = rng.range(2, 5);
            let mut xs: Vec<i64> = (0..n).map(|_| rng.range(1, 8)).collect();
            xs.sort();
            let mut pts = Vec::new();
            let mut y = rng.range(-16, 0);
            let x_left = rng.range(-32, -8);
            pts.push(point(x_left as f32 / 4.0, y as f32 / 4.0));
            for i in 0..n as usize {
                let x = x_left + 4 * xs[i] + rng.range(0, 3);
                pts.push(point(x as f32 / 4.0, y as f32 / 4.0));
                y += rng.range(1, 8);
                pts.push(point(x as f32 / 4.0, y as f32 / 4.0));
            }
            pts.push(point(x_left as f32 / 4.0, y as f32 / 4.0));
            Shape { evs: subpaths_to_events(&[pts]), kind: "rectilinear", lattice: true }
        }
        6..=9 => {
            // random lattice polygon (self-intersections allowed: the rule is even-odd)
            let n = rng.range(3, 9) as usize;
            let pts: Vec<Point> = (0..n).map(|_| lp(rng)).collect();
            Shape { evs: subpaths_to_events(&[pts]), kind: "lattice-poly", lattice: true }
        }
        10..=11 => {
            let m = rng.range(2, 3);
            let sp: Vec<Vec<Point>> = (0..m)
                .map(|_| {
                    let n = rng.range(3, 6) as usize;
                    (0..n).map(|_| lp(rng)).collect()
                })
                .collect();
            Shape { evs: subpaths_to_events(&sp), kind: "lattice-multi", lattice: true }
        }
        12 => {
            // degenerate: repeated points, zero-length edges, collinear runs, 1- and 2-point sub-paths
            let mut sp: Vec<Vec<Point>> = Vec::new();
            let m = rng.range(1, 3);
            for _ in 0..m {
                let n = rng.range(1, 6) as usize;
                let mut pts: Vec<Point> = Vec::new();
                for _ in 0..n {
                    let p = if !pts.is_empty() && rng.chance(1, 3) { pts[rng.below(pts.len() as u64) as usize] } else { lp(rng) };
                    pts.push(p);
                }
                sp.push(pts);
            }
            Shape { evs: subpaths_to_events(&sp), kind: "degenerate", lattice: true }
        }
        13..=15 => {
            let n = rng.range(3, 10) as usize;
            let pts: Vec<Point> = (0..n).map(|_| point(rng.uniform(-100.0, 100.0) as f32, rng.uniform(-100.0, 100.0) as f32)).collect();
            Shape { evs: subpaths_to_events(&[pts]), kind: "uniform-poly", lattice: false }
        }
        16 => {
            // star around a centre, wide magnitudes
            let s = 10f64.powf(rng.uniform(-2.0, 3.0));
            let (cx, cy) = (rng.uniform(-1.0, 1.0) * s, rng.uniform(-1.0, 1.0) * s);
            let n = rng.range(3, 12) as usize;
            let pts: Vec<Point> = (0..n)
                .map(|i| {
                    let a = i as f64 / n as f64 * std::f64::consts::TAU;
                    let r = s * rng.uniform(0.2, 1.0);
                    point((cx + r * a.cos()) as f32, (cy + r * a.sin()) as f32)
                })
                .collect();
            Shape { evs: subpaths_to_events(&[pts]), kind: "star-wide", lattice: false }
        }
        17..=18 => {
            // malformed stream (the release build has no validator): any order of B / L / E
            let n = rng.range(1, 9) as usize;
            let evs: Vec<Ev> = (0..n)
                .map(|_| match rng.below(5) {
                    0 => Ev::B(lp(rng)),
                    1 => Ev::E,
                    _ => Ev::L(lp(rng)),
                })
                .collect();
            Shape { evs, kind: "malformed", lattice: true }
        }
        _ => {
            // no edge at all: empty path, or only zero-length edges
            let evs = match rng.below(4) {
                0 | 1 => vec![],
                2 => {
                    let p = lp(rng);
                    vec![Ev::B(p), Ev::E]
                }
                _ => {
                    let p = lp(rng);
                    vec![Ev::B(p), Ev::L(p), Ev::L(p), Ev::E]
                }
            };
            Shape { evs, kind: "trivial-no-edges", lattice: true }
        }
    }
}

fn gen_curved(rng: &mut Rng) -> Shape {
    let s = if rng.chance(1, 4) { 10f64.powf(rng.uniform(-1.0, 3.0)) } else { 50.0 };
    let m = rng.range(1, 2);
    let mut evs = Vec::new();
    let rp = |rng: &mut Rng| point((rng.uniform(-1.0, 1.0) * s) as f32, (rng.uniform(-1.0, 1.0) * s) as f32);
    for _ in 0..m {
        evs.push(Ev::B(rp(rng)));
        let n = rng.range(2, 6);
        for _ in 0..n {
            evs.push(match rng.below(3) {
                0 => Ev::L(rp(rng)),
                1 => Ev::Q(rp(rng), rp(rng)),
                _ => Ev::C(rp(rng), rp(rng), rp(rng)),
            });
        }
        evs.push(Ev::E);
    }
    Shape { evs, kind: "curved", lattice: false }
}

fn gen_angle(rng: &mut Rng) -> f32 {
    match rng.below(12) {
        0..=5 => 0.0,
        6 => std::f32::consts::FRAC_PI_2,
        7 => std::f32::consts::FRAC_PI_4,
        8 => 0.3,
        9 => -1.0,
        10 => *rng.pick(&[2.5f32, std::f32::consts::PI, -0.0, 6.0, -std::f32::consts::FRAC_PI_2]),
        _ => rng.uniform(-7.0, 7.0) as f32,
    }
}

fn extent(evs: &[Ev]) -> f64 {
    let mut m = 0.0f64;
    let mut upd = |p: Point| m = m.max(p.x.abs() as f64).max(p.y.abs() as f64);
    for e in evs {
        match *e {
            Ev::B(p) | Ev::L(p) => upd(p),
            Ev::Q(c, p) => {
                upd(c);
                upd(p)
            }
            Ev::C(a, b, p) => {
                upd(a);
                upd(b);
                upd(p)
            }
            Ev::E => {}
        }
    }
    m
}

/// row offsets: (table, tail); row r gets table[r] if r < len, else tail
#[derive(Clone, Debug)]
struct Offsets {
    regular: bool,
    tab: Vec<f32>,
    tail: f32,
}

impl Offsets {
    fn at(&self, row: u32) -> f32 {
        *self.tab.get(row as usize).unwrap_or(&self.tail)
    }
    fn put(&self, o: &mut Out) {
        if self.regular {
            o.t("R").f(self.tail);
        } else {
            o.t("T").u(self.tab.len() as u64);
            for x in &self.tab {
                o.f(*x);
            }
            o.f(self.tail);
        }
    }
}

fn gen_offsets(rng: &mut Rng, sh: &Shape, max_rows: f64) -> Offsets {
    let ext = (2.0 * extent(&sh.evs) * 1.5).max(1e-3);
    let base: f32 = if sh.lattice {
        // lattice intervals: rows pass exactly through vertices at angle 0
        let mut i = *rng.pick(&[0.25f32, 0.5, 0.5, 1.0, 1.0, 2.0, 4.0, 0.75, 1.5]);
        while ext / i as f64 > max_rows {
            i *= 2.0;
        }
        i
    } else {
        (ext / rng.uniform(2.0, max_rows)) as f32
    };
    if rng.chance(1, 2) {
        return Offsets { regular: true, tab: vec![], tail: base };
    }
    let n = rng.range(1, 6) as usize;
    let mut tab: Vec<f32> = (0..n)
        .map(|_| if sh.lattice { base * rng.range(1, 4) as f32 * 0.5 } else { base * rng.uniform(0.3, 2.0) as f32 })
        .collect();
    if rng.chance(1, 6) {
        // first offset may be anything (it is never tested against zero)
        tab[0] = if sh.lattice { base * rng.range(-4, 2) as f32 } else { base * rng.uniform(-3.0, 1.0) as f32 };
    }
    let tail = match rng.below(8) {
        0 => 0.0,
        1 => -base,
        _ => base,
    };
    if rng.chance(1, 10) && n > 1 {
        let i = rng.range(1, n as i64 - 1) as usize;
        tab[i] = *rng.pick(&[0.0f32, -0.0, -1.0]);
    }
    Offsets { regular: false, tab, tail }
}

// ---------------------------------------------------------------------------------------------
// logging builders

#[derive(Clone, Copy)]
struct HS {
    ap: Point,
    au: f32,
    at: Vector,
    bp: Point,
    bu: f32,
    bt: Vector,
    row: u32,
    v: f32,
}

enum HItem {
    Off(u32),
    Seg(HS),
}

struct HLog<'a> {
    items: &'a RefCell<Vec<HItem>>,
    offs: &'a Offsets,
    reg: Option<RegularHatchingPattern<Box<dyn FnMut(&HatchSegment) + 'a>>>,
}

fn copy_seg(s: &HatchSegment) -> HS {
    HS { ap: s.a.position, au: s.a.u, at: s.a.tangent, bp: s.b.position, bu: s.b.u, bt: s.b.tangent, row: s.row, v: s.v }
}

impl<'a> HLog<'a> {
    fn new(items: &'a RefCell<Vec<HItem>>, offs: &'a Offsets) -> HLog<'a> {
        let reg = if offs.regular {
            Some(RegularHatchingPattern {
                interval: offs.tail,
                callback: Box::new(move |s: &HatchSegment| items.borrow_mut().push(HItem::Seg(copy_seg(s)))) as Box<dyn FnMut(&HatchSegment) + 'a>,
            })
        } else {
            None
        };
        HLog { items, offs, reg }
    }
}

impl<'a> HatchBuilder for HLog<'a> {
    fn add_segment(&mut self, s: &HatchSegment) {
        if self.items.borrow().len() > 200_000 {
            panic!("harness: runaway output");
        }
        match &mut self.reg {
            Some(r) => r.add_segment(s),
            None => self.items.borrow_mut().push(HItem::Seg(copy_seg(s))),
        }
    }
    fn next_offset(&mut self, row: u32) -> f32 {
        if self.items.borrow().len() > 200_000 {
            panic!("harness: runaway output");
        }
        self.items.borrow_mut().push(HItem::Off(row));
        match &mut self.reg {
            Some(r) => r.next_offset(row),
            None => self.offs.at(row),
        }
    }
}

#[derive(Clone, Debug)]
struct DotPat {
    regular: bool,
    /// regular: column_interval / row_interval
    ci: f32,
    ri: f32,
    first: f32,
    align: Option<f32>,
    rows: Offsets,
    cols: Vec<f32>,
}

impl DotPat {
    fn col_off(&self, col: u32, row: u32) -> f32 {
        if self.regular {
            self.ci
        } else {
            self.cols[((col + row) as usize) % self.cols.len()]
        }
    }
    fn put(&self, o: &mut Out) {
        if self.regular {
            o.t("R").f(self.ci).f(self.ri);
        } else {
            o.t("T").f(self.first);
            match self.align {
                None => {
                    o.t("none");
                }
                Some(d) => {
                    o.t("some").f(d);
                }
            }
            self.rows.put(o);
            o.t("K").u(self.cols.len() as u64);
            for c in &self.cols {
                o.f(*c);
            }
        }
    }
}

#[derive(Clone, Copy)]
struct DS {
    pos: Point,
    u: f32,
    v: f32,
    col: u32,
    row: u32,
}

enum DItem {
    RowOff(u32, u32),
    Dot(DS),
}

struct DLog<'a> {
    items: &'a RefCell<Vec<DItem>>,
    pat: &'a DotPat,
    reg: Option<RegularDotPattern<Box<dyn FnMut(&Dot) + 'a>>>,
}

impl<'a> DLog<'a> {
    fn new(items: &'a RefCell<Vec<DItem>>, pat: &'a DotPat) -> DLog<'a> {
        let reg = if pat.regular {
            Some(RegularDotPattern {
                column_interval: pat.ci,
                row_interval: pat.ri,
                callback: Box::new(move |d: &Dot| {
                    items.borrow_mut().push(DItem::Dot(DS { pos: d.position, u: d.u, v: d.v, col: d.column, row: d.row }))
                }) as Box<dyn FnMut(&Dot) + 'a>,
            })
        } else {
            None
        };
        DLog { items, pat, reg }
    }
}

impl<'a> DotBuilder for DLog<'a> {
    fn first_column_offset(&mut self, row: u32) -> f32 {
        match &mut self.reg {
            Some(r) => r.first_column_offset(row),
            None => self.pat.first,
        }
    }
    fn alignment(&mut self, row: u32) -> Option<f32> {
        match &mut self.reg {
            Some(r) => r.alignment(row),
            None => self.pat.align,
        }
    }
    fn next_row_offset(&mut self, column: u32, row: u32) -> f32 {
        if self.items.borrow().len() > 200_000 {
            panic!("harness: runaway output");
        }
        self.items.borrow_mut().push(DItem::RowOff(column, row));
        match &mut self.reg {
            Some(r) => r.next_row_offset(column, row),
            None => self.pat.rows.at(row),
        }
    }
    fn next_column_offset(&mut self, column: u32, row: u32) -> f32 {
        match &mut self.reg {
            Some(r) => r.next_column_offset(column, row),
            None => self.pat.col_off(column, row),
        }
    }
    fn add_dot(&mut self, d: &Dot) {
        if self.items.borrow().len() > 200_000 {
            panic!("harness: runaway output");
        }
        match &mut self.reg {
            Some(r) => r.add_dot(d),
            None => self.items.borrow_mut().push(DItem::Dot(DS { pos: d.position, u: d.u, v: d.v, col: d.column, row: d.row })),
        }
    }
}

// ---------------------------------------------------------------------------------------------
// independent reference (f64)

type P2 = (f64, f64);

fn rot64(a: f64, p: P2) -> P2 {
    let (s, c) = a.sin_cos();
    (p.0 * c - p.1 * s, p.1 * c + p.0 * s)
}

/// the outline as closed polylines in world coordinates.  Curves are replaced by the polyline
/// `lyon_geom`'s own flattening gives at the requested tolerance (the same calls
/// `EventsBuilder::{quadratic_bezier_to, cubic_bezier_to}` make): how far that polyline is from the
/// curve is property C09's business; C20 is about the hatcher on the flattened outline.
fn reference_edges(evs: &[Ev], tolerance: f32) -> Vec<(P2, P2)> {
    use lyon_geom::{CubicBezierSegment, QuadraticBezierSegment};
    let mut edges = Vec::new();
    let mut first = point(0.0f32, 0.0);
    let mut cur = point(0.0f32, 0.0);
    let f = |p: Point| (p.x as f64, p.y as f64);
    let push = |a: Point, b: Point, edges: &mut Vec<(P2, P2)>| {
        if a != b {
            edges.push((f(a), f(b)));
        }
    };
    for e in evs {
        match *e {
            Ev::B(p) => {
                first = p;
                cur = p;
            }
            Ev::L(p) => {
                push(cur, p, &mut edges);
                cur = p;
            }
            Ev::Q(c, p) => {
                let mut prev = cur;
                QuadraticBezierSegment { from: cur, ctrl: c, to: p }.for_each_flattened(tolerance, &mut |l| {
                    push(prev, l.to, &mut edges);
                    prev = l.to;
                });
                cur = prev;
            }
            Ev::C(c1, c2, p) => {
                let mut prev = cur;
                CubicBezierSegment { from: cur, ctrl1: c1, ctrl2: c2, to: p }.for_each_flattened(tolerance, &mut |l| {
                    push(prev, l.to, &mut edges);
                    prev = l.to;
                });
                cur = prev;
            }
            Ev::E => {
                push(cur, first, &mut edges);
            }
        }
    }
    edges
}

/// even-odd crossing count of the horizontal ray to the left of `q`
fn inside64(edges: &[(P2, P2)], q: P2) -> bool {
    let mut n = 0;
    for &(a, b) in edges {
        let (lo, hi) = if a.1 <= b.1 { (a, b) } else { (b, a) };
        if lo.1 <= q.1 && q.1 < hi.1 {
            let x = lo.0 + (q.1 - lo.1) * (hi.0 - lo.0) / (hi.1 - lo.1);
            if x < q.0 {
                n += 1;
            }
        }
    }
    n % 2 == 1
}

fn dist_boundary(edges: &[(P2, P2)], q: P2) -> f64 {
    let mut best = f64::INFINITY;
    for &(a, b) in edges {
        let (dx, dy) = (b.0 - a.0, b.1 - a.1);
        let l2 = dx * dx + dy * dy;
        let t = if l2 > 0.0 { (((q.0 - a.0) * dx + (q.1 - a.1) * dy) / l2).clamp(0.0, 1.0) } else { 0.0 };
        let (px, py) = (a.0 + t * dx - q.0, a.1 + t * dy - q.1);
        best = best.min((px * px + py * py).sqrt());
    }
    best
}

/// exact even-odd intervals of the line `y' = y` (rotated-frame edges), lower-half-open (`up == false`:
/// limit from y+) or upper-half-open convention; zero-length dropped, touching merged
fn reference_intervals(edges: &[(P2, P2)], y: f64, upper: bool, tol: f64) -> Vec<(f64, f64)> {
    let mut xs = Vec::new();
    for &(a, b) in edges {
        let (lo, hi) = if a.1 <= b.1 { (a, b) } else { (b, a) };
        let hit = if upper { lo.1 < y && y <= hi.1 } else { lo.1 <= y && y < hi.1 };
        if hit {
            xs.push(lo.0 + (y - lo.1) * (hi.0 - lo.0) / (hi.1 - lo.1));
        }
    }
    xs.sort_by(|a, b| a.partial_cmp(b).unwrap());
    let iv: Vec<(f64, f64)> = xs.chunks(2).filter(|c| c.len() == 2).map(|c| (c[0], c[1])).collect();
    normalize_intervals(&iv, tol)
}

fn normalize_intervals(iv: &[(f64, f64)], tol: f64) -> Vec<(f64, f64)> {
    let mut out: Vec<(f64, f64)> = Vec::new();
    for &(a, b) in iv {
        if let Some(l) = out.last_mut() {
            if a - l.1 <= tol {
                l.1 = l.1.max(b);
                continue;
            }
        }
        out.push((a, b));
    }
    out.retain(|&(a, b)| b - a > tol);
    out
}

fn same_intervals(a: &[(f64, f64)], b: &[(f64, f64)], tol: f64) -> bool {
    a.len() == b.len() && a.iter().zip(b).all(|(p, q)| (p.0 - q.0).abs() <= tol && (p.1 - q.1).abs() <= tol)
}

struct Frame {
    angle: f64,
    /// reference outline, world frame
    edges: Vec<(P2, P2)>,
    /// same, rotated by `angle`
    redges: Vec<(P2, P2)>,
    ymin: f64,
    ymax: f64,
    uvo: P2,
    scale: f64,
    /// distance below which a probe is too close to the outline to be judged
    allowance: f64,
    /// flattening tolerance (0 for polygonal input): the first row is anchored at the top-most
    /// vertex of the *flattened* outline, which may lie up to this much below the curve's extremum
    flat: f64,
}

fn frame(evs: &[Ev], angle: f32, uv: Point, tolerance: f32, offs_mag: f64) -> Frame {
    let a = angle as f64;
    let edges = reference_edges(evs, tolerance);
    let redges: Vec<(P2, P2)> = edges.iter().map(|&(p, q)| (rot64(a, p), rot64(a, q))).collect();
    let ymin = redges.iter().fold(f64::INFINITY, |m, e| m.min(e.0 .1).min(e.1 .1));
    let ymax = redges.iter().fold(f64::NEG_INFINITY, |m, e| m.max(e.0 .1).max(e.1 .1));
    let uvo = rot64(a, (uv.x as f64, uv.y as f64));
    let scale = (extent(evs) * 1.5 + offs_mag + uvo.0.abs() + uvo.1.abs()).max(1e-6);
    Frame { angle: a, edges, redges, ymin, ymax, uvo, scale, allowance: 64.0 * EPS32 * scale, flat: 0.0 }
}

/// `class` of an input that has no edge at all (the witness predicate of the known finding)
fn no_edges(evs: &[Ev]) -> bool {
    // what `EventsBuilder` would collect, without rotation: every `add_edge(from, to)` has from == to
    let mut first = point(0.0f32, 0.0);
    let mut cur = point(0.0f32, 0.0);
    for e in evs {
        match *e {
            Ev::B(p) => {
                first = p;
                cur = p;
            }
            Ev::L(p) => {
                if cur != p {
                    return false;
                }
                cur = p;
            }
            Ev::Q(c, p) => {
                if cur != p || c != p {
                    return false;
                }
                cur = p;
            }
            Ev::C(c1, c2, p) => {
                if cur != p || c1 != p || c2 != p {
                    return false;
                }
                cur = p;
            }
            Ev::E => {
                if cur != first {
                    return false;
                }
            }
        }
    }
    true
}

/// the oracle on a hatch trace
fn hatch_oracle(orc: &mut Oracle, fr: &Frame, items: &[HItem], offs: &Offsets, wf: bool, exact: bool, site: &str) {
    let cl = |c: &str| format!("{}/{}", site, c);
    // offset calls: rows 0,1,2,…; nothing after a non-positive offset (rows ≥ 1)
    let mut expect = 0u32;
    let mut stopped = false;
    let mut cur_row: i64 = -1;
    for it in items {
        match it {
            HItem::Off(r) => {
                orc.check(!stopped, &cl("offset-calls"), "generic", || format!("next_offset({}) called after a non-positive offset", r));
                orc.check(*r == expect, &cl("offset-calls"), "generic", || format!("next_offset({}) where row {} was due", r, expect));
                if *r >= 1 && offs.at(*r) <= 0.0 {
                    stopped = true;
                }
                cur_row = *r as i64;
                expect = r + 1;
            }
            HItem::Seg(s) => {
                orc.check(!stopped, &cl("offset-calls"), "generic", || format!("segment of row {} after a non-positive offset", s.row));
                orc.check(s.row as i64 == cur_row, &cl("offset-calls"), "generic", || format!("segment with row {} while hatching row {}", s.row, cur_row));
            }
        }
    }
    if !wf || fr.edges.is_empty() {
        return;
    }
    let ncalls = expect as usize;
    if ncalls == 0 {
        orc.check(false, &cl("offset-calls"), "generic", || "next_offset(0) never called".to_string());
        return;
    }
    // reference row positions
    let mut ys: Vec<f64> = Vec::new();
    let mut y = fr.ymin;
    let mut asum = 0.0;
    for k in 0..ncalls {
        y += offs.at(k as u32) as f64;
        asum += (offs.at(k as u32) as f64).abs();
        ys.push(y);
    }
    if ys.iter().any(|y| !y.is_finite()) {
        return;
    }
    let rtol = |k: usize| 4.0 * EPS32 * (fr.scale + asum) * (k as f64 + 4.0);
    // rows-cover: row k (k < ncalls-1) was hatched, so y_k < ymax must hold; the row after the last
    // hatched one must not lie above ymax unless the pattern stopped
    for k in 0..ncalls - 1 {
        orc.check(ys[k] < fr.ymax + rtol(k) + fr.flat, &cl("rows-cover"), "generic", || format!("row {} hatched at y'={} beyond max y'={}", k, ys[k], fr.ymax));
    }
    if !stopped {
        let k = ncalls - 1;
        orc.check(!(ys[k] < fr.ymax - rtol(k) - 2.0 * fr.flat), &cl("rows-cover"), "generic", || {
            format!("row {} at y'={} lies above max y'={} but was not hatched", k, ys[k], fr.ymax)
        });
    }
    let (sa, ca) = fr.angle.sin_cos();
    let mut per_row: Vec<Vec<&HS>> = vec![Vec::new(); ncalls];
    for it in items {
        if let HItem::Seg(s) = it {
            if (s.row as usize) < ncalls {
                per_row[s.row as usize].push(s);
            }
        }
    }
    let mut anchor: Option<(usize, f64)> = None;
    for (k, segs) in per_row.iter().enumerate() {
        let tol = rtol(k);
        for s in segs {
            let yrow = s.v as f64 + fr.uvo.1;
            orc.check((yrow - ys[k]).abs() <= tol + fr.flat, &cl("row-position"), "generic", || {
                format!("row {} reported at y'={} expected min y' + sum(offsets) = {} tol {:e}", k, yrow, ys[k], tol + fr.flat)
            });
            // spacing relative to the first row seen (no flattening slack: offsets are offsets)
            let (k0, y0) = *anchor.get_or_insert((k, yrow));
            orc.check(((yrow - y0) - (ys[k] - ys[k0])).abs() <= tol, &cl("row-spacing"), "generic", || {
                format!("rows {} and {} are {} apart, the offsets returned sum to {} (tol {:e})", k0, k, yrow - y0, ys[k] - ys[k0], tol)
            });
            for (p, u) in [(s.ap, s.au), (s.bp, s.bu)] {
                let (x, y) = (p.x as f64, p.y as f64);
                let e = (sa * x + ca * y - yrow).abs();
                orc.check(e <= tol, &cl("perpendicular"), "generic", || format!("row {}: end ({},{}) is {:e} off the row line (tol {:e})", k, x, y, e, tol));
                let e = (ca * x - sa * y - (u as f64 + fr.uvo.0)).abs();
                orc.check(e <= tol, &cl("perpendicular"), "generic", || format!("row {}: end ({},{}) u={} inconsistent by {:e}", k, x, y, u, e));
            }
            orc.check(s.au <= s.bu, &cl("perpendicular"), "generic", || format!("row {}: a.u={} > b.u={}", k, s.au, s.bu));
            // probes
            let (a, b) = ((s.ap.x as f64, s.ap.y as f64), (s.bp.x as f64, s.bp.y as f64));
            let mid = ((a.0 + b.0) / 2.0, (a.1 + b.1) / 2.0);
            if dist_boundary(&fr.edges, mid) > fr.allowance {
                orc.check(inside64(&fr.edges, mid), &cl("midpoint-inside"), "generic", || {
                    format!("row {}: mid-point ({},{}) of an emitted segment is outside", k, mid.0, mid.1)
                });
            }
            let dir = (ca, -sa);
            let d = 2.5 * fr.allowance;
            for (q, uq) in [((a.0 - d * dir.0, a.1 - d * dir.1), s.au as f64 - d), ((b.0 + d * dir.0, b.1 + d * dir.1), s.bu as f64 + d)] {
                if dist_boundary(&fr.edges, q) > fr.allowance && inside64(&fr.edges, q) {
                    let covered = segs.iter().any(|o| (o.au as f64) - fr.allowance <= uq && uq <= (o.bu as f64) + fr.allowance);
                    orc.check(covered, &cl("outside-ends"), "generic", || {
                        format!("row {}: ({},{}) just beyond an end of a segment is inside and no segment covers it", k, q.0, q.1)
                    });
                }
            }
        }
    }
    // lattice, angle 0: the whole row, exactly
    if exact {
        let tol = 8.0 * EPS32 * fr.scale;
        for k in 0..ncalls - 1 {
            let emitted: Vec<(f64, f64)> = per_row[k].iter().map(|s| (s.ap.x as f64, s.bp.x as f64)).collect();
            let em = normalize_intervals(&emitted, tol);
            let lo = reference_intervals(&fr.redges, ys[k], false, tol);
            let hi = reference_intervals(&fr.redges, ys[k], true, tol);
            let ok = same_intervals(&em, &lo, tol) || same_intervals(&em, &hi, tol);
            orc.check(ok, &cl("exact-intervals"), "generic", || format!("row {} y={}: emitted {:?} even-odd interior {:?}", k, ys[k], em, lo));
        }
    }
}

// ---------------------------------------------------------------------------------------------
// calls on one Hatcher object

#[derive(Clone, Debug)]
enum Pattern {
    Hatch { ct: bool, offs: Offsets },
    Dots { pat: DotPat },
}

/// one `hatch_path` / `dot_path` call: path, options, pattern
#[derive(Clone, Debug)]
struct Call {
    evs: Vec<Ev>,
    shape: &'static str,
    lattice: bool,
    curved: bool,
    angle: f32,
    uv: Point,
    tol: f32,
    pat: Pattern,
    /// the pattern was made to return a non-positive offset at some row (history generator)
    forced_stop: bool,
}

enum Items {
    H(Vec<HItem>),
    D(Vec<DItem>),
}

impl Call {
    /// the record the model driver reads: `h angle uv ct <offsets> P …` / `H angle uv ct tol <offsets> P …`
    /// / `d angle uv <pattern> P …` / `D angle uv tol <pattern> P …`
    fn put(&self, args: &mut Out) {
        match &self.pat {
            Pattern::Hatch { ct, offs } => {
                args.t(if self.curved { "H" } else { "h" }).f(self.angle).p(self.uv).b(*ct);
                if self.curved {
                    args.f(self.tol);
                }
                offs.put(args);
            }
            Pattern::Dots { pat } => {
                args.t(if self.curved { "D" } else { "d" }).f(self.angle).p(self.uv);
                if self.curved {
                    args.f(self.tol);
                }
                pat.put(args);
            }
        }
        put_events(args, &self.evs);
    }

    fn is_dots(&self) -> bool {
        matches!(self.pat, Pattern::Dots { .. })
    }

    /// the call on `h` (a new Hatcher, or one that has served earlier calls); `None` = panic
    fn run(&self, h: &mut Hatcher) -> Option<Items> {
        let pe = events_via_path(&self.evs);
        match &self.pat {
            Pattern::Hatch { ct, offs } => {
                let items = RefCell::new(Vec::new());
                let ok = {
                    let mut log = HLog::new(&items, offs);
                    let mut opt = HatchingOptions::DEFAULT.with_tolerance(self.tol).with_angle(Angle::radians(self.angle)).with_tangents(*ct);
                    opt.uv_origin = self.uv;
                    vh::guarded(|| h.hatch_path(pe, &opt, &mut log)).is_some()
                };
                if ok {
                    Some(Items::H(items.into_inner()))
                } else {
                    None
                }
            }
            Pattern::Dots { pat } => {
                let items = RefCell::new(Vec::new());
                let ok = {
                    let mut log = DLog::new(&items, pat);
                    let mut opt = DotOptions::DEFAULT.with_tolerance(self.tol).with_angle(Angle::radians(self.angle));
                    opt.uv_origin = self.uv;
                    vh::guarded(|| h.dot_path(pe, &opt, &mut log)).is_some()
                };
                if ok {
                    Some(Items::D(items.into_inner()))
                } else {
                    None
                }
            }
        }
    }

    /// IMPL tokens + the property's oracle for this call's output (the same clauses whether the
    /// Hatcher was new or used: the property speaks about every call)
    fn report(&self, o: &mut Out, orc: &mut Oracle, res: &Option<Items>) {
        let site = if self.is_dots() { "dot_path" } else { "hatch_path" };
        match (res, &self.pat) {
            (None, _) => {
                o.t("panic");
                empty_check(orc, site, &self.evs, true, 0);
            }
            (Some(Items::H(items)), Pattern::Hatch { offs, .. }) => {
                put_hatch_items(o, items);
                empty_check(orc, site, &self.evs, false, items.len());
                let asum: f64 = (0..8).map(|k| (offs.at(k) as f64).abs()).fold(0.0, f64::max);
                let fr = frame(&self.evs, self.angle, self.uv, self.tol, asum);
                let exact = self.lattice && self.angle == 0.0 && !self.curved;
                hatch_oracle(orc, &fr, items, offs, well_formed(&self.evs), exact, "hatch");
            }
            (Some(Items::D(items)), Pattern::Dots { pat }) => {
                put_dot_items(o, items);
                empty_check(orc, site, &self.evs, false, items.len());
                let rows_off = if pat.regular { Offsets { regular: true, tab: vec![], tail: pat.ri } } else { pat.rows.clone() };
                let asum: f64 = (0..8).map(|k| (rows_off.at(k) as f64).abs()).fold(0.0, f64::max);
                let fr = frame(&self.evs, self.angle, self.uv, self.tol, asum);
                let rerun = || -> Vec<HS> {
                    // the hatch segments the dots were derived from (same options, tangents off), new Hatcher
                    run_hatch_fresh(&self.evs, self.angle, self.uv, false, self.tol, &rows_off)
                        .unwrap_or_default()
                        .into_iter()
                        .filter_map(|it| if let HItem::Seg(s) = it { Some(s) } else { None })
                        .collect()
                };
                dots_oracle(orc, &fr, items, pat, &rows_off, well_formed(&self.evs), &rerun);
            }
            _ => unreachable!(),
        }
    }
}

fn run_hatch_fresh(evs: &[Ev], angle: f32, uv: Point, ct: bool, tol: f32, offs: &Offsets) -> Option<Vec<HItem>> {
    let c = Call { evs: evs.to_vec(), shape: "", lattice: false, curved: false, angle, uv, tol, pat: Pattern::Hatch { ct, offs: offs.clone() }, forced_stop: false };
    match c.run(&mut Hatcher::new()) {
        Some(Items::H(v)) => Some(v),
        _ => None,
    }
}

/// the fixed earlier call of the `reused` cases: a triangle hatched completely at angle 0.7
fn prelude_call() -> Call {
    Call {
        evs: vec![Ev::B(point(1.0, 2.0)), Ev::L(point(9.0, 3.0)), Ev::L(point(4.0, 11.0)), Ev::E],
        shape: "prelude-triangle",
        lattice: false,
        curved: false,
        angle: 0.7,
        uv: point(0.0, 0.0),
        tol: HatchingOptions::DEFAULT_TOLERANCE,
        pat: Pattern::Hatch { ct: true, offs: Offsets { regular: true, tab: vec![], tail: 1.5 } },
        forced_stop: false,
    }
}

/// make the row pattern return a non-positive offset at some row ≥ 1 (the documented-by-code way
/// for a pattern to end a hatching early): regular patterns get a non-positive interval, table
/// patterns a non-positive entry at a random row
fn stop_early(rng: &mut Rng, mut offs: Offsets) -> Offsets {
    let base = if offs.tail > 0.0 { offs.tail } else { 1.0 };
    let np = |rng: &mut Rng| *rng.pick(&[0.0f32, -0.0, -1.0, 0.0]) * if rng.chance(1, 2) { 1.0 } else { base };
    if offs.regular && rng.chance(1, 2) {
        offs.tail = np(rng);
        return offs;
    }
    let r = rng.range(1, 10) as usize;
    if offs.regular {
        offs.regular = false;
        offs.tab = vec![base; r + 1];
    }
    while offs.tab.len() <= r {
        offs.tab.push(base);
    }
    offs.tab[r] = np(rng);
    offs
}

/// an earlier call of a Hatcher's history: either entry point, any shape (also curved, also a path
/// without edges), any options; half of them are ended early by their pattern
fn gen_hist_call(rng: &mut Rng) -> Call {
    let dots = rng.chance(1, 2);
    let mut curved = rng.chance(1, 8);
    let mut sh = if curved { gen_curved(rng) } else { gen_shape(rng) };
    if rng.chance(1, 10) {
        sh = Shape { evs: vec![], kind: "trivial-no-edges", lattice: true };
        curved = false;
    }
    let angle = gen_angle(rng);
    let uv = gen_uv(rng, &sh);
    let tol: f32 = if curved { 10f64.powf(rng.uniform(-2.0, 0.0)) as f32 * (extent(&sh.evs) as f32 / 50.0).max(1e-3) } else { 0.1 };
    let forced_stop = rng.chance(1, 2);
    let pat = if dots {
        let mut rows = gen_offsets(rng, &sh, 24.0);
        if forced_stop {
            rows = stop_early(rng, rows);
        }
        Pattern::Dots { pat: gen_dot_pat_rows(rng, &sh, rows) }
    } else {
        let ct = rng.chance(1, 2);
        let mut offs = gen_offsets(rng, &sh, 40.0);
        if forced_stop {
            offs = stop_early(rng, offs);
        }
        Pattern::Hatch { ct, offs }
    };
    Call { evs: sh.evs, shape: sh.kind, lattice: sh.lattice, curved, angle, uv, tol, pat, forced_stop }
}

/// the calls the case's Hatcher has served before the case's own call (drawn after all draws of
/// the case's own input, so that a case id keeps its input)
fn gen_history(rng: &mut Rng, prelude: bool) -> Vec<Call> {
    let mut hist = Vec::new();
    if prelude {
        hist.push(prelude_call());
    }
    if rng.chance(2, 5) {
        let n = rng.range(1, 3);
        for _ in 0..n {
            hist.push(gen_hist_call(rng));
        }
    }
    hist
}

fn put_history(args: &mut Out, hist: &[Call]) {
    if hist.is_empty() {
        return;
    }
    args.t("HIST").u(hist.len() as u64);
    for c in hist {
        c.put(args);
    }
}

fn history_tag(hist: &[Call]) -> String {
    if hist.is_empty() {
        return String::new();
    }
    let kinds: Vec<String> = hist
        .iter()
        .map(|c| format!("{}{}{}", if c.is_dots() { "d" } else { "h" }, if c.forced_stop { "!" } else { "" }, if no_edges(&c.evs) { "0" } else { "" }))
        .collect();
    format!(" used hist={} after={}", hist.len(), kinds.join(","))
}

/// run the history and then the case's call on ONE Hatcher; IMPL = the trace of every call, the
/// oracle judges every call (a failure names the position of the call in the history)
fn run_on_one_hatcher(hist: &[Call], main: &Call) -> CaseOut {
    let mut o = Out::new();
    let mut orc = Oracle::new();
    let mut h = Hatcher::new();
    if !hist.is_empty() {
        o.t("hist").u(hist.len() as u64);
    }
    let n = hist.len() + 1;
    for (i, c) in hist.iter().chain(std::iter::once(main)).enumerate() {
        let res = c.run(&mut h);
        let mut sub = Oracle::new();
        c.report(&mut o, &mut sub, &res);
        match sub.verdict {
            vh::Verdict::Fail { clause, class, detail } => {
                let served: Vec<&str> = hist[..i.min(hist.len())].iter().map(|c| if c.is_dots() { "dot_path" } else { "hatch_path" }).collect();
                orc.check(false, &clause, &class, || {
                    if n == 1 {
                        detail
                    } else {
                        format!("[call {} of {} on one Hatcher, after {:?}] {}", i + 1, n, served, detail)
                    }
                });
            }
            vh::Verdict::Skip(w) => orc.skip(&w),
            vh::Verdict::Ok => {}
        }
        if res.is_none() {
            // the model has no state for a Hatcher that unwound in the middle of a call
            break;
        }
    }
    CaseOut { imp: o, orcl: orc.verdict }
}

fn put_hatch_items(o: &mut Out, items: &[HItem]) {
    for it in items {
        match it {
            HItem::Off(r) => {
                o.t("o").u(*r as u64);
            }
            HItem::Seg(s) => {
                o.t("s").u(s.row as u64).f(s.v).p(s.ap).f(s.au).v(s.at).p(s.bp).f(s.bu).v(s.bt);
            }
        }
    }
    o.t("end");
}

fn put_dot_items(o: &mut Out, items: &[DItem]) {
    for it in items {
        match it {
            DItem::RowOff(c, r) => {
                o.t("r").u(*c as u64).u(*r as u64);
            }
            DItem::Dot(d) => {
                o.t("d").u(d.col as u64).u(d.row as u64).p(d.pos).f(d.u).f(d.v);
            }
        }
    }
    o.t("end");
}

fn gen_uv(rng: &mut Rng, sh: &Shape) -> Point {
    if rng.chance(1, 2) {
        point(0.0, 0.0)
    } else if sh.lattice {
        point(lat(rng), lat(rng))
    } else {
        let e = extent(&sh.evs);
        point((rng.uniform(-1.0, 1.0) * e) as f32, (rng.uniform(-1.0, 1.0) * e) as f32)
    }
}

fn empty_check(orc: &mut Oracle, site: &str, evs: &[Ev], panicked: bool, n_out: usize) {
    let class = if no_edges(evs) { "empty-path-unwrap" } else { "generic" };
    orc.check(!panicked, &format!("{}/no-panic", site), class, || "hatcher panicked".to_string());
    if !panicked && no_edges(evs) {
        orc.check(n_out == 0, &format!("{}/empty-no-output", site), "generic", || format!("{} callbacks on a path without edges", n_out));
    }
}

fn hatch_case(ctx: &mut Ctx, curved: bool) {
    let fam = if curved { "curves:32" } else { "hatch:32" };
    ctx.case(fam, |rng| {
        let sh = if curved { gen_curved(rng) } else { gen_shape(rng) };
        let angle = gen_angle(rng);
        let uv = gen_uv(rng, &sh);
        let ct = rng.chance(1, 2);
        let offs = gen_offsets(rng, &sh, 40.0);
        let tol: f32 = if curved { 10f64.powf(rng.uniform(-2.0, 0.0)) as f32 * (extent(&sh.evs) as f32 / 50.0).max(1e-3) } else { 0.1 };
        let reuse = rng.chance(1, 4);
        // the object's history: everything above is the case's own input (unchanged per case id)
        let hist = gen_history(rng, reuse);
        let tag = format!(
            "{} {} angle={} {} {}{}",
            if curved { "curves" } else { "hatch" },
            sh.kind,
            if angle == 0.0 { "0" } else { "rot" },
            if offs.regular { "regular" } else { "table" },
            if ct { "tangents" } else { "notangents" },
            history_tag(&hist)
        );
        let main = Call { evs: sh.evs, shape: sh.kind, lattice: sh.lattice, curved, angle, uv, tol, pat: Pattern::Hatch { ct, offs }, forced_stop: false };
        let mut args = Out::new();
        main.put(&mut args);
        put_history(&mut args, &hist);
        (args, tag, move || run_on_one_hatcher(&hist, &main))
    });
}

fn gen_dot_pat(rng: &mut Rng, sh: &Shape) -> DotPat {
    let rows = gen_offsets(rng, sh, 24.0);
    gen_dot_pat_rows(rng, sh, rows)
}

fn gen_dot_pat_rows(rng: &mut Rng, sh: &Shape, rows: Offsets) -> DotPat {
    let base = rows.tail.abs().max(if sh.lattice { 0.25 } else { 1e-3 * extent(&sh.evs) as f32 });
    let c = |rng: &mut Rng| if sh.lattice { base * rng.range(1, 6) as f32 * 0.5 } else { base * rng.uniform(0.4, 3.0) as f32 };
    if rows.regular {
        return DotPat { regular: true, ci: c(rng), ri: rows.tail, first: 0.0, align: None, rows, cols: vec![] };
    }
    let n = rng.range(1, 4) as usize;
    let mut cols: Vec<f32> = (0..n).map(|_| c(rng)).collect();
    if rng.chance(1, 8) {
        let i = rng.below(n as u64) as usize;
        cols[i] = *rng.pick(&[0.0f32, -1.0]);
    }
    let first = if rng.chance(1, 2) { 0.0 } else { c(rng) * 0.5 };
    let align = if rng.chance(1, 2) { Some(c(rng)) } else { None };
    DotPat { regular: false, ci: 0.0, ri: 0.0, first, align, rows, cols }
}

fn dots_case(ctx: &mut Ctx, curved: bool) {
    let fam = if curved { "curves:32" } else { "dots:32" };
    ctx.case(fam, |rng| {
        let sh = if curved { gen_curved(rng) } else { gen_shape(rng) };
        let angle = gen_angle(rng);
        let uv = gen_uv(rng, &sh);
        let pat = gen_dot_pat(rng, &sh);
        let tol: f32 = if curved { 10f64.powf(rng.uniform(-2.0, 0.0)) as f32 * (extent(&sh.evs) as f32 / 50.0).max(1e-3) } else { 0.1 };
        // the object's history: everything above is the case's own input (unchanged per case id)
        let hist = gen_history(rng, false);
        let tag = format!(
            "{} {} angle={} {}{}",
            if curved { "curves-dots" } else { "dots" },
            sh.kind,
            if angle == 0.0 { "0" } else { "rot" },
            if pat.regular { "regular" } else { "table" },
            history_tag(&hist)
        );
        let main = Call { evs: sh.evs, shape: sh.kind, lattice: sh.lattice, curved, angle, uv, tol, pat: Pattern::Dots { pat }, forced_stop: false };
        let mut args = Out::new();
        main.put(&mut args);
        put_history(&mut args, &hist);
        (args, tag, move || run_on_one_hatcher(&hist, &main))
    });
}

fn dots_oracle(orc: &mut Oracle, fr: &Frame, items: &[DItem], pat: &DotPat, rows: &Offsets, wf: bool, segs: &dyn Fn() -> Vec<HS>) {
    // row calls: rows 0,1,2,…; the column passed is the number of dots of the row just finished
    let mut expect = 0u32;
    let mut ndots_in_row = 0u32;
    let mut stopped = false;
    for it in items {
        match it {
            DItem::RowOff(c, r) => {
                orc.check(!stopped && *r == expect, "dots/row-calls", "generic", || format!("next_row_offset(_, {}) where row {} was due (stopped={})", r, expect, stopped));
                orc.check(*c == ndots_in_row, "dots/row-calls", "generic", || format!("next_row_offset({}, {}) after {} dots in the row", c, r, ndots_in_row));
                if *r >= 1 && rows.at(*r) <= 0.0 {
                    stopped = true;
                }
                expect = r + 1;
                ndots_in_row = 0;
            }
            DItem::Dot(d) => {
                orc.check(!stopped, "dots/row-calls", "generic", || "dot after a non-positive row offset".to_string());
                orc.check(d.col == ndots_in_row && d.row + 1 == expect, "dots/row-calls", "generic", || {
                    format!("dot column {} row {} where column {} row {} was due", d.col, d.row, ndots_in_row, expect as i64 - 1)
                });
                ndots_in_row += 1;
            }
        }
    }
    if !wf || fr.edges.is_empty() {
        return;
    }
    let ncalls = expect as usize;
    let mut ys: Vec<f64> = Vec::new();
    let mut y = fr.ymin;
    let mut asum = 0.0;
    for k in 0..ncalls {
        y += rows.at(k as u32) as f64;
        asum += (rows.at(k as u32) as f64).abs();
        ys.push(y);
    }
    if ys.iter().any(|y| !y.is_finite()) {
        return;
    }
    let (sa, ca) = fr.angle.sin_cos();
    let mut anchor: Option<(usize, f64)> = None;
    for it in items {
        if let DItem::Dot(d) = it {
            let k = d.row as usize;
            if k >= ncalls {
                continue;
            }
            let (x, y) = (d.pos.x as f64, d.pos.y as f64);
            if !(x.is_finite() && y.is_finite()) && d.u.is_finite() && d.v.is_finite() {
                // witness class of the known finding: the dot comes from a hatch segment whose two
                // ends round to the same world position although a.u < b.u; `normalize()` of the
                // zero vector is NaN
                let degenerate = segs().iter().any(|s| s.row == d.row && s.ap == s.bp && s.au < s.bu && s.au <= d.u && d.u < s.bu);
                let class = if degenerate { "zero-length-segment-normalize" } else { "generic" };
                orc.check(false, "dots/position-finite", class, || format!("dot row {} col {} u={} v={} has position ({},{})", d.row, d.col, d.u, d.v, x, y));
                continue;
            }
            // a dot sits `u - a.u` along the segment from its left end: rounding grows with that length
            let tol = 4.0 * EPS32 * (fr.scale + asum + (d.u as f64).abs()) * (k as f64 + 6.0);
            let yrow = d.v as f64 + fr.uvo.1;
            orc.check((yrow - ys[k]).abs() <= tol + fr.flat, "dots/on-row", "generic", || format!("dot row {} reported at y'={} expected {}", k, yrow, ys[k]));
            let (k0, y0) = *anchor.get_or_insert((k, yrow));
            orc.check(((yrow - y0) - (ys[k] - ys[k0])).abs() <= tol, "dots/row-spacing", "generic", || {
                format!("dot rows {} and {} are {} apart, the offsets returned sum to {}", k0, k, yrow - y0, ys[k] - ys[k0])
            });
            let e = (sa * x + ca * y - yrow).abs();
            orc.check(e <= tol, "dots/on-row", "generic", || format!("dot ({},{}) is {:e} off its row line (tol {:e})", x, y, e, tol));
            let e = (ca * x - sa * y - (d.u as f64 + fr.uvo.0)).abs();
            orc.check(e <= tol, "dots/on-row", "generic", || format!("dot ({},{}) u={} inconsistent by {:e} (tol {:e})", x, y, d.u, e, tol));
            if dist_boundary(&fr.edges, (x, y)) > fr.allowance + tol {
                orc.check(inside64(&fr.edges, (x, y)), "dots/inside", "generic", || format!("dot ({},{}) row {} col {} is outside the shape", x, y, d.row, d.col));
            }
            if pat.regular && pat.ci > 0.0 {
                // RegularDotPattern aligns the dots of all rows on multiples of column_interval
                let ci = pat.ci as f64;
                let m = (d.u as f64).rem_euclid(ci);
                let e = m.min(ci - m);
                let atol = 4.0 * EPS32 * ((d.u as f64).abs() + ci) * (d.col as f64 + 4.0);
                orc.check(e <= atol, "dots/aligned", "generic", || format!("dot u={} is {:e} away from a multiple of column_interval {}", d.u, e, ci));
            }
        }
    }
}

// ---------------------------------------------------------------------------------------------
// observation: the row loop has no progress guard

/// a `HatchBuilder` that gives a constant offset and bails out (by unwinding) after `cap` rows
struct Capped {
    interval: f32,
    calls: u32,
    cap: u32,
    segs: u32,
}

impl HatchBuilder for Capped {
    fn add_segment(&mut self, _s: &HatchSegment) {
        self.segs += 1;
    }
    fn next_offset(&mut self, _row: u32) -> f32 {
        self.calls += 1;
        if self.calls > self.cap {
            std::panic::panic_any(Stalled(self.calls, self.segs));
        }
        self.interval
    }
}

struct Stalled(u32, u32);

/// `while y < … { hatch_line(y); y += offset; if offset <= 0 { return } }`: when `offset` is below
/// half an ulp of `y` the sum rounds back to `y` and the loop never ends (each turn emits the same
/// row again).  Needs |y| / offset ≥ 2^24: not a moderate input; recorded as an observation
/// (`ORCL skip stalled-row-loop`), not as a violation — the property's only termination-like clause
/// is about the empty path.  The square [b, b+64]² with interval 1 should give 63 rows.
fn stall_case(ctx: &mut Ctx, k: u32) {
    ctx.case("stall:32", move |_rng| {
        let base = (1u64 << k) as f32;
        let mut args = Out::new();
        args.t("S").f(base).f(1.0f32);
        let tag = format!("stall base=2^{} {}", k, if k >= 24 { "interval<=ulp/2" } else { "control" });
        (args, tag, move || {
            let mut p = Path::builder();
            p.begin(point(base, base));
            p.line_to(point(base + 64.0, base));
            p.line_to(point(base + 64.0, base + 64.0));
            p.line_to(point(base, base + 64.0));
            p.end(true);
            let path = p.build();
            let mut o = Out::new();
            let mut orc = Oracle::new();
            let r = std::panic::catch_unwind(std::panic::AssertUnwindSafe(|| {
                let mut b = Capped { interval: 1.0, calls: 0, cap: 5000, segs: 0 };
                Hatcher::new().hatch_path(path.iter(), &HatchingOptions::DEFAULT, &mut b);
                (b.calls, b.segs)
            }));
            match r {
                Ok((calls, segs)) => {
                    o.t("finished").u(calls as u64).u(segs as u64);
                    orc.check(k >= 24 || (calls == 64 && segs == 63), "hatch/row-spacing", "generic", || {
                        format!("square of height 64 at 2^{} with interval 1: {} offset calls, {} segments (64 / 63 expected)", k, calls, segs)
                    });
                }
                Err(e) => match e.downcast_ref::<Stalled>() {
                    Some(Stalled(calls, segs)) => {
                        o.t("stalled").u(*calls as u64).u(*segs as u64);
                        if k >= 24 {
                            orc.skip("stalled-row-loop y+offset==y: the row loop does not advance (offset <= ulp(y)/2); cut off by the harness after 5000 rows");
                        } else {
                            orc.check(false, "hatch/row-loop-progress", "generic", || format!("row loop stalled at moderate magnitude 2^{} with interval 1", k));
                        }
                    }
                    None => {
                        o.t("panic");
                        orc.check(false, "hatch_path/no-panic", "generic", || "hatcher panicked".to_string());
                    }
                },
            }
            CaseOut { imp: o, orcl: orc.verdict }
        })
    });
}

fn main() {
    let mut ctx = Ctx::from_args("C20");
    let n = ctx.n(4000, 150000);
    for i in 0..n {
        hatch_case(&mut ctx, false);
        hatch_case(&mut ctx, false);
        dots_case(&mut ctx, false);
        if i % 2 == 0 {
            hatch_case(&mut ctx, true);
        } else {
            dots_case(&mut ctx, true);
        }
    }
    // fixed tail (after the generated cases, so that their ids do not move)
    for k in [10u32, 16, 20, 22, 23, 24, 25, 27, 30] {
        stall_case(&mut ctx, k);
    }
    ctx.finish();
}
