//! C03 — curved paths and built-in shapes are filled to within the requested tolerance.
//!
//! * `shape:32`   `fill_rectangle` / `fill_circle` (via `tessellate_rectangle/_circle`): vertex and
//!                index buffers compared exactly with the Lean model of basic_shapes.rs; oracle:
//!                analytic — every circle vertex on the circle, sagitta of every boundary chord
//!                ≤ tolerance, triangle/vertex counts, rectangle = its two triangles.
//! * `helpers:32` the shape helpers of the path builders (`PathBuilder::{add_rectangle, add_circle,
//!                add_ellipse, add_rounded_rectangle, add_polygon}`) driven on a recording builder:
//!                the recorded calls are compared exactly with the Lean model (Model/Path/Shapes.lean);
//!                `FillBuilder::add_circle` (own routine, not recordable): the modelled calls, replayed
//!                through the FillBuilder, must give bit-for-bit the mesh of the real routine.
//! * `chk_curve`  curved paths, shape helpers of the path builder / `tessellate_ellipse`, and pairs
//!                of sub-paths sharing a curved edge: the real fill output is handed to the Lean
//!                slab checker together with an independent fine flattening of the EXACT boundary
//!                (certified deviation ε_ref), band = tolerance + ε_ref + Bézier-arc allowance (the proved
//!                deviations of the helpers' Béziers: `ALLOW_*`); a last block of cases has large
//!                radius / tolerance (circles, near-circular ellipses), where that allowance decides.

use lyon_path::builder::{BorderRadii, PathBuilder};
use lyon_path::polygon::Polygon;
use lyon_path::{Attributes, EndpointId, NO_ATTRIBUTES};
use lyon_path::geom::{Arc, CubicBezierSegment, QuadraticBezierSegment};
use lyon_path::math::{point, vector, Angle, Box2D, Point, Vector};
use lyon_path::traits::{Build, SvgPathBuilder};
use lyon_path::{ArcFlags, Path, PathEvent, Winding};
use lyon_tessellation::geometry_builder::{BuffersBuilder, Positions};
use lyon_tessellation::{FillOptions, FillRule, FillTessellator};
use vh::fillgen::{put_edges, put_tris, History, Mesh};
use vh::{CaseOut, Ctx, Oracle, Out, Rng};

// Bézier-arc allowances of the `chk_curve` band, as fractions of the (larger / corner) radius.  The
// shape helpers replace arcs by Béziers BEFORE anything is flattened; how far those Béziers are from
// the exact shape is PROVED in Lean (exact arithmetic, every input), and the band uses the proved
// constants (an allowance below the true deviation is a false alarm for large radius / tolerance:
// the former 3e-3 for quadratic arcs was below their true maximum 3.14e-3):
/// one cubic per quarter circle, constant 0.55191505 (`add_circle`, corners of `add_rounded_rectangle`):
/// `Lyon.C03d.add_circle_radial_error`, `Lyon.C03d.rounded_rect_outline` (±2·10⁻⁴·r; true max 1.96·10⁻⁴)
const ALLOW_CUBIC_QUARTER: f64 = 2e-4;
/// quadratic arc pieces of at most 45° (`add_ellipse`, `tessellate_ellipse`, SVG `arc_to`: all through
/// `Arc::for_each_quadratic_bezier`; `FillBuilder::add_circle`): `Lyon.C13.arc_quads_near_ellipse_real`,
/// `Lyon.C03e.add_ellipse_radial_error_real`, `Lyon.C03d.fill_add_circle_radial_error` (≤ 3.2·10⁻³·r
/// outside; true max 3.14·10⁻³)
const ALLOW_QUAD_ARC: f64 = 3.2e-3;
/// cubic arc pieces of at most 90° (`Arc::for_each_cubic_bezier`; no builder driven here uses them):
/// `Lyon.C13.arc_cubics_near_ellipse_real` (≤ 2.0·10⁻³·r inside)
#[allow(dead_code)]
const ALLOW_CUBIC_ARC: f64 = 2.0e-3;

fn shape_case(ctx: &mut Ctx) {
    ctx.case("shape:32", |rng| {
        let circle = rng.chance(2, 3);
        let lattice = rng.chance(1, 3);
        let c = if lattice { point(rng.range(-8, 8) as f32, rng.range(-8, 8) as f32) } else { point(rng.uniform(-50.0, 50.0) as f32, rng.uniform(-50.0, 50.0) as f32) };
        let r = match rng.below(8) {
            0 => 0.0,
            1 => -(rng.uniform(0.1, 10.0) as f32),
            2 => rng.log_uniform(-2.0, 3.0).abs() as f32,
            _ => {
                if lattice {
                    rng.range(1, 16) as f32
                } else {
                    rng.uniform(0.1, 200.0) as f32
                }
            }
        };
        let tol = *rng.pick(&[0.001f32, 0.01, 0.05, 0.1, 0.25, 1.0, 10.0]);
        let mx = point(c.x + rng.uniform(0.0, 20.0) as f32, c.y + rng.uniform(0.0, 20.0) as f32);
        let mut args = Out::new();
        args.t(if circle { "circle" } else { "rect" }).p(c).f(r).f(tol).p(mx);
        let tag = format!("shape {} r/tol={:.0e}", if circle { "circle" } else { "rect" }, if tol > 0.0 { (r.abs() / tol) as f64 } else { 0.0 });
        (args, tag, move || {
            let mut tess = FillTessellator::new();
            let mut mesh = Mesh::new();
            let opts = FillOptions::tolerance(tol);
            let res = {
                let mut bb = BuffersBuilder::new(&mut mesh, Positions);
                if circle {
                    tess.tessellate_circle(c, r, &opts, &mut bb)
                } else {
                    tess.tessellate_rectangle(&Box2D { min: c, max: mx }, &opts, &mut bb)
                }
            };
            let mut o = Out::new();
            let mut orc = Oracle::new();
            if res.is_err() {
                o.t("err");
                orc.check(false, "shape/no-error", "generic", || format!("{:?}", res));
                return CaseOut { imp: o, orcl: orc.verdict };
            }
            o.t("v").u(mesh.vertices.len() as u64);
            for p in &mesh.vertices {
                o.p(*p);
            }
            o.t("t").u((mesh.indices.len() / 3) as u64);
            for i in &mesh.indices {
                o.u(*i as u64);
            }
            let nv = mesh.vertices.len();
            for t in mesh.indices.chunks(3) {
                orc.check(t[0] != t[1] && t[1] != t[2] && t[0] != t[2] && t.iter().all(|&i| (i as usize) < nv), "shape/indices", "generic", || format!("{:?}", t));
            }
            if circle {
                let rr = r.abs() as f64;
                if rr == 0.0 {
                    orc.check(mesh.vertices.is_empty() && mesh.indices.is_empty(), "circle/zero-radius-empty", "generic", || "output for zero radius".into());
                } else {
                    // all vertices on the circle
                    let mut ang: Vec<f64> = Vec::new();
                    for p in &mesh.vertices {
                        let (dx, dy) = (p.x as f64 - c.x as f64, p.y as f64 - c.y as f64);
                        let d = (dx * dx + dy * dy).sqrt();
                        let slack = 4e-7 * (rr + c.x.abs() as f64 + c.y.abs() as f64) + 1e-6 * rr;
                        orc.check((d - rr).abs() <= slack, "circle/vertex-on-circle", "generic", || format!("|p-c|={} r={}", d, rr));
                        ang.push(dy.atan2(dx));
                    }
                    ang.sort_by(|a, b| a.partial_cmp(b).unwrap());
                    // sagitta of the largest gap between angularly consecutive vertices
                    let n = ang.len();
                    let mut maxgap = 0.0f64;
                    for i in 0..n {
                        let g = if i + 1 < n { ang[i + 1] - ang[i] } else { ang[0] + std::f64::consts::TAU - ang[n - 1] };
                        maxgap = maxgap.max(g);
                    }
                    let sag = rr * (1.0 - (maxgap * 0.5).cos());
                    let t = (tol as f64).min(rr);
                    let class = if sag > t * 1.02 + 1e-6 * rr && sag <= 4.2 * t { "log2-truncation" } else { "generic" };
                    orc.check(sag <= t * 1.02 + 1e-6 * rr, "circle/sagitta-within-tolerance", class, || {
                        format!("r={} tol={} vertices={} sagitta={} ({}x tol)", rr, tol, n, sag, sag / t)
                    });
                    // triangle count: a fan-free triangulation of a convex n-gon
                    orc.check(mesh.indices.len() / 3 == n - 2, "circle/triangle-count", "generic", || format!("{} triangles for {} vertices", mesh.indices.len() / 3, n));
                    // triangle areas add up to the inscribed polygon's area (no overlap, no gap)
                    let mut ta = 0.0f64;
                    for t3 in mesh.indices.chunks(3) {
                        let (a, b, cc) = (mesh.vertices[t3[0] as usize], mesh.vertices[t3[1] as usize], mesh.vertices[t3[2] as usize]);
                        ta += 0.5 * ((b.x as f64 - a.x as f64) * (cc.y as f64 - a.y as f64) - (b.y as f64 - a.y as f64) * (cc.x as f64 - a.x as f64)).abs();
                    }
                    let mut pa = 0.0f64;
                    for i in 0..n {
                        let (a0, a1) = (ang[i], if i + 1 < n { ang[i + 1] } else { ang[0] + std::f64::consts::TAU });
                        pa += 0.5 * rr * rr * (a1 - a0).sin();
                    }
                    orc.check((ta - pa).abs() <= 1e-3 * pa + 4e-6 * (rr + c.x.abs() as f64 + c.y.abs() as f64) * rr + 1e-12, "circle/area-tiling", "generic", || format!("triangles {} polygon {}", ta, pa));
                }
            } else {
                let area = (mx.x as f64 - c.x as f64) * (mx.y as f64 - c.y as f64);
                let mut ta = 0.0f64;
                for t3 in mesh.indices.chunks(3) {
                    let (a, b, cc) = (mesh.vertices[t3[0] as usize], mesh.vertices[t3[1] as usize], mesh.vertices[t3[2] as usize]);
                    ta += 0.5 * ((b.x as f64 - a.x as f64) * (cc.y as f64 - a.y as f64) - (b.y as f64 - a.y as f64) * (cc.x as f64 - a.x as f64)).abs();
                }
                orc.check((ta - area).abs() <= 1e-6 * (1.0 + area), "rect/area", "generic", || format!("triangles {} box {}", ta, area));
                orc.check(mesh.vertices.len() == 4 && mesh.indices.len() == 6, "rect/counts", "generic", || "expected 4 vertices, 2 triangles".into());
                for p in &mesh.vertices {
                    orc.check((p.x == c.x || p.x == mx.x) && (p.y == c.y || p.y == mx.y), "rect/corners", "generic", || format!("{:?}", p));
                }
            }
            CaseOut { imp: o, orcl: orc.verdict }
        })
    });
}

/// Independent reference flattening of a path with certified deviation: returns edges + ε_ref.
fn reference_edges(path: &Path, eps_target: f64) -> (Vec<(Point, Point)>, f64) {
    let mut v = Vec::new();
    let mut eps = 0.0f64;
    for e in path.iter() {
        match e {
            PathEvent::Line { from, to } => v.push((from, to)),
            PathEvent::End { last, first, .. } => v.push((last, first)),
            PathEvent::Quadratic { from, ctrl, to } => {
                let c = QuadraticBezierSegment { from, ctrl, to };
                // chord deviation of a quadratic on a parameter step Δ is exactly Δ²/4·|P0−2P1+P2|
                let dd = ((from.x as f64 - 2.0 * ctrl.x as f64 + to.x as f64).powi(2) + (from.y as f64 - 2.0 * ctrl.y as f64 + to.y as f64).powi(2)).sqrt();
                let n = ((dd / (4.0 * eps_target)).sqrt().ceil() as usize).clamp(1, 64);
                eps = eps.max(dd / (4.0 * (n * n) as f64));
                let mut p = from;
                for i in 1..=n {
                    let q = if i == n { to } else { c.sample(i as f32 / n as f32) };
                    v.push((p, q));
                    p = q;
                }
            }
            PathEvent::Cubic { from, ctrl1, ctrl2, to } => {
                let c = CubicBezierSegment { from, ctrl1, ctrl2, to };
                // |C''| ≤ 6·max(|P0−2P1+P2|, |P1−2P2+P3|); chord deviation ≤ Δ²/8·max|C''|
                let d1 = ((from.x as f64 - 2.0 * ctrl1.x as f64 + ctrl2.x as f64).powi(2) + (from.y as f64 - 2.0 * ctrl1.y as f64 + ctrl2.y as f64).powi(2)).sqrt();
                let d2 = ((ctrl1.x as f64 - 2.0 * ctrl2.x as f64 + to.x as f64).powi(2) + (ctrl1.y as f64 - 2.0 * ctrl2.y as f64 + to.y as f64).powi(2)).sqrt();
                let m = 6.0 * d1.max(d2);
                let n = ((m / (8.0 * eps_target)).sqrt().ceil() as usize).clamp(1, 64);
                eps = eps.max(m / (8.0 * (n * n) as f64));
                let mut p = from;
                for i in 1..=n {
                    let q = if i == n { to } else { c.sample(i as f32 / n as f32) };
                    v.push((p, q));
                    p = q;
                }
            }
            _ => {}
        }
    }
    // sampling in f32 adds rounding
    let sc = v.iter().fold(1.0f64, |m, (a, _)| m.max(a.x.abs() as f64).max(a.y.abs() as f64));
    (v, eps + 2e-6 * sc)
}

/// exact ellipse boundary as a polygon with certified deviation
fn ellipse_edges(c: Point, radii: Vector, rot: f32, ccw: bool, eps_target: f64) -> (Vec<(Point, Point)>, f64) {
    let rmax = radii.x.abs().max(radii.y.abs()) as f64;
    let n = ((std::f64::consts::PI / (1.0 - (eps_target / rmax).min(0.5)).acos()).ceil() as usize).clamp(8, 160);
    let eps = rmax * (1.0 - (std::f64::consts::PI / n as f64).cos());
    let (s, co) = (rot as f64).sin_cos();
    let pts: Vec<Point> = (0..n)
        .map(|i| {
            let a = (if ccw { 1.0 } else { -1.0 }) * std::f64::consts::TAU * i as f64 / n as f64;
            let (ex, ey) = (radii.x as f64 * a.cos(), radii.y as f64 * a.sin());
            point((c.x as f64 + ex * co - ey * s) as f32, (c.y as f64 + ey * co + ex * s) as f32)
        })
        .collect();
    let mut v = Vec::new();
    for i in 0..n {
        v.push((pts[i], pts[(i + 1) % n]));
    }
    (v, eps + 2e-6 * (rmax + c.x.abs() as f64 + c.y.abs() as f64))
}

/// One SVG elliptical-arc command in endpoint form.
#[derive(Clone, Copy, Debug)]
struct SvgArcCmd {
    radii: Vector,
    rot: f32,
    large: bool,
    sweep: bool,
    to: Point,
}

/// SVG implementation notes F.6.5 (endpoint → centre parametrisation) with the out-of-range
/// correction of F.6.6 (|r|, scale-up by sqrt(Λ)), evaluated in f64 independently of lyon.
/// Returns (cx, cy, rx, ry, θ1, Δθ).
fn svg_centre_param(p0: Point, a: &SvgArcCmd) -> (f64, f64, f64, f64, f64, f64) {
    let (x1, y1, x2, y2) = (p0.x as f64, p0.y as f64, a.to.x as f64, a.to.y as f64);
    let phi = a.rot as f64;
    let (sp, cp) = phi.sin_cos();
    // F.6.5.1
    let (dx, dy) = ((x1 - x2) / 2.0, (y1 - y2) / 2.0);
    let x1p = cp * dx + sp * dy;
    let y1p = -sp * dx + cp * dy;
    // F.6.6.1 / F.6.6.2 / F.6.6.3
    let mut rx = (a.radii.x as f64).abs();
    let mut ry = (a.radii.y as f64).abs();
    let lambda = x1p * x1p / (rx * rx) + y1p * y1p / (ry * ry);
    if lambda > 1.0 {
        let s = lambda.sqrt();
        rx *= s;
        ry *= s;
    }
    // F.6.5.2
    let num = rx * rx * ry * ry - rx * rx * y1p * y1p - ry * ry * x1p * x1p;
    let den = rx * rx * y1p * y1p + ry * ry * x1p * x1p;
    let mut coef = (num / den).max(0.0).sqrt();
    if a.large == a.sweep {
        coef = -coef;
    }
    let cxp = coef * rx * y1p / ry;
    let cyp = -coef * ry * x1p / rx;
    // F.6.5.3
    let cx = cp * cxp - sp * cyp + (x1 + x2) / 2.0;
    let cy = sp * cxp + cp * cyp + (y1 + y2) / 2.0;
    // F.6.5.5 / F.6.5.6
    let (ux, uy) = ((x1p - cxp) / rx, (y1p - cyp) / ry);
    let (vx, vy) = ((-x1p - cxp) / rx, (-y1p - cyp) / ry);
    let theta1 = uy.atan2(ux);
    let mut dtheta = (ux * vy - uy * vx).atan2(ux * vx + uy * vy);
    if !a.sweep && dtheta > 0.0 {
        dtheta -= std::f64::consts::TAU;
    } else if a.sweep && dtheta < 0.0 {
        dtheta += std::f64::consts::TAU;
    }
    (cx, cy, rx, ry, theta1, dtheta)
}

/// The exact elliptical arc p0 → a.to as a polyline (first point p0, last point a.to) with
/// certified deviation; also returns the larger (scaled-up) radius and Λ.
fn svg_arc_points(p0: Point, a: &SvgArcCmd, eps_target: f64) -> (Vec<Point>, f64, f64) {
    let (cx, cy, rx, ry, th1, dth) = svg_centre_param(p0, a);
    let rmax = rx.max(ry);
    let half = (1.0 - (eps_target / rmax).min(0.5)).acos();
    let n = ((dth.abs() / (2.0 * half)).ceil() as usize).clamp(2, 200);
    let eps = rmax * (1.0 - (dth.abs() / (2.0 * n as f64)).cos());
    let (sp, cp) = (a.rot as f64).sin_cos();
    let mut pts = vec![p0];
    for i in 1..n {
        let t = th1 + dth * i as f64 / n as f64;
        let (ex, ey) = (rx * t.cos(), ry * t.sin());
        pts.push(point((cx + cp * ex - sp * ey) as f32, (cy + sp * ex + cp * ey) as f32));
    }
    pts.push(a.to);
    (pts, eps, rmax)
}

/// half chord in the ellipse frame → Λ of F.6.6.2 (for generating radii with a chosen Λ)
fn svg_lambda(p0: Point, to: Point, radii: Vector, rot: f32) -> f64 {
    let (sp, cp) = (rot as f64).sin_cos();
    let (dx, dy) = ((p0.x as f64 - to.x as f64) / 2.0, (p0.y as f64 - to.y as f64) / 2.0);
    let (x1p, y1p) = (cp * dx + sp * dy, -sp * dx + cp * dy);
    x1p * x1p / (radii.x as f64).powi(2) + y1p * y1p / (radii.y as f64).powi(2)
}

fn gen_svg_arc(rng: &mut Rng, from: Point, to: Point) -> (SvgArcCmd, &'static str) {
    let rot = match rng.below(4) {
        0 => 0.0,
        1 => *rng.pick(&[std::f32::consts::FRAC_PI_2, std::f32::consts::PI, -std::f32::consts::FRAC_PI_4, 7.0]),
        _ => rng.uniform(-3.2, 3.2) as f32,
    };
    let circle = rng.chance(1, 3);
    let bx = rng.uniform(0.5, 2.0);
    let by = if circle { bx } else { rng.uniform(0.5, 2.0) };
    let base = vector(bx as f32, by as f32);
    // choose Λ: < 1 radii fit, > 1 radii too small (must be scaled up by sqrt(Λ))
    let (lam, what) = match rng.below(5) {
        0 | 1 => (rng.uniform(0.05, 0.9), "fit"),
        2 | 3 => (rng.uniform(1.3, 12.0), "too-small"),
        _ => (rng.uniform(0.9, 1.3), "borderline"),
    };
    let l0 = svg_lambda(from, to, base, rot);
    let k = (l0 / lam).sqrt();
    let mut radii = vector((bx * k) as f32, (by * k) as f32);
    if rng.chance(1, 8) {
        radii.x = -radii.x;
    }
    if rng.chance(1, 8) {
        radii.y = -radii.y;
    }
    let fl = rng.below(4);
    (SvgArcCmd { radii, rot, large: fl & 1 != 0, sweep: fl & 2 != 0, to }, what)
}

fn curve_case(ctx: &mut Ctx) {
    ctx.case_check("chk_curve", |rng| {
        let kind = rng.below(8);
        let tol = *rng.pick(&[0.02f32, 0.05, 0.1, 0.25]);
        let rule = if rng.chance(1, 2) { FillRule::EvenOdd } else { FillRule::NonZero };
        let want = if rng.chance(1, 2) { Winding::Positive } else { Winding::Negative };
        let c = point(rng.uniform(-5.0, 5.0) as f32, rng.uniform(-5.0, 5.0) as f32);
        let r = rng.uniform(1.0, 12.0) as f32;
        let r2 = rng.uniform(1.0, 12.0) as f32;
        let rot = rng.uniform(-3.0, 3.0) as f32;
        let pr = |rng: &mut Rng| point(rng.uniform(-10.0, 10.0) as f32, rng.uniform(-10.0, 10.0) as f32);
        let rnd: Vec<Point> = (0..24).map(|_| pr(rng)).collect();
        let ncurves = rng.range(2, 3) as usize;
        let kinds: Vec<u64> = (0..4).map(|_| rng.below(3)).collect();
        // SVG elliptical arcs (drawn after everything else so that the other kinds keep their inputs)
        let svg = rng.chance(1, 4);
        let kind = if svg { 8 } else { kind };
        let svg_layout = rng.below(5);
        let chord_len = rng.uniform(2.0, 12.0);
        let chord_dir = rng.uniform(0.0, std::f64::consts::TAU);
        let svg_d = vector((chord_len * chord_dir.cos()) as f32, (chord_len * chord_dir.sin()) as f32);
        let svg_p1 = c + svg_d;
        let (svg_a1, what1) = gen_svg_arc(rng, c, svg_p1);
        let (svg_a2, what2) = gen_svg_arc(rng, svg_p1, c);
        let names = ["curves", "curves2", "shared-edge", "circle", "ellipse", "tess-ellipse", "rounded-rect", "tess-circle", "svg-arc"];
        let name = names[kind as usize];
        // entry point and sweep orientation for the curved-path kinds (0, 1): the id-based and the
        // attribute-carrying routes build the event queue through different code (set_path_with_ids)
        let entry = rng.below(5);
        let horizontal = rng.chance(1, 2);
        let mut args = Out::new();
        args.t(name).f(tol).u(if rule == FillRule::EvenOdd { 0 } else { 1 }).p(c).f(r).f(r2).f(rot);
        if svg {
            args.t("layout").u(svg_layout).t("d").v(svg_d).t("p2").p(rnd[0]);
            for a in [&svg_a1, &svg_a2] {
                args.t("A").v(a.radii).f(a.rot).b(a.large).b(a.sweep).p(a.to);
            }
        }
        let tag = if svg {
            format!("curve svg-arc {}{} layout={} tol={}", what1, if svg_layout == 2 { format!("+{}", what2) } else { String::new() }, svg_layout, tol)
        } else {
            format!("curve {} tol={}{}", name, tol, if kind <= 1 { format!(" entry={} {}", entry, if horizontal { "h" } else { "v" }) } else { String::new() })
        };
        // history of the tessellator object (drawn last; see fillgen::History)
        let hist = History::gen(rng);
        let tag = format!("{} {}", tag, hist.tag());
        (args, tag, move || {
            let opts = FillOptions::tolerance(tol).with_fill_rule(rule);
            let mut tess = hist.tessellator();
            let mut mesh = Mesh::new();
            let eps_t = tol as f64 / 8.0;
            // (path to fill, reference edges, ε_ref, extra allowance)
            let mut path_b = Path::builder();
            let (res, edges, eps, allow): (Result<(), String>, Vec<(Point, Point)>, f64, f64) = match kind {
                0 | 1 => {
                    let nsub = if kind == 0 { 1 } else { 2 };
                    let mut k = 0;
                    for s in 0..nsub {
                        path_b.begin(rnd[k]);
                        k += 1;
                        for j in 0..ncurves {
                            match kinds[(s + j) % 4] {
                                0 => {
                                    path_b.line_to(rnd[k]);
                                    k += 1;
                                }
                                1 => {
                                    path_b.quadratic_bezier_to(rnd[k], rnd[k + 1]);
                                    k += 2;
                                }
                                _ => {
                                    path_b.cubic_bezier_to(rnd[k], rnd[k + 1], rnd[k + 2]);
                                    k += 3;
                                }
                            }
                        }
                        path_b.end(true);
                    }
                    let path = path_b.build();
                    let (e, eps) = reference_edges(&path, eps_t);
                    let opts = if horizontal { opts.with_sweep_orientation(lyon_tessellation::Orientation::Horizontal) } else { opts };
                    let mut bb = BuffersBuilder::new(&mut mesh, Positions);
                    let r = match entry {
                        0 => tess.tessellate_path(&path, &opts, &mut bb),
                        1 => tess.tessellate(path.iter(), &opts, &mut bb),
                        2 => tess.tessellate_with_ids(path.id_iter(), &path, None, &opts, &mut bb),
                        3 => {
                            // the same geometry stored with one custom attribute: tessellate_path takes
                            // the id-based route
                            let mut pb = Path::builder_with_attributes(1);
                            for ev in path.iter() {
                                match ev {
                                    lyon_path::Event::Begin { at } => {
                                        pb.begin(at, &[1.0]);
                                    }
                                    lyon_path::Event::Line { to, .. } => {
                                        pb.line_to(to, &[2.0]);
                                    }
                                    lyon_path::Event::Quadratic { ctrl, to, .. } => {
                                        pb.quadratic_bezier_to(ctrl, to, &[3.0]);
                                    }
                                    lyon_path::Event::Cubic { ctrl1, ctrl2, to, .. } => {
                                        pb.cubic_bezier_to(ctrl1, ctrl2, to, &[4.0]);
                                    }
                                    lyon_path::Event::End { close, .. } => {
                                        pb.end(close);
                                    }
                                }
                            }
                            let pa = pb.build();
                            tess.tessellate_path(&pa, &opts, &mut bb)
                        }
                        _ => {
                            use lyon_path::builder::PathBuilder;
                            let mut fb = tess.builder(&opts, &mut bb);
                            for ev in path.iter() {
                                match ev {
                                    lyon_path::Event::Begin { at } => {
                                        fb.begin(at);
                                    }
                                    lyon_path::Event::Line { to, .. } => {
                                        fb.line_to(to);
                                    }
                                    lyon_path::Event::Quadratic { ctrl, to, .. } => {
                                        fb.quadratic_bezier_to(ctrl, to);
                                    }
                                    lyon_path::Event::Cubic { ctrl1, ctrl2, to, .. } => {
                                        fb.cubic_bezier_to(ctrl1, ctrl2, to);
                                    }
                                    lyon_path::Event::End { close, .. } => {
                                        fb.end(close);
                                    }
                                }
                            }
                            fb.build()
                        }
                    };
                    (r.map_err(|e| format!("{:?}", e)), e, eps, 0.0)
                }
                2 => {
                    // two regions sharing the curved edge a→b, traversed in opposite directions;
                    // the shared edge is NOT part of the reference outline: any crack or overlap
                    // along it is a coverage failure away from the (outer) outline.
                    let a = point(-6.0, 0.0);
                    let b = point(6.0, 0.0);
                    let k1 = point(rng_f(&rnd, 0) * 0.4, rng_f(&rnd, 1) * 0.3);
                    let k2 = point(rng_f(&rnd, 2) * 0.4, rng_f(&rnd, 3) * 0.3);
                    let top = point(rng_f(&rnd, 4) * 0.3, 9.0);
                    let bot = point(rng_f(&rnd, 5) * 0.3, -9.0);
                    let cubic = kinds[0] != 0;
                    // region A: a ~> b, top, back to a   (counter-clockwise when top is above)
                    path_b.begin(a);
                    if cubic {
                        path_b.cubic_bezier_to(k1, k2, b);
                    } else {
                        path_b.quadratic_bezier_to(k1, b);
                    }
                    path_b.line_to(top);
                    path_b.end(true);
                    // region B: b ~> a (same curve reversed), bot, back to b
                    path_b.begin(b);
                    if cubic {
                        path_b.cubic_bezier_to(k2, k1, a);
                    } else {
                        path_b.quadratic_bezier_to(k1, a);
                    }
                    path_b.line_to(bot);
                    path_b.end(true);
                    let path = path_b.build();
                    let edges = vec![(a, bot), (bot, b), (b, top), (top, a)];
                    let mut bb = BuffersBuilder::new(&mut mesh, Positions);
                    (tess.tessellate_path(&path, &opts, &mut bb).map_err(|e| format!("{:?}", e)), edges, 2e-5, 0.0)
                }
                3 => {
                    path_b.add_circle(c, r, want);
                    let path = path_b.build();
                    let (e, eps) = ellipse_edges(c, vector(r, r), 0.0, want == Winding::Positive, eps_t);
                    let mut bb = BuffersBuilder::new(&mut mesh, Positions);
                    (tess.tessellate_path(&path, &opts, &mut bb).map_err(|e| format!("{:?}", e)), e, eps, ALLOW_CUBIC_QUARTER * r as f64)
                }
                4 => {
                    path_b.add_ellipse(c, vector(r, r2), Angle::radians(rot), want);
                    let path = path_b.build();
                    let (e, eps) = ellipse_edges(c, vector(r, r2), rot, want == Winding::Positive, eps_t);
                    let mut bb = BuffersBuilder::new(&mut mesh, Positions);
                    (tess.tessellate_path(&path, &opts, &mut bb).map_err(|e| format!("{:?}", e)), e, eps, ALLOW_QUAD_ARC * r.max(r2) as f64)
                }
                5 => {
                    let (e, eps) = ellipse_edges(c, vector(r, r2), rot, want == Winding::Positive, eps_t);
                    let mut bb = BuffersBuilder::new(&mut mesh, Positions);
                    (
                        tess.tessellate_ellipse(c, vector(r, r2), Angle::radians(rot), want, &opts, &mut bb).map_err(|e| format!("{:?}", e)),
                        e,
                        eps,
                        ALLOW_QUAD_ARC * r.max(r2) as f64,
                    )
                }
                6 => {
                    let (w, h) = (2.0 * r + 1.0, 2.0 * r2 + 1.0);
                    // four independent corner radii (top-left, top-right, bottom-right, bottom-left) that FIT
                    // the rectangle (no clamping needed: the exact shape is then unambiguous), up to half the
                    // LONGER side so that the width/height roles of the four fit conditions are told apart;
                    // one case in three keeps the uniform radius
                    let uni = (rot.abs() / 3.0) * w.min(h) * 0.5;
                    let hm = w.max(h) * 0.5;
                    let mut rr = [
                        (rng_f(&rnd, 0).abs() * 0.1 * hm).min(w.min(h)),
                        (rng_f(&rnd, 1).abs() * 0.1 * hm).min(w.min(h)),
                        (rng_f(&rnd, 2).abs() * 0.1 * hm).min(w.min(h)),
                        (rng_f(&rnd, 3).abs() * 0.1 * hm).min(w.min(h)),
                    ];
                    if (rnd[4].x.to_bits() >> 3) % 3 == 0 {
                        rr = [uni; 4];
                    }
                    // fit: tl+tr <= w, bl+br <= w, tr+br <= h, tl+bl <= h
                    let mut f = 1.0f32;
                    for (a, b, lim) in [(rr[0], rr[1], w), (rr[3], rr[2], w), (rr[1], rr[2], h), (rr[0], rr[3], h)] {
                        if a + b > lim * 0.999 {
                            f = f.min(lim * 0.999 / (a + b));
                        }
                    }
                    for x in rr.iter_mut() {
                        *x *= f;
                    }
                    let rect = Box2D { min: c, max: point(c.x + w, c.y + h) };
                    let radii = BorderRadii { top_left: rr[0], top_right: rr[1], bottom_right: rr[2], bottom_left: rr[3] };
                    path_b.add_rounded_rectangle(&rect, &radii, want);
                    let path = path_b.build();
                    // reference: straight sides + exact quarter circles
                    let mut pts: Vec<Point> = Vec::new();
                    let corners = [
                        (point(rect.min.x + rr[0], rect.min.y + rr[0]), std::f64::consts::PI, rr[0]),
                        (point(rect.max.x - rr[1], rect.min.y + rr[1]), 1.5 * std::f64::consts::PI, rr[1]),
                        (point(rect.max.x - rr[2], rect.max.y - rr[2]), 0.0, rr[2]),
                        (point(rect.min.x + rr[3], rect.max.y - rr[3]), 0.5 * std::f64::consts::PI, rr[3]),
                    ];
                    let n = 24;
                    for (cc, a0, rad) in corners.iter() {
                        for i in 0..=n {
                            let a = a0 + 0.5 * std::f64::consts::PI * i as f64 / n as f64;
                            pts.push(point((cc.x as f64 + *rad as f64 * a.cos()) as f32, (cc.y as f64 + *rad as f64 * a.sin()) as f32));
                        }
                    }
                    if want == Winding::Negative {
                        pts.reverse();
                    }
                    let rad = rr.iter().fold(0.0f32, |m, x| m.max(*x));
                    let m = pts.len();
                    let edges: Vec<(Point, Point)> = (0..m).map(|i| (pts[i], pts[(i + 1) % m])).collect();
                    let eps = rad as f64 * (1.0 - (std::f64::consts::PI / (4.0 * n as f64)).cos()) + 2e-5 * (w + h) as f64;
                    let mut bb = BuffersBuilder::new(&mut mesh, Positions);
                    (tess.tessellate_path(&path, &opts, &mut bb).map_err(|e| format!("{:?}", e)), edges, eps, ALLOW_CUBIC_QUARTER * rad as f64)
                }
                8 => {
                    // closed paths made of SVG elliptical arcs (+ lines), built with the SVG builder;
                    // reference = the exact arcs of the SVG implementation notes (F.6.5 / F.6.6)
                    let p0 = c;
                    let p2 = rnd[0];
                    let mut b = Path::svg_builder();
                    let mut pts: Vec<Point> = Vec::new();
                    let mut eps = 0.0f64;
                    let mut rmax = 0.0f64;
                    let mut arc_ref = |pts: &mut Vec<Point>, from: Point, a: &SvgArcCmd| {
                        let (ap, e, rm) = svg_arc_points(from, a, eps_t);
                        eps = eps.max(e);
                        rmax = rmax.max(rm);
                        // `from` is already the last point of the outline
                        pts.extend_from_slice(&ap[1..]);
                    };
                    let fl = |a: &SvgArcCmd| ArcFlags { large_arc: a.large, sweep: a.sweep };
                    b.move_to(p0);
                    pts.push(p0);
                    match svg_layout {
                        0 => {
                            b.arc_to(svg_a1.radii, Angle::radians(svg_a1.rot), fl(&svg_a1), svg_a1.to);
                            arc_ref(&mut pts, p0, &svg_a1);
                        }
                        1 => {
                            b.arc_to(svg_a1.radii, Angle::radians(svg_a1.rot), fl(&svg_a1), svg_a1.to);
                            arc_ref(&mut pts, p0, &svg_a1);
                            b.line_to(p2);
                            pts.push(p2);
                        }
                        2 => {
                            b.arc_to(svg_a1.radii, Angle::radians(svg_a1.rot), fl(&svg_a1), svg_a1.to);
                            arc_ref(&mut pts, p0, &svg_a1);
                            b.arc_to(svg_a2.radii, Angle::radians(svg_a2.rot), fl(&svg_a2), svg_a2.to);
                            arc_ref(&mut pts, svg_a1.to, &svg_a2);
                        }
                        3 => {
                            // relative form: the end point is current + d (f32), exactly as the builder adds it
                            b.relative_arc_to(svg_a1.radii, Angle::radians(svg_a1.rot), fl(&svg_a1), svg_d);
                            arc_ref(&mut pts, p0, &svg_a1);
                            b.line_to(p2);
                            pts.push(p2);
                        }
                        _ => {
                            // the arc does not start at the first point of the sub-path
                            b.line_to(p2);
                            pts.push(p2);
                            let a = SvgArcCmd { to: p2 + svg_d, ..svg_a1 };
                            b.relative_arc_to(a.radii, Angle::radians(a.rot), fl(&a), svg_d);
                            arc_ref(&mut pts, p2, &a);
                        }
                    }
                    b.close();
                    let path = b.build();
                    if pts.last() == pts.first() {
                        pts.pop();
                    }
                    let m = pts.len();
                    let edges: Vec<(Point, Point)> = (0..m).map(|i| (pts[i], pts[(i + 1) % m])).collect();
                    let sc = pts.iter().fold(1.0f64, |m, a| m.max(a.x.abs() as f64).max(a.y.abs() as f64));
                    let mut bb = BuffersBuilder::new(&mut mesh, Positions);
                    (tess.tessellate_path(&path, &opts, &mut bb).map_err(|e| format!("{:?}", e)), edges, eps + 2e-6 * sc, ALLOW_QUAD_ARC * rmax)
                }
                _ => {
                    let (e, eps) = ellipse_edges(c, vector(r, r), 0.0, true, eps_t);
                    let mut bb = BuffersBuilder::new(&mut mesh, Positions);
                    (tess.tessellate_circle(c, r, &opts, &mut bb).map_err(|e| format!("{:?}", e)), e, eps, 0.0)
                }
            };
            let mut o = Out::new();
            let mut orc = Oracle::new();
            if let Err(e) = res {
                o.t("err").t(&e.replace(' ', "_"));
                orc.skip("tessellation-error");
                return (CaseOut { imp: o, orcl: orc.verdict }, None);
            }
            o.t("ok").u(mesh.vertices.len() as u64).u((mesh.indices.len() / 3) as u64);
            let nv = mesh.vertices.len() as u32;
            orc.check(mesh.indices.iter().all(|&i| i < nv), "curve/index-valid", "generic", || "index out of range".into());
            orc.check(mesh.vertices.iter().all(|p| p.x.is_finite() && p.y.is_finite()), "curve/finite", "generic", || "non-finite vertex".into());
            if orc.failed() {
                return (CaseOut { imp: o, orcl: orc.verdict }, None);
            }
            let mut cc = Out::new();
            cc.u(if rule == FillRule::EvenOdd { 0 } else { 1 });
            // shared edge: coverage must be exactly one (tiling); else: fill iff rule
            cc.u(if kind == 2 { 1 } else { 0 });
            // 1.25: the curve flattener itself overshoots the tolerance by up to ~15 % on rare curves (open C09
            // finding `approx-integral`); C03 must not re-report that under another name
            let delta = tol as f64 * 1.25 + eps + allow;
            cc.f(delta as f32);
            put_edges(&mut cc, &edges);
            put_tris(&mut cc, &mesh);
            (CaseOut { imp: o, orcl: orc.verdict }, Some(cc))
        })
    });
}

// ---------------------------------------------------------------------------------------------
// helpers:32 — the shape helpers of the path builders as sequences of builder calls

/// A `PathBuilder` that only records the calls it receives (canonical tokens).
struct Recorder {
    o: Out,
    n: u32,
    /// control polygon of everything recorded (for the direction / extent clauses of the oracle)
    poly: Vec<Point>,
}

impl Recorder {
    fn new() -> Recorder {
        Recorder { o: Out::new(), n: 0, poly: Vec::new() }
    }
    fn id(&mut self) -> EndpointId {
        self.n += 1;
        EndpointId(self.n - 1)
    }
}

impl PathBuilder for Recorder {
    fn num_attributes(&self) -> usize {
        0
    }
    fn begin(&mut self, at: Point, _: Attributes) -> EndpointId {
        self.o.t("B").p(at);
        self.poly.push(at);
        self.id()
    }
    fn end(&mut self, close: bool) {
        self.o.t("E").b(close);
    }
    fn line_to(&mut self, to: Point, _: Attributes) -> EndpointId {
        self.o.t("L").p(to);
        self.poly.push(to);
        self.id()
    }
    fn quadratic_bezier_to(&mut self, ctrl: Point, to: Point, _: Attributes) -> EndpointId {
        self.o.t("Q").p(ctrl).p(to);
        self.poly.push(ctrl);
        self.poly.push(to);
        self.id()
    }
    fn cubic_bezier_to(&mut self, ctrl1: Point, ctrl2: Point, to: Point, _: Attributes) -> EndpointId {
        self.o.t("C").p(ctrl1).p(ctrl2).p(to);
        self.poly.push(ctrl1);
        self.poly.push(ctrl2);
        self.poly.push(to);
        self.id()
    }
}

/// Transcription of the Lean model `PathShapes.fillAddCircle` (the calls `FillBuilder::add_circle`
/// is modelled to make).  It is tied bit-for-bit to the model by the `helpers` family, and replayed
/// through `FillBuilder::{begin, quadratic_bezier_to, line_to, end}`: the real
/// `FillBuilder::add_circle` must produce exactly the same mesh.
#[derive(Clone, Copy)]
enum FbCall {
    B(Point),
    L(Point),
    Q(Point, Point),
    E(bool),
}

fn fill_add_circle_calls(c: Point, radius: f32, positive: bool) -> Vec<FbCall> {
    let r = radius.abs();
    let dir: f32 = if positive { 1.0 } else { -1.0 };
    let d = r * 0.41421357f32;
    let k = std::f32::consts::FRAC_1_SQRT_2;
    let off = |x: f32, y: f32| c + vector(x, y);
    let diag = |sx: f32, sy: f32| c + vector(sx, sy) * r * k;
    let start = off(-r, 0.0);
    let m = [diag(-1.0, -dir), off(0.0, -r * dir), diag(1.0, -dir), off(r, 0.0), diag(1.0, dir), off(0.0, r * dir), diag(-1.0, dir)];
    let ctrl = [off(-r, -d * dir), off(-d, -r * dir), off(d, -r * dir), off(r, -d * dir), off(r, d * dir), off(d, r * dir), off(-d, r * dir), off(-r, d * dir)];
    let mut v = Vec::new();
    for i in 0..8 {
        let a = if i == 0 { start } else { m[i - 1] };
        let b = if i == 7 { start } else { m[i] };
        v.push(FbCall::B(a));
        v.push(FbCall::Q(ctrl[i], b));
        v.push(FbCall::E(false));
    }
    v.push(FbCall::B(start));
    for q in m.iter() {
        v.push(FbCall::L(*q));
    }
    v.push(FbCall::E(true));
    v
}

fn helper_case(ctx: &mut Ctx) {
    ctx.case("helpers:32", |rng| {
        let kind = rng.below(7);
        let positive = rng.chance(1, 2);
        let lattice = rng.chance(1, 3);
        let mut co = |rng: &mut Rng, span: f64| if lattice { rng.range(-(span as i64), span as i64) as f32 * 0.5 } else { rng.uniform(-span, span) as f32 };
        let c = point(co(rng, 40.0), co(rng, 40.0));
        let size = vector(
            match rng.below(8) {
                0 => 0.0,
                1 => -co(rng, 20.0).abs(),
                _ => co(rng, 30.0).abs(),
            },
            match rng.below(8) {
                0 => 0.0,
                1 => -co(rng, 20.0).abs(),
                _ => co(rng, 30.0).abs(),
            },
        );
        let mx = c + size;
        let mut rad = |rng: &mut Rng, scale: f32| -> f32 {
            match rng.below(10) {
                0 => 0.0,
                1 => -0.0,
                2 => -(rng.uniform(0.0, 1.5) as f32) * scale,
                3 => rng.log_uniform(-3.0, 3.0).abs() as f32,
                4 => scale * 0.5,
                5 => scale,
                6 => scale * rng.uniform(0.5, 3.0) as f32,
                _ => scale * rng.uniform(0.0, 0.5) as f32,
            }
        };
        let side = size.x.abs().min(size.y.abs()).max(0.5);
        let r = rad(rng, 10.0);
        let uniform_radii = rng.chance(1, 3);
        let r0 = rad(rng, side);
        let radii4 = if uniform_radii { [r0; 4] } else { [r0, rad(rng, side), rad(rng, side), rad(rng, side)] };
        let eradii = vector(rad(rng, 10.0), rad(rng, 10.0));
        let rot = match rng.below(5) {
            0 => 0.0,
            1 => *rng.pick(&[std::f32::consts::FRAC_PI_2, std::f32::consts::PI, -std::f32::consts::FRAC_PI_4, 100.0]),
            _ => rng.uniform(-7.0, 7.0) as f32,
        };
        let npts = rng.below(7) as usize;
        let closed = rng.chance(2, 3);
        let pts: Vec<Point> = (0..npts).map(|_| point(co(rng, 40.0), co(rng, 40.0))).collect();
        let tol = *rng.pick(&[0.01f32, 0.05, 0.2]);
        let names = ["rect", "circle", "ellipse", "rrect", "polygon", "fillcircle", "rrect"];
        let name = names[kind as usize];
        let mut args = Out::new();
        args.t(name).b(positive);
        match kind {
            0 => {
                args.p(c).p(mx);
            }
            1 | 5 => {
                args.p(c).f(r);
            }
            2 => {
                args.p(c).v(eradii).f(rot);
            }
            3 | 6 => {
                args.p(c).p(mx);
                for x in radii4.iter() {
                    args.f(*x);
                }
            }
            _ => {
                args.b(closed).u(npts as u64);
                for q in pts.iter() {
                    args.p(*q);
                }
            }
        }
        let detail = match kind {
            0 => if size.x <= 0.0 || size.y <= 0.0 { "degenerate-box" } else { "box" }.to_string(),
            1 | 5 => if r == 0.0 { "trivial zero-radius" } else if r < 0.0 { "negative-radius" } else { "radius" }.to_string(),
            2 => if eradii.x <= 0.0 || eradii.y <= 0.0 { "degenerate-radii" } else if rot == 0.0 { "unrotated" } else { "rotated" }.to_string(),
            3 | 6 => {
                let big = radii4.iter().any(|x| x.abs() * 2.0 > side);
                let zero = radii4.iter().any(|x| *x == 0.0);
                let neg = radii4.iter().any(|x| *x < 0.0);
                format!("{}{}{}{}", if uniform_radii { "uniform" } else { "mixed" }, if big { " clamped" } else { "" }, if zero { " zero" } else { "" }, if neg { " negative" } else { "" })
            }
            _ => if npts == 0 { "trivial empty".to_string() } else { format!("n={}", npts.min(3)) },
        };
        let tag = format!("helpers {} {} {}", name, if positive { "positive" } else { "negative" }, detail);
        (args, tag, move || {
            let w = if positive { Winding::Positive } else { Winding::Negative };
            let rect = Box2D { min: c, max: mx };
            let mut rec = Recorder::new();
            let mut orc = Oracle::new();
            match kind {
                0 => rec.add_rectangle(&rect, w, NO_ATTRIBUTES),
                1 => rec.add_circle(c, r, w, NO_ATTRIBUTES),
                2 => rec.add_ellipse(c, eradii, Angle::radians(rot), w, NO_ATTRIBUTES),
                3 | 6 => rec.add_rounded_rectangle(
                    &rect,
                    &BorderRadii { top_left: radii4[0], top_right: radii4[1], bottom_left: radii4[2], bottom_right: radii4[3] },
                    w,
                    NO_ATTRIBUTES,
                ),
                4 => rec.add_polygon(Polygon { points: &pts, closed }, NO_ATTRIBUTES),
                _ => {
                    // FillBuilder::add_circle cannot be recorded (it drives its own event queue):
                    // print the transcription of the model and demand that replaying it through the
                    // FillBuilder gives exactly the mesh of the real routine.
                    let calls = fill_add_circle_calls(c, r, positive);
                    for k in calls.iter() {
                        match *k {
                            FbCall::B(p) => {
                                rec.begin(p, NO_ATTRIBUTES);
                            }
                            FbCall::L(p) => {
                                rec.line_to(p, NO_ATTRIBUTES);
                            }
                            FbCall::Q(k, p) => {
                                rec.quadratic_bezier_to(k, p, NO_ATTRIBUTES);
                            }
                            FbCall::E(cl) => rec.end(cl),
                        }
                    }
                    let opts = FillOptions::tolerance(tol);
                    let mut real = Mesh::new();
                    let mut replay = Mesh::new();
                    let mut tess = FillTessellator::new();
                    let r1 = {
                        let mut bb = BuffersBuilder::new(&mut real, Positions);
                        let mut b = tess.builder(&opts, &mut bb);
                        b.add_circle(c, r, w);
                        b.build().map_err(|e| format!("{:?}", e))
                    };
                    let r2 = {
                        let mut bb = BuffersBuilder::new(&mut replay, Positions);
                        let mut b = tess.builder(&opts, &mut bb);
                        for k in calls.iter() {
                            match *k {
                                FbCall::B(p) => {
                                    b.begin(p);
                                }
                                FbCall::L(p) => {
                                    b.line_to(p);
                                }
                                FbCall::Q(k, p) => {
                                    b.quadratic_bezier_to(k, p);
                                }
                                FbCall::E(cl) => b.end(cl),
                            }
                        }
                        b.build().map_err(|e| format!("{:?}", e))
                    };
                    orc.check(r1 == r2, "helpers.fillbuilder.add_circle/same-result-as-model-calls", "generic", || format!("{:?} vs {:?}", r1, r2));
                    let same_v = real.vertices.len() == replay.vertices.len() && real.vertices.iter().zip(replay.vertices.iter()).all(|(a, b)| a.x.to_bits() == b.x.to_bits() && a.y.to_bits() == b.y.to_bits());
                    orc.check(same_v && real.indices == replay.indices, "helpers.fillbuilder.add_circle/same-mesh-as-model-calls", "generic", || {
                        format!("real {} vertices {} triangles, replay of the modelled calls {} vertices {} triangles", real.vertices.len(), real.indices.len() / 3, replay.vertices.len(), replay.indices.len() / 3)
                    });
                    if r != 0.0 && r.abs() > 4.0 * tol {
                        orc.check(real.vertices.len() >= 8, "helpers.fillbuilder.add_circle/nonempty", "generic", || format!("{} vertices", real.vertices.len()));
                    }
                }
            }
            // direction: the control polygon of what a shape helper draws has the sign of the
            // requested winding (Positive = positive signed area in lyon's y-down convention as
            // measured by the shoelace sum), whenever the shape is not degenerate
            if matches!(kind, 0 | 1 | 2 | 3 | 6) && rec.poly.len() >= 3 {
                let n = rec.poly.len();
                let a2: f64 = (0..n).map(|i| {
                    let (p, q) = (rec.poly[i], rec.poly[(i + 1) % n]);
                    p.x as f64 * q.y as f64 - q.x as f64 * p.y as f64
                }).sum();
                let scale: f64 = rec.poly.iter().fold(1e-30f64, |m, p| m.max(p.x.abs() as f64).max(p.y.abs() as f64));
                let extent = match kind { 0 | 3 | 6 => (size.x.abs().min(size.y.abs())) as f64, 1 => r.abs() as f64, _ => eradii.x.abs().min(eradii.y.abs()) as f64 };
                let degenerate = match kind { 0 | 3 | 6 => size.x <= 0.0 || size.y <= 0.0, 1 => r == 0.0, _ => eradii.x == 0.0 || eradii.y == 0.0 };
                if !degenerate && extent > 1e-3 * scale && a2.abs() > 1e-6 * scale * scale {
                    // a negative circle radius / ellipse radius product flips the drawn direction by construction
                    // (documented behaviour is only for positive sizes): skip those
                    let positive_sizes = match kind { 1 => r > 0.0, 2 => eradii.x > 0.0 && eradii.y > 0.0, _ => true };
                    if positive_sizes {
                        orc.check((a2 > 0.0) == positive, "helpers/direction", "generic", || format!("{} requested {} but signed area of the control polygon is {}", name, if positive { "Positive" } else { "Negative" }, a2 / 2.0));
                    }
                }
            }
            // rounded rectangle with radii that fit: every recorded point lies in the box, and the box is
            // touched exactly where the straight sides are: side k is left at distance r from its corners
            if matches!(kind, 3 | 6) && size.x > 0.0 && size.y > 0.0 {
                let (tl, tr, bl, br) = (radii4[0].abs(), radii4[1].abs(), radii4[2].abs(), radii4[3].abs());
                let fits = tl + tr <= size.x && bl + br <= size.x && tr + br <= size.y && tl + bl <= size.y
                    && [tl, tr, bl, br].iter().all(|x| *x <= size.x.min(size.y));
                if fits {
                    let e = 1e-4 * (c.x.abs().max(c.y.abs()).max(mx.x.abs()).max(mx.y.abs()) as f64 + 1.0);
                    let has = |q: Point| rec.poly.iter().any(|p| ((p.x - q.x).abs() as f64) <= e && ((p.y - q.y).abs() as f64) <= e);
                    let want = [
                        point(c.x, c.y + tl), point(c.x + tl, c.y), point(mx.x - tr, c.y), point(mx.x, c.y + tr),
                        point(mx.x, mx.y - br), point(mx.x - br, mx.y), point(c.x + bl, mx.y), point(c.x, mx.y - bl),
                    ];
                    for (i, q) in want.iter().enumerate() {
                        orc.check(has(*q), "helpers.rrect/corner-radii", "generic", || format!("no recorded point at tangent point {} = {:?} (radii tl {} tr {} bl {} br {}, box {:?}..{:?})", i, q, tl, tr, bl, br, c, mx));
                    }
                }
            }
            CaseOut { imp: rec.o, orcl: orc.verdict }
        })
    });
}

fn rng_f(v: &[Point], i: usize) -> f32 {
    v[i].x
}

// chk_curve, large radius / tolerance: circles and near-circular ellipses whose Bézier outline is
// farther from the exact shape than the tolerance — the regime in which the Bézier-arc allowance of
// the band decides (with the former allowance 3e-3·r for quadratic arcs these inputs were reported
// as covering points outside the shape, a false alarm: the deviation 3.14e-3·r is the helpers' by
// construction, `ALLOW_QUAD_ARC`).
fn risky_case(ctx: &mut Ctx) {
    ctx.case_check("chk_curve", |rng| {
        let kind = rng.below(4);
        let tol = *rng.pick(&[0.01f32, 0.02]);
        let ratio = rng.uniform(10000.0, 24000.0);
        let r = (tol as f64 * ratio) as f32;
        let r2 = if rng.chance(1, 2) { r } else { r * (1.0 + rng.uniform(-0.03, 0.03) as f32) };
        let rot = rng.uniform(-3.0, 3.0) as f32;
        let rule = if rng.chance(1, 2) { FillRule::EvenOdd } else { FillRule::NonZero };
        let want = if rng.chance(1, 2) { Winding::Positive } else { Winding::Negative };
        let c = point(rng.uniform(-5.0, 5.0) as f32, rng.uniform(-5.0, 5.0) as f32);
        let names = ["big-fillbuilder-circle", "big-ellipse", "big-tess-ellipse", "big-circle"];
        let name = names[kind as usize];
        let mut args = Out::new();
        args.t(name).f(tol).u(if rule == FillRule::EvenOdd { 0 } else { 1 }).p(c).f(r).f(r2).f(rot).b(want == Winding::Positive);
        let tag = format!("curve {} tol={} r/tol={:.0e}", name, tol, ratio);
        (args, tag, move || {
            let opts = FillOptions::tolerance(tol).with_fill_rule(rule);
            let mut tess = FillTessellator::new();
            let mut mesh = Mesh::new();
            let eps_t = tol as f64 / 8.0;
            let ccw = want == Winding::Positive;
            let (res, edges, eps, allow): (Result<(), String>, Vec<(Point, Point)>, f64, f64) = match kind {
                0 => {
                    let (e, eps) = ellipse_edges(c, vector(r, r), 0.0, ccw, eps_t);
                    let mut bb = BuffersBuilder::new(&mut mesh, Positions);
                    let mut b = tess.builder(&opts, &mut bb);
                    b.add_circle(c, r, want);
                    (b.build().map_err(|e| format!("{:?}", e)), e, eps, ALLOW_QUAD_ARC * r as f64)
                }
                1 => {
                    let mut path_b = Path::builder();
                    path_b.add_ellipse(c, vector(r, r2), Angle::radians(rot), want);
                    let path = path_b.build();
                    let (e, eps) = ellipse_edges(c, vector(r, r2), rot, ccw, eps_t);
                    let mut bb = BuffersBuilder::new(&mut mesh, Positions);
                    (tess.tessellate_path(&path, &opts, &mut bb).map_err(|e| format!("{:?}", e)), e, eps, ALLOW_QUAD_ARC * r.max(r2) as f64)
                }
                2 => {
                    // radii differ (equal radii go to the dedicated circle routine: family shape:32 / kind tess-circle)
                    let r2 = if r2 == r { r * 0.99 } else { r2 };
                    let (e, eps) = ellipse_edges(c, vector(r, r2), rot, ccw, eps_t);
                    let mut bb = BuffersBuilder::new(&mut mesh, Positions);
                    (
                        tess.tessellate_ellipse(c, vector(r, r2), Angle::radians(rot), want, &opts, &mut bb).map_err(|e| format!("{:?}", e)),
                        e,
                        eps,
                        ALLOW_QUAD_ARC * r.max(r2) as f64,
                    )
                }
                _ => {
                    let mut path_b = Path::builder();
                    path_b.add_circle(c, r, want);
                    let path = path_b.build();
                    let (e, eps) = ellipse_edges(c, vector(r, r), 0.0, ccw, eps_t);
                    let mut bb = BuffersBuilder::new(&mut mesh, Positions);
                    (tess.tessellate_path(&path, &opts, &mut bb).map_err(|e| format!("{:?}", e)), e, eps, ALLOW_CUBIC_QUARTER * r as f64)
                }
            };
            let mut o = Out::new();
            let mut orc = Oracle::new();
            if let Err(e) = res {
                o.t("err").t(&e.replace(' ', "_"));
                orc.skip("tessellation-error");
                return (CaseOut { imp: o, orcl: orc.verdict }, None);
            }
            o.t("ok").u(mesh.vertices.len() as u64).u((mesh.indices.len() / 3) as u64);
            let nv = mesh.vertices.len() as u32;
            orc.check(mesh.indices.iter().all(|&i| i < nv), "curve/index-valid", "generic", || "index out of range".into());
            orc.check(mesh.vertices.iter().all(|p| p.x.is_finite() && p.y.is_finite()), "curve/finite", "generic", || "non-finite vertex".into());
            if orc.failed() {
                return (CaseOut { imp: o, orcl: orc.verdict }, None);
            }
            let mut cc = Out::new();
            cc.u(if rule == FillRule::EvenOdd { 0 } else { 1 });
            cc.u(0);
            // same band as `curve_case`
            let delta = tol as f64 * 1.25 + eps + allow;
            cc.f(delta as f32);
            put_edges(&mut cc, &edges);
            put_tris(&mut cc, &mesh);
            (CaseOut { imp: o, orcl: orc.verdict }, Some(cc))
        })
    });
}

fn main() {
    let mut ctx = Ctx::from_args("C03");
    let n = ctx.n(1500, 50000);
    for _ in 0..n {
        shape_case(&mut ctx);
    }
    let n = ctx.n(176, 11000);
    for _ in 0..n {
        curve_case(&mut ctx);
    }
    let n = ctx.n(2000, 60000);
    for _ in 0..n {
        helper_case(&mut ctx);
    }
    // appended after the older families: their case ids (and with them corpus / replay files) are unchanged
    let n = ctx.n(8, 400);
    for _ in 0..n {
        risky_case(&mut ctx);
    }
    ctx.finish();
}
