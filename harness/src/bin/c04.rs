//! C04 — geometry-builder protocol, index validity, all-or-nothing output on error.
//!
//! Fault enumeration.  For every generated input (path / shape × options × entry point) a
//! reference run against a never-failing counting builder yields the request sequence of the
//! tessellation core (`v` | `t a b c`, triangle corners as ordinals of the vertices returned
//! since `begin_geometry`).  That sequence is the CASE input of the Lean skeleton model.  Then
//! the *real* tessellator is run once for EVERY fault position k = 0 (no fault), 1, …, #vertices
//! against a recording builder that wraps a real `BuffersBuilder<_, Index>` (non-empty initial
//! buffers, all ten `MaxIndex` types) and
//!   * `inject`  : refuses the k-th vertex itself (`TooManyVertices` / `InvalidVertex`), or
//!   * `overflow`: lets the real `BuffersBuilder` overflow at the k-th vertex (initial vertex
//!                 count = MAX + 1 - k).
//! IMPL prints, per k, the returned `Result`, the call trace seen by the recorder and the final
//! buffers; the model predicts all of it (whole trace for fill, stroke and shapes; for stroke also
//! the number of events pulled from the input iterator).  ORCL checks the property on the real
//! runs directly.
//!
//! Families: `fill`, `stroke`, `shape` (fill_rectangle / fill_circle fast paths), `bb` (arbitrary
//! call sequences against a real `BuffersBuilder` / `NoOutput`, incl. protocol misuse).

use std::cell::RefCell;
use std::ops::Add;
use std::rc::Rc;

use lyon_path::builder::PathBuilder;
use lyon_path::math::{point, vector, Angle, Box2D, Point};
use lyon_path::traits::Build;
use lyon_path::{IdEvent, Path, PathEvent, Winding};
use lyon_tessellation::geometry_builder::{
    BuffersBuilder, FillGeometryBuilder, FillVertexConstructor, GeometryBuilder, MaxIndex, NoOutput,
    StrokeGeometryBuilder, StrokeVertexConstructor, VertexBuffers,
};
use lyon_tessellation::{
    FillOptions, FillRule, FillTessellator, FillVertex, GeometryBuilderError, LineCap, LineJoin, Orientation,
    StrokeOptions, StrokeTessellator, StrokeVertex, TessellationError, TessellationResult, VertexId,
};
use vh::{CaseOut, Ctx, Oracle, Out, Rng};

// ---------------------------------------------------------------------------------------------
// index types

/// The index types `BuffersBuilder` can be instantiated with.  lyon implements
/// `From<VertexId>` only for u16, u32, i32, usize; the other six `MaxIndex` types are reached
/// through the local newtype `W<T>` whose `MAX` is lyon's own `<T as MaxIndex>::MAX` and whose
/// conversion is the same `v.0 as T` cast lyon uses for `u16`.
trait Idx: Add + From<VertexId> + MaxIndex + Copy + 'static {
    /// value as an unsigned bit pattern
    fn val(self) -> u64;
}

#[derive(Copy, Clone)]
struct W<T>(T);
impl<T: Add<Output = T>> Add for W<T> {
    type Output = W<T>;
    fn add(self, o: W<T>) -> W<T> {
        W(self.0 + o.0)
    }
}
impl<T: MaxIndex> MaxIndex for W<T> {
    const MAX: usize = T::MAX;
}
macro_rules! wrap_idx {
    ($t:ty, $u:ty) => {
        impl From<VertexId> for W<$t> {
            fn from(v: VertexId) -> Self {
                W(v.0 as $t)
            }
        }
        impl Idx for W<$t> {
            fn val(self) -> u64 {
                (self.0 as $u) as u64
            }
        }
    };
}
wrap_idx!(u8, u8);
wrap_idx!(i8, u8);
wrap_idx!(i16, u16);
wrap_idx!(u64, u64);
wrap_idx!(i64, u64);
wrap_idx!(isize, u64);
impl Idx for u16 {
    fn val(self) -> u64 {
        self as u64
    }
}
impl Idx for u32 {
    fn val(self) -> u64 {
        self as u64
    }
}
impl Idx for i32 {
    fn val(self) -> u64 {
        (self as u32) as u64
    }
}
impl Idx for usize {
    fn val(self) -> u64 {
        self as u64
    }
}
/// A 32-bit index type with a small `MAX` (MaxIndex is a public trait: user types may do this).
#[derive(Copy, Clone)]
struct Small<const N: usize>(u32);
impl<const N: usize> Add for Small<N> {
    type Output = Small<N>;
    fn add(self, o: Self) -> Self {
        Small(self.0 + o.0)
    }
}
impl<const N: usize> MaxIndex for Small<N> {
    const MAX: usize = N;
}
impl<const N: usize> From<VertexId> for Small<N> {
    fn from(v: VertexId) -> Self {
        Small(v.0)
    }
}
impl<const N: usize> Idx for Small<N> {
    fn val(self) -> u64 {
        self.0 as u64
    }
}

const TYPES: [&str; 14] =
    ["u8", "i8", "u16", "i16", "u32", "i32", "u64", "i64", "usize", "isize", "small3", "small6", "small17", "noout"];

fn type_max(ty: &str) -> u64 {
    match ty {
        "u8" => <W<u8> as MaxIndex>::MAX as u64,
        "i8" => <W<i8> as MaxIndex>::MAX as u64,
        "u16" => <u16 as MaxIndex>::MAX as u64,
        "i16" => <W<i16> as MaxIndex>::MAX as u64,
        "u32" => <u32 as MaxIndex>::MAX as u64,
        "i32" => <i32 as MaxIndex>::MAX as u64,
        "u64" => <W<u64> as MaxIndex>::MAX as u64,
        "i64" => <W<i64> as MaxIndex>::MAX as u64,
        "usize" => <usize as MaxIndex>::MAX as u64,
        "isize" => <W<isize> as MaxIndex>::MAX as u64,
        "small3" => 3,
        "small6" => 6,
        "small17" => 17,
        _ => u32::MAX as u64,
    }
}

// ---------------------------------------------------------------------------------------------
// recording builder

#[derive(Clone, Copy, PartialEq, Debug)]
enum Call {
    Begin,
    V(Result<u32, GeometryBuilderError>),
    T(u32, u32, u32),
    End,
    Abort,
    /// an event was taken from the input iterator / pushed by the driver (not a builder call)
    Ev,
}

type Log = Rc<RefCell<Vec<Call>>>;

struct Rec<B> {
    inner: B,
    log: Log,
    seen: u32,
    fail_at: u32,
    fail_err: GeometryBuilderError,
}

impl<B> Rec<B> {
    fn new(inner: B, log: &Log, fail_at: u32, fail_err: GeometryBuilderError) -> Self {
        Rec { inner, log: log.clone(), seen: 0, fail_at, fail_err }
    }
    fn refuse(&mut self) -> bool {
        self.seen += 1;
        if self.seen == self.fail_at {
            self.log.borrow_mut().push(Call::V(Err(self.fail_err)));
            return true;
        }
        false
    }
    fn note(&mut self, r: Result<VertexId, GeometryBuilderError>) -> Result<VertexId, GeometryBuilderError> {
        self.log.borrow_mut().push(Call::V(r.map(|v| v.0)));
        r
    }
}

impl<B: GeometryBuilder> GeometryBuilder for Rec<B> {
    fn begin_geometry(&mut self) {
        self.log.borrow_mut().push(Call::Begin);
        self.inner.begin_geometry();
    }
    fn end_geometry(&mut self) {
        self.log.borrow_mut().push(Call::End);
        self.inner.end_geometry();
    }
    fn add_triangle(&mut self, a: VertexId, b: VertexId, c: VertexId) {
        self.log.borrow_mut().push(Call::T(a.0, b.0, c.0));
        self.inner.add_triangle(a, b, c);
    }
    fn abort_geometry(&mut self) {
        self.log.borrow_mut().push(Call::Abort);
        self.inner.abort_geometry();
    }
}
impl<B: FillGeometryBuilder> FillGeometryBuilder for Rec<B> {
    fn add_fill_vertex(&mut self, v: FillVertex) -> Result<VertexId, GeometryBuilderError> {
        if self.refuse() {
            return Err(self.fail_err);
        }
        let r = self.inner.add_fill_vertex(v);
        self.note(r)
    }
}
impl<B: StrokeGeometryBuilder> StrokeGeometryBuilder for Rec<B> {
    fn add_stroke_vertex(&mut self, v: StrokeVertex) -> Result<VertexId, GeometryBuilderError> {
        if self.refuse() {
            return Err(self.fail_err);
        }
        let r = self.inner.add_stroke_vertex(v);
        self.note(r)
    }
}

/// Vertex constructor: the output vertex is the serial number of its construction.
struct Stamp(u32);
impl FillVertexConstructor<u32> for Stamp {
    fn new_vertex(&mut self, v: FillVertex) -> u32 {
        let _ = v.position();
        let s = self.0;
        self.0 += 1;
        s
    }
}
impl StrokeVertexConstructor<u32> for Stamp {
    fn new_vertex(&mut self, v: StrokeVertex) -> u32 {
        let _ = v.position();
        let s = self.0;
        self.0 += 1;
        s
    }
}

/// A tessellation call against some builder.
enum Job<'a> {
    Fill(&'a dyn Fn(&mut dyn FillGeometryBuilder, &Log) -> TessellationResult),
    Stroke(&'a dyn Fn(&mut dyn StrokeGeometryBuilder, &Log) -> TessellationResult),
}

impl<'a> Job<'a> {
    fn run<B: FillGeometryBuilder + StrokeGeometryBuilder>(&self, b: &mut B, log: &Log) -> TessellationResult {
        match self {
            Job::Fill(f) => f(b, log),
            Job::Stroke(f) => f(b, log),
        }
    }
}

#[derive(Clone, Debug)]
struct SinkSpec {
    ty: &'static str,
    /// "inject" (recorder refuses the k-th vertex) or "overflow" (BuffersBuilder overflows at the k-th)
    overflow: bool,
    inject_err: GeometryBuilderError,
    init_nv: u64,
    init_idx: Vec<u32>,
    off: u32,
    invert: bool,
}

const INIT_STAMP: u32 = 1_000_000;

impl SinkSpec {
    fn gen(rng: &mut Rng, allow_off: bool) -> SinkSpec {
        let ty = *rng.pick(&TYPES);
        let max = type_max(ty);
        // (16-bit overflow needs 65k-element initial buffers per fault position: sampled more thinly)
        let overflow = ty != "noout" && max <= 70_000 && rng.chance(1, if max > 1000 { 6 } else { 2 });
        let init_nv = if ty == "noout" { 0 } else { rng.below(12.min(max + 1)) };
        let n_idx = if ty == "noout" { 0 } else { 3 * rng.below(4) };
        let init_idx = (0..n_idx).map(|_| rng.below(100) as u32).collect();
        SinkSpec {
            ty,
            overflow,
            inject_err: if rng.chance(1, 2) { GeometryBuilderError::TooManyVertices } else { GeometryBuilderError::InvalidVertex },
            init_nv,
            init_idx,
            off: if allow_off && ty != "noout" && rng.chance(1, 4) { rng.range(1, 9) as u32 } else { 0 },
            invert: rng.chance(1, 4),
        }
    }
    fn put(&self, o: &mut Out) {
        o.t(self.ty).t(if self.overflow { "overflow" } else { "inject" }).t(err_name(self.inject_err));
        o.u(self.init_nv).u(self.off as u64).b(self.invert).u(self.init_idx.len() as u64);
        for i in &self.init_idx {
            o.u(*i as u64);
        }
    }
    /// initial vertex count for fault position k; None: this k cannot be realised
    fn init_for(&self, k: u32) -> Option<u64> {
        if self.overflow && k > 0 {
            let max = type_max(self.ty);
            if k as u64 > max + 1 {
                None
            } else {
                Some(max + 1 - k as u64)
            }
        } else {
            Some(self.init_nv)
        }
    }
    fn tag(&self) -> String {
        format!("{} {}{}{}", self.ty, if self.overflow { "overflow" } else { "inject" }, if self.off > 0 { " offset" } else { "" }, if self.invert { " invert" } else { "" })
    }
}

fn err_name(e: GeometryBuilderError) -> &'static str {
    match e {
        GeometryBuilderError::TooManyVertices => "TooManyVertices",
        GeometryBuilderError::InvalidVertex => "InvalidVertex",
    }
}

struct RunRec {
    panicked: bool,
    result: Option<TessellationResult>,
    trace: Vec<Call>,
    before: (Vec<u32>, Vec<u64>),
    after: (Vec<u32>, Vec<u64>),
    has_buffers: bool,
}

fn run_typed<I: Idx>(spec: &SinkSpec, init_nv: u64, k: u32, job: &Job) -> RunRec {
    let mut buffers: VertexBuffers<u32, I> = VertexBuffers::with_capacity(16, 16);
    buffers.vertices = (0..init_nv).map(|i| INIT_STAMP.wrapping_add(i as u32)).collect();
    buffers.indices = spec.init_idx.iter().map(|&i| I::from(VertexId(i))).collect();
    let snap = |b: &VertexBuffers<u32, I>| (b.vertices.clone(), b.indices.iter().map(|i| i.val()).collect::<Vec<u64>>());
    let before = snap(&buffers);
    let log: Log = Rc::new(RefCell::new(Vec::new()));
    let fail_at = if spec.overflow { 0 } else { k };
    let res = vh::guarded(|| {
        let bb = BuffersBuilder::new(&mut buffers, Stamp(0)).with_vertex_offset(spec.off);
        if spec.invert {
            let mut r = Rec::new(bb.with_inverted_winding(), &log, fail_at, spec.inject_err);
            job.run(&mut r, &log)
        } else {
            let mut r = Rec::new(bb, &log, fail_at, spec.inject_err);
            job.run(&mut r, &log)
        }
    });
    let after = snap(&buffers);
    let trace = log.borrow().clone();
    RunRec { panicked: res.is_none(), result: res, trace, before, after, has_buffers: true }
}

fn run_noout(spec: &SinkSpec, k: u32, job: &Job) -> RunRec {
    let log: Log = Rc::new(RefCell::new(Vec::new()));
    let res = vh::guarded(|| {
        let mut r = Rec::new(NoOutput::new(), &log, k, spec.inject_err);
        job.run(&mut r, &log)
    });
    let trace = log.borrow().clone();
    RunRec { panicked: res.is_none(), result: res, trace, before: (vec![], vec![]), after: (vec![], vec![]), has_buffers: false }
}

fn run_sink(spec: &SinkSpec, k: u32, job: &Job) -> Option<RunRec> {
    let init = spec.init_for(k)?;
    Some(match spec.ty {
        "u8" => run_typed::<W<u8>>(spec, init, k, job),
        "i8" => run_typed::<W<i8>>(spec, init, k, job),
        "u16" => run_typed::<u16>(spec, init, k, job),
        "i16" => run_typed::<W<i16>>(spec, init, k, job),
        "u32" => run_typed::<u32>(spec, init, k, job),
        "i32" => run_typed::<i32>(spec, init, k, job),
        "u64" => run_typed::<W<u64>>(spec, init, k, job),
        "i64" => run_typed::<W<i64>>(spec, init, k, job),
        "usize" => run_typed::<usize>(spec, init, k, job),
        "isize" => run_typed::<W<isize>>(spec, init, k, job),
        "small3" => run_typed::<Small<3>>(spec, init, k, job),
        "small6" => run_typed::<Small<6>>(spec, init, k, job),
        "small17" => run_typed::<Small<17>>(spec, init, k, job),
        _ => run_noout(spec, k, job),
    })
}

/// reference run: never-failing counting builder
fn reference(job: &Job) -> RunRec {
    let spec = SinkSpec { ty: "noout", overflow: false, inject_err: GeometryBuilderError::TooManyVertices, init_nv: 0, init_idx: vec![], off: 0, invert: false };
    run_noout(&spec, 0, job)
}

// ---------------------------------------------------------------------------------------------
// printing

fn res_name(r: &Option<TessellationResult>) -> String {
    match r {
        None => "panic".into(),
        Some(Ok(())) => "ok".into(),
        Some(Err(TessellationError::GeometryBuilder(e))) => format!("gb:{}", err_name(*e)),
        Some(Err(TessellationError::Internal(_))) => "internal".into(),
        Some(Err(TessellationError::UnsupportedParamater(_))) => "unsupported".into(),
    }
}

fn put_call(o: &mut Out, c: &Call) {
    match c {
        Call::Begin => o.t("B"),
        Call::V(Ok(i)) => o.t(&format!("V{}", i)),
        Call::V(Err(e)) => o.t(if *e == GeometryBuilderError::TooManyVertices { "V!tmv" } else { "V!inv" }),
        Call::T(a, b, c) => o.t(&format!("T{},{},{}", a, b, c)),
        Call::End => o.t("E"),
        Call::Abort => o.t("A"),
        Call::Ev => o,
    };
}

fn fingerprint<T: Copy + Into<u64>>(v: &[T]) -> u64 {
    let mut h = 17u64;
    for x in v {
        h = (h * 31 + ((*x).into() % 1_000_000_007) + 7) % 1_000_000_007;
    }
    h
}

fn put_buffers(o: &mut Out, r: &RunRec) {
    if r.has_buffers {
        o.t("nv").u(r.after.0.len() as u64).t("ni").u(r.after.1.len() as u64);
        o.t("hv").u(fingerprint(&r.after.0)).t("hi").u(fingerprint(&r.after.1));
    } else {
        o.t("nobuf");
    }
}

/// Script of a run: `v` | `t a b c` with ordinals, plus event markers `e`.
fn put_script(o: &mut Out, trace: &[Call], with_events: bool) -> u32 {
    let mut ids: Vec<u32> = Vec::new();
    let mut toks: Vec<String> = Vec::new();
    let ord = |ids: &Vec<u32>, x: u32| ids.iter().position(|&i| i == x).map(|p| p as u64).unwrap_or(999_999);
    for c in trace {
        match c {
            Call::V(Ok(i)) => {
                ids.push(*i);
                toks.push("v".into());
            }
            Call::V(Err(_)) => toks.push("v".into()),
            Call::T(a, b, c) => toks.push(format!("t {} {} {}", ord(&ids, *a), ord(&ids, *b), ord(&ids, *c))),
            Call::Ev if with_events => toks.push("e".into()),
            _ => {}
        }
    }
    o.t("script").u(toks.len() as u64);
    for t in &toks {
        o.t(t);
    }
    ids.len() as u32
}

fn k_list(nv: u32, rng: &mut Rng) -> Vec<u32> {
    let mut ks: Vec<u32> = (0..=nv.min(48)).collect();
    if nv > 48 {
        let step = ((nv - 48) / 24).max(1);
        let mut k = 48 + 1 + rng.below(step as u64) as u32;
        while k < nv {
            ks.push(k);
            k += step;
        }
        ks.push(nv);
    }
    ks
}

// ---------------------------------------------------------------------------------------------
// oracle: the property on one real run

#[derive(Clone, Copy, PartialEq)]
enum Kind {
    Fill,
    Stroke,
    Shape,
}

/// `begin`, vertex/triangle calls, one terminator matching the result, first refusal returned.
fn protocol_ok(calls: &[Call], result: &TessellationResult) -> bool {
    if calls.len() < 2 || calls[0] != Call::Begin {
        return false;
    }
    let body = &calls[1..calls.len() - 1];
    let term = calls[calls.len() - 1];
    let shape = body.iter().all(|c| matches!(c, Call::V(_) | Call::T(..))) && ((result.is_ok() && term == Call::End) || (result.is_err() && term == Call::Abort));
    let first = calls.iter().find_map(|c| if let Call::V(Err(e)) = c { Some(*e) } else { None });
    shape && first.map_or(true, |e| *result == Err(TessellationError::GeometryBuilder(e)))
}

fn oracle_run(orc: &mut Oracle, kind: Kind, site: &str, spec: &SinkSpec, k: u32, r: &RunRec) {
    let cl = |c: &str| format!("{}/{}", site, c);
    let ctx = |r: &RunRec| format!("k={} ty={} {} result={} trace_len={}", k, spec.ty, if spec.overflow { "overflow" } else { "inject" }, res_name(&r.result), r.trace.len());
    orc.check(!r.panicked, &cl("no-panic"), "generic", || ctx(r));
    if r.panicked {
        return;
    }
    let calls: Vec<Call> = r.trace.iter().copied().filter(|c| *c != Call::Ev).collect();
    let result = r.result.clone().unwrap();
    let first_refusal = calls.iter().find_map(|c| if let Call::V(Err(e)) = c { Some(*e) } else { None });
    let n_term = calls.iter().filter(|c| matches!(c, Call::End | Call::Abort)).count();
    // The known defect's witness predicate: a basic-shape fast path, a refused vertex, the error
    // returned, and no terminator at all.
    let shape_no_abort = kind == Kind::Shape && first_refusal.is_some() && result.is_err() && n_term == 0;
    let term_class = if shape_no_abort { "basic-shape-no-abort" } else { "generic" };

    if calls.is_empty() {
        // nothing was asked of the builder (rejected parameter, empty shape): all-or-nothing holds trivially
        orc.check(r.before == r.after, &cl("untouched"), "generic", || ctx(r));
        return;
    }
    // one begin, first
    let n_begin = calls.iter().filter(|c| **c == Call::Begin).count();
    orc.check(calls[0] == Call::Begin && n_begin == 1, &cl("one-begin"), "generic", || ctx(r));
    // triangles only use ids returned since begin
    let mut ids: Vec<u32> = Vec::new();
    let mut refused = false;
    for c in &calls {
        match c {
            Call::V(Ok(i)) => ids.push(*i),
            Call::V(Err(_)) => refused = true,
            Call::T(a, b, c3) => {
                let ok = ids.contains(a) && ids.contains(b) && ids.contains(c3);
                let class = if refused { "after-refusal" } else { "generic" };
                orc.check(ok, &cl("ids-fresh"), class, || format!("{} triangle {} {} {} ids returned {}", ctx(r), a, b, c3, ids.len()));
            }
            _ => {}
        }
    }
    // exactly one terminator, and it is the last call
    orc.check(n_term == 1, &cl("one-terminator"), term_class, || format!("{} terminators={}", ctx(r), n_term));
    if n_term >= 1 {
        let last = *calls.last().unwrap();
        orc.check(matches!(last, Call::End | Call::Abort), &cl("nothing-after-terminator"), "generic", || ctx(r));
        let want = if result.is_ok() { Call::End } else { Call::Abort };
        orc.check(calls.iter().any(|c| *c == want) && n_term == 1, &cl("terminator-matches-result"), "generic", || ctx(r));
    }
    // a refusal is returned (the first one)
    if let Some(e) = first_refusal {
        orc.check(result == Err(TessellationError::GeometryBuilder(e)), &cl("returns-first-error"), "generic", || ctx(r));
    }
    // buffers
    if r.has_buffers {
        if result.is_err() {
            orc.check(r.after == r.before, &cl("restored-on-error"), term_class, || {
                format!("{} vertices {} -> {} indices {} -> {}", ctx(r), r.before.0.len(), r.after.0.len(), r.before.1.len(), r.after.1.len())
            });
        } else {
            let (nv0, ni0) = (r.before.0.len(), r.before.1.len());
            let keeps = r.after.0.len() >= nv0 && r.after.1.len() >= ni0 && r.after.0[..nv0] == r.before.0[..] && r.after.1[..ni0] == r.before.1[..];
            orc.check(keeps, &cl("old-untouched"), "generic", || ctx(r));
            if keeps {
                let n_ok = calls.iter().filter(|c| matches!(c, Call::V(Ok(_)))).count();
                orc.check(r.after.0.len() == nv0 + n_ok, &cl("new-vertex-count"), "generic", || ctx(r));
                let (lo, hi) = (nv0 as u64 + spec.off as u64, r.after.0.len() as u64 + spec.off as u64);
                let bad = r.after.1[ni0..].iter().find(|&&i| i < lo || i >= hi);
                orc.check(bad.is_none(), &cl("new-indices-valid"), "generic", || format!("{} index {:?} not in [{}, {})", ctx(r), bad, lo, hi));
                let n_tri = calls.iter().filter(|c| matches!(c, Call::T(..))).count();
                orc.check(r.after.1.len() == ni0 + 3 * n_tri, &cl("new-index-count"), "generic", || ctx(r));
            }
        }
    }
}

// ---------------------------------------------------------------------------------------------
// inputs

#[derive(Clone, Debug)]
enum Cmd {
    Begin(Point),
    Line(Point),
    Quad(Point, Point),
    Cubic(Point, Point, Point),
    End(bool),
}

fn gen_cmds(rng: &mut Rng) -> (Vec<Cmd>, &'static str) {
    if rng.chance(3, 5) {
        let poly = vh::fillgen::gen_poly(rng, 8);
        let mut v = Vec::new();
        for (pts, closed) in &poly.subs {
            if pts.is_empty() {
                continue;
            }
            v.push(Cmd::Begin(pts[0]));
            for p in &pts[1..] {
                v.push(Cmd::Line(*p));
            }
            v.push(Cmd::End(*closed));
        }
        (v, poly.kind)
    } else {
        let lp = |rng: &mut Rng| point(rng.range(0, 16) as f32 * 0.5, rng.range(0, 16) as f32 * 0.5);
        let mut v = Vec::new();
        for _ in 0..rng.range(1, 2) {
            v.push(Cmd::Begin(lp(rng)));
            for _ in 0..rng.range(0, 4) {
                match rng.below(4) {
                    0 | 1 => v.push(Cmd::Line(lp(rng))),
                    2 => v.push(Cmd::Quad(lp(rng), lp(rng))),
                    _ => v.push(Cmd::Cubic(lp(rng), lp(rng), lp(rng))),
                }
            }
            v.push(Cmd::End(rng.chance(1, 2)));
        }
        (v, "curved")
    }
}

fn build_path(cmds: &[Cmd], widths: Option<&[f32]>) -> Path {
    let mut wi = 0usize;
    let mut w = |n: &mut usize| {
        let x = widths.map(|ws| ws[*n % ws.len()]).unwrap_or(1.0);
        *n += 1;
        [x]
    };
    if widths.is_some() {
        let mut b = Path::builder_with_attributes(1);
        for c in cmds {
            match c {
                Cmd::Begin(p) => {
                    b.begin(*p, &w(&mut wi));
                }
                Cmd::Line(p) => {
                    b.line_to(*p, &w(&mut wi));
                }
                Cmd::Quad(c1, p) => {
                    b.quadratic_bezier_to(*c1, *p, &w(&mut wi));
                }
                Cmd::Cubic(c1, c2, p) => {
                    b.cubic_bezier_to(*c1, *c2, *p, &w(&mut wi));
                }
                Cmd::End(cl) => b.end(*cl),
            }
        }
        b.build()
    } else {
        let mut b = Path::builder();
        drive(&mut b, cmds, None);
        b.build()
    }
}

/// drive a `PathBuilder` without attributes, logging one `Ev` per command
fn drive<B: PathBuilder>(b: &mut lyon_path::builder::NoAttributes<B>, cmds: &[Cmd], log: Option<&Log>) {
    for c in cmds {
        if let Some(l) = log {
            l.borrow_mut().push(Call::Ev);
        }
        match c {
            Cmd::Begin(p) => {
                b.begin(*p);
            }
            Cmd::Line(p) => {
                b.line_to(*p);
            }
            Cmd::Quad(c1, p) => {
                b.quadratic_bezier_to(*c1, *p);
            }
            Cmd::Cubic(c1, c2, p) => {
                b.cubic_bezier_to(*c1, *c2, *p);
            }
            Cmd::End(cl) => b.end(*cl),
        }
    }
}

/// iterator wrapper logging every event handed out
struct Logged<I> {
    it: I,
    log: Log,
}
impl<I: Iterator> Iterator for Logged<I> {
    type Item = I::Item;
    fn next(&mut self) -> Option<I::Item> {
        let x = self.it.next();
        if x.is_some() {
            self.log.borrow_mut().push(Call::Ev);
        }
        x
    }
}

const FILL_ENTRIES: [&str; 6] = ["events", "path", "ids", "builder", "ellipse", "badtol"];

fn fill_options(rng: &mut Rng) -> FillOptions {
    FillOptions::tolerance(*rng.pick(&[0.01f32, 0.1, 0.5]))
        .with_fill_rule(if rng.chance(1, 2) { FillRule::EvenOdd } else { FillRule::NonZero })
        .with_sweep_orientation(if rng.chance(1, 2) { Orientation::Vertical } else { Orientation::Horizontal })
        // `handle_intersections: false` is documented as "may panic" on intersecting input: only the
        // ellipse entry (which sets it itself, on an intersection-free outline) exercises it
        .with_intersections(true)
}

const STROKE_ENTRIES: [&str; 8] = ["events", "path", "ids", "vw", "builder", "rect", "circle", "ellipse"];

fn stroke_options(rng: &mut Rng) -> StrokeOptions {
    let caps = [LineCap::Butt, LineCap::Square, LineCap::Round];
    let joins = [LineJoin::Miter, LineJoin::MiterClip, LineJoin::Round, LineJoin::Bevel];
    StrokeOptions::tolerance(*rng.pick(&[0.05f32, 0.2, 1.0]))
        .with_line_width(*rng.pick(&[0.1f32, 1.0, 3.0]))
        .with_start_cap(*rng.pick(&caps))
        .with_end_cap(*rng.pick(&caps))
        .with_line_join(*rng.pick(&joins))
        .with_miter_limit(*rng.pick(&[1.0f32, 4.0, 10.0]))
}

// ---------------------------------------------------------------------------------------------
// one fault-enumeration case

/// Runs the reference + every k; prints IMPL tokens; evaluates the oracle.
fn enumerate(kind: Kind, site: &str, spec: &SinkSpec, ks: &[u32], job: &Job) -> CaseOut {
    let mut o = Out::new();
    let mut orc = Oracle::new();
    o.t("max").u(type_max(spec.ty));
    for &k in ks {
        o.t("k").u(k as u64);
        let r = match run_sink(spec, k, job) {
            Some(r) => r,
            None => {
                o.t("skip");
                continue;
            }
        };
        o.t(&res_name(&r.result));
        if !r.panicked {
            let calls: Vec<Call> = r.trace.iter().copied().filter(|c| *c != Call::Ev).collect();
            if kind == Kind::Stroke {
                // events handed out before the terminator
                o.t("pulled").u(r.trace.iter().filter(|c| **c == Call::Ev).count() as u64);
                o.t("trace");
                for c in &calls {
                    put_call(&mut o, c);
                }
            } else {
                o.t("trace");
                for c in &calls {
                    put_call(&mut o, c);
                }
            }
            put_buffers(&mut o, &r);
            // the protocol predicate itself, evaluated here and by the Lean checker `protocolB`
            // (proved equivalent to `Protocol`) on the model's trace
            o.t("wf").b(protocol_ok(&calls, r.result.as_ref().unwrap()));
        }
        oracle_run(&mut orc, kind, site, spec, k, &r);
    }
    CaseOut { imp: o, orcl: orc.verdict }
}

fn put_ks(o: &mut Out, ks: &[u32]) {
    o.t("ks").u(ks.len() as u64);
    for k in ks {
        o.u(*k as u64);
    }
}


// ---------------------------------------------------------------------------------------------
// `bb` family: arbitrary call sequences against a real builder

#[derive(Clone, Copy, Debug)]
enum BOp {
    Begin,
    V,
    T(u32, u32, u32),
    End,
    Abort,
}

/// `FillVertex` / `StrokeVertex` cannot be constructed outside lyon, so a real tessellation
/// (circle) serves as the supply of vertices: every vertex it hands in triggers the scripted
/// calls up to and including the next `V` on the real builder under test; the supplier's own
/// begin / triangle / end calls are ignored and it always gets `Ok` back.
struct Scramble<B> {
    inner: B,
    ops: Vec<BOp>,
    pos: usize,
    log: Log,
    dummy: u32,
}

impl<B: GeometryBuilder> Scramble<B> {
    fn exec_plain(&mut self, op: BOp) {
        match op {
            BOp::Begin => {
                self.log.borrow_mut().push(Call::Begin);
                self.inner.begin_geometry()
            }
            BOp::End => {
                self.log.borrow_mut().push(Call::End);
                self.inner.end_geometry()
            }
            BOp::Abort => {
                self.log.borrow_mut().push(Call::Abort);
                self.inner.abort_geometry()
            }
            BOp::T(a, b, c) => {
                self.log.borrow_mut().push(Call::T(a, b, c));
                self.inner.add_triangle(VertexId(a), VertexId(b), VertexId(c))
            }
            BOp::V => {}
        }
    }
    /// run scripted calls up to the next `V`; true if a `V` is due
    fn until_v(&mut self) -> bool {
        while self.pos < self.ops.len() {
            let op = self.ops[self.pos];
            self.pos += 1;
            if let BOp::V = op {
                return true;
            }
            self.exec_plain(op);
        }
        false
    }
    fn next_dummy(&mut self) -> Result<VertexId, GeometryBuilderError> {
        self.dummy += 1;
        Ok(VertexId(self.dummy - 1))
    }
}
impl<B: GeometryBuilder> GeometryBuilder for Scramble<B> {
    fn add_triangle(&mut self, _: VertexId, _: VertexId, _: VertexId) {}
}
impl<B: FillGeometryBuilder> FillGeometryBuilder for Scramble<B> {
    fn add_fill_vertex(&mut self, v: FillVertex) -> Result<VertexId, GeometryBuilderError> {
        if self.until_v() {
            let r = self.inner.add_fill_vertex(v);
            self.log.borrow_mut().push(Call::V(r.map(|x| x.0)));
        }
        self.next_dummy()
    }
}
impl<B: StrokeGeometryBuilder> StrokeGeometryBuilder for Scramble<B> {
    fn add_stroke_vertex(&mut self, v: StrokeVertex) -> Result<VertexId, GeometryBuilderError> {
        if self.until_v() {
            let r = self.inner.add_stroke_vertex(v);
            self.log.borrow_mut().push(Call::V(r.map(|x| x.0)));
        }
        self.next_dummy()
    }
}

fn supply<B: FillGeometryBuilder + StrokeGeometryBuilder>(inner: B, ops: &[BOp], log: &Log, stroke: bool) {
    let mut s = Scramble { inner, ops: ops.to_vec(), pos: 0, log: log.clone(), dummy: 0 };
    let nv = ops.iter().filter(|o| matches!(o, BOp::V)).count();
    // each circle supplies at least 32 vertices
    for _ in 0..(nv / 32 + 1) {
        if stroke {
            let _ = StrokeTessellator::new().tessellate_circle(point(0.0, 0.0), 10.0, &StrokeOptions::tolerance(0.01), &mut s);
        } else {
            let _ = FillTessellator::new().tessellate_circle(point(0.0, 0.0), 10.0, &FillOptions::tolerance(0.05), &mut s);
        }
    }
    let _ = s.until_v();
}

fn bb_typed<I: Idx>(spec: &SinkSpec, ops: &[BOp], stroke: bool) -> RunRec {
    let mut buffers: VertexBuffers<u32, I> = VertexBuffers::with_capacity(16, 16);
    buffers.vertices = (0..spec.init_nv).map(|i| INIT_STAMP.wrapping_add(i as u32)).collect();
    buffers.indices = spec.init_idx.iter().map(|&i| I::from(VertexId(i))).collect();
    let snap = |b: &VertexBuffers<u32, I>| (b.vertices.clone(), b.indices.iter().map(|i| i.val()).collect::<Vec<u64>>());
    let before = snap(&buffers);
    let log: Log = Rc::new(RefCell::new(Vec::new()));
    let res = vh::guarded(|| {
        let bb = BuffersBuilder::new(&mut buffers, Stamp(0)).with_vertex_offset(spec.off);
        if spec.invert {
            supply(bb.with_inverted_winding(), ops, &log, stroke)
        } else {
            supply(bb, ops, &log, stroke)
        }
    });
    let after = snap(&buffers);
    let trace = log.borrow().clone();
    RunRec { panicked: res.is_none(), result: res.map(|_| Ok(())), trace, before, after, has_buffers: true }
}

fn bb_run(spec: &SinkSpec, ops: &[BOp], stroke: bool) -> RunRec {
    match spec.ty {
        "u8" => bb_typed::<W<u8>>(spec, ops, stroke),
        "i8" => bb_typed::<W<i8>>(spec, ops, stroke),
        "u16" => bb_typed::<u16>(spec, ops, stroke),
        "i16" => bb_typed::<W<i16>>(spec, ops, stroke),
        "u32" => bb_typed::<u32>(spec, ops, stroke),
        "i32" => bb_typed::<i32>(spec, ops, stroke),
        "u64" => bb_typed::<W<u64>>(spec, ops, stroke),
        "i64" => bb_typed::<W<i64>>(spec, ops, stroke),
        "usize" => bb_typed::<usize>(spec, ops, stroke),
        "isize" => bb_typed::<W<isize>>(spec, ops, stroke),
        "small3" => bb_typed::<Small<3>>(spec, ops, stroke),
        "small6" => bb_typed::<Small<6>>(spec, ops, stroke),
        "small17" => bb_typed::<Small<17>>(spec, ops, stroke),
        _ => {
            let log: Log = Rc::new(RefCell::new(Vec::new()));
            let res = vh::guarded(|| supply(NoOutput::new(), ops, &log, stroke));
            let trace = log.borrow().clone();
            RunRec { panicked: res.is_none(), result: res.map(|_| Ok(())), trace, before: (vec![], vec![]), after: (vec![], vec![]), has_buffers: false }
        }
    }
}


/// Replays the recorded calls on a shadow copy of the initial buffers following the *property*
/// (not the implementation): abort must restore the contents at the last begin; vertices append;
/// ids are positions; an error is returned exactly when the count exceeds MAX.
fn bb_oracle(orc: &mut Oracle, spec: &SinkSpec, r: &RunRec) {
    let max = type_max(spec.ty);
    let mut nv = r.before.0.len() as u64;
    let mut ni = r.before.1.len() as u64;
    let mut mark = (nv, ni);
    for c in &r.trace {
        match c {
            Call::Begin => mark = (nv, ni),
            Call::V(res) => {
                nv += 1;
                let want = if nv > max { Err(GeometryBuilderError::TooManyVertices) } else { Ok((nv - 1) as u32) };
                orc.check(*res == want, "buffers_builder/too-many-vertices", "generic", || format!("ty={} count={} max={} returned {:?}", spec.ty, nv, max, res));
            }
            Call::T(..) => ni += 3,
            Call::Abort => {
                nv = mark.0;
                ni = mark.1;
            }
            _ => {}
        }
    }
    orc.check(r.after.0.len() as u64 == nv && r.after.1.len() as u64 == ni, "buffers_builder/lengths", "generic", || {
        format!("ty={} expected {} vertices {} indices, got {} {}", spec.ty, nv, ni, r.after.0.len(), r.after.1.len())
    });
    // prior contents are never altered unless an abort cut into them (only possible by misuse: abort without begin after truncation)
    let keep_v = (r.before.0.len()).min(r.after.0.len());
    let keep_i = (r.before.1.len()).min(r.after.1.len());
    orc.check(r.after.0[..keep_v] == r.before.0[..keep_v] && r.after.1[..keep_i] == r.before.1[..keep_i], "buffers_builder/old-untouched", "generic", || format!("ty={}", spec.ty));
}

fn gen_ops(rng: &mut Rng, id_span: u32) -> (Vec<BOp>, &'static str) {
    let misuse = rng.chance(1, 3);
    let mut ops = Vec::new();
    let mut nv = 0;
    let cycles = rng.range(1, 4);
    for _ in 0..cycles {
        if !misuse || rng.chance(4, 5) {
            ops.push(BOp::Begin);
        }
        for _ in 0..rng.range(0, 9) {
            if rng.chance(3, 5) && nv < 60 {
                ops.push(BOp::V);
                nv += 1;
            } else {
                let mut id = |rng: &mut Rng| rng.below(id_span as u64 + 3) as u32;
                ops.push(BOp::T(id(rng), id(rng), id(rng)));
            }
            if misuse && rng.chance(1, 10) {
                ops.push(*rng.pick(&[BOp::Begin, BOp::End, BOp::Abort]));
            }
        }
        if !misuse || rng.chance(4, 5) {
            ops.push(if rng.chance(1, 2) { BOp::End } else { BOp::Abort });
        }
    }
    (ops, if misuse { "misuse" } else { "cycles" })
}

fn main() {
    let mut ctx = Ctx::from_args("C04");
    if std::env::var("C04_TRACE_PANICS").is_ok() {
        // debugging aid: show where a caught panic came from
        std::panic::set_hook(Box::new(|i| eprintln!("panic: {}", i)));
    }

    // ---- fill ---------------------------------------------------------------------------------
    for _ in 0..ctx.n(400, 6000) {
        ctx.case("fill", |rng| {
            let (cmds, pkind) = gen_cmds(rng);
            let n_entries = if rng.chance(1, 12) { 6 } else { 5 };
            let entry = *rng.pick(&FILL_ENTRIES[..n_entries]);
            let mut opts = fill_options(rng);
            if entry == "badtol" {
                opts.tolerance = *rng.pick(&[0.0f32, -1.0, f32::NAN]);
            }
            let spec = SinkSpec::gen(rng, true);
            let ell = (point(rng.range(-4, 4) as f32, rng.range(-4, 4) as f32), vector(rng.range(1, 6) as f32, rng.range(1, 6) as f32), rng.uniform(0.0, 3.0) as f32);
            let path = build_path(&cmds, None);
            let path_attr = build_path(&cmds, Some(&[1.0, 2.0, 0.5]));
            if std::env::var("C04_TRACE_PANICS").is_ok() {
                eprintln!("input: entry={} opts={:?} cmds={:?}", entry, opts, cmds);
            }
            // two cases in three: ONE tessellator object serves the reference run and every fault
            // position of the case, so each call after the first runs on an object with a history of
            // aborted calls (the model predicts every call as if made on a fresh object)
            let shared = std::cell::RefCell::new(FillTessellator::new());
            let reuse = (cmds.len() + n_entries) % 3 != 0;
            let run = move |out: &mut dyn FillGeometryBuilder, log: &Log| -> TessellationResult {
                let mut fresh = FillTessellator::new();
                let mut guard = if reuse { shared.try_borrow_mut().ok() } else { None };
                let tess: &mut FillTessellator = match guard.as_mut() { Some(g) => &mut **g, None => &mut fresh };
                match entry {
                    "events" | "badtol" => tess.tessellate(Logged { it: path.iter(), log: log.clone() }, &opts, out),
                    "path" => tess.tessellate_path(&path_attr, &opts, out),
                    "ids" => tess.tessellate_with_ids(path.id_iter(), &path, None, &opts, out),
                    "builder" => {
                        let mut b = tess.builder(&opts, out);
                        drive(&mut b, &cmds, None);
                        b.build()
                    }
                    _ => tess.tessellate_ellipse(ell.0, ell.1, Angle::radians(ell.2), Winding::Positive, &opts, out),
                }
            };
            let job = Job::Fill(&run);
            let reference = reference(&job);
            let mut args = Out::new();
            spec.put(&mut args);
            args.t(if entry == "badtol" { "tolbad" } else { "tolok" });
            args.t(match &reference.result {
                None => "corepanic",
                Some(Ok(())) => "coreok",
                Some(Err(TessellationError::Internal(_))) => "coreinternal",
                Some(Err(TessellationError::UnsupportedParamater(_))) => "coreunsupported",
                Some(Err(TessellationError::GeometryBuilder(_))) => "coregb",
            });
            let nv = put_script(&mut args, &reference.trace, false);
            let ks = k_list(nv, rng);
            put_ks(&mut args, &ks);
            let trivial = if nv == 0 { " trivial" } else { "" };
            let tag = format!("fill {} {} {} nv<={}{}", entry, pkind, spec.tag(), (nv / 8 + 1) * 8, trivial);
            let ref_panicked = reference.panicked;
            drop(job);
            (args, tag, move || {
                if ref_panicked {
                    // the tessellation core itself panics on this input against a never-failing builder:
                    // not a statement about the builder protocol (fill-core robustness is C01/C02's subject)
                    let mut o = Out::new();
                    o.t("refpanic");
                    return CaseOut { imp: o, orcl: vh::Verdict::Skip("reference-run-panics".into()) };
                }
                let job = Job::Fill(&run);
                enumerate(Kind::Fill, "fill", &spec, &ks, &job)
            })
        });
    }

    // ---- stroke -------------------------------------------------------------------------------
    for _ in 0..ctx.n(500, 8000) {
        ctx.case("stroke", |rng| {
            let (cmds, pkind) = gen_cmds(rng);
            let entry = *rng.pick(&STROKE_ENTRIES);
            let mut opts = stroke_options(rng);
            if entry == "vw" {
                opts = opts.with_variable_line_width(0);
            }
            // (a vertex offset is safe since lyon 85d83d35: no VertexId::INVALID reaches add_triangle)
            let spec = SinkSpec::gen(rng, true);
            let shape = (
                point(rng.range(-4, 4) as f32, rng.range(-4, 4) as f32),
                vector(rng.range(0, 6) as f32 * 0.5, rng.range(0, 6) as f32 * 0.5),
                rng.uniform(0.0, 3.0) as f32,
            );
            let path = build_path(&cmds, None);
            let path_attr = build_path(&cmds, Some(&[1.0, 2.0, 0.5]));
            let shared = std::cell::RefCell::new(StrokeTessellator::new());
            let reuse = cmds.len() % 3 != 0;
            let run = move |out: &mut dyn StrokeGeometryBuilder, log: &Log| -> TessellationResult {
                let mut fresh = StrokeTessellator::new();
                let mut guard = if reuse { shared.try_borrow_mut().ok() } else { None };
                let tess: &mut StrokeTessellator = match guard.as_mut() { Some(g) => &mut **g, None => &mut fresh };
                match entry {
                    "events" => tess.tessellate(Logged { it: path.iter(), log: log.clone() }, &opts, out),
                    "path" => tess.tessellate_path(&path, &opts, out),
                    "ids" => tess.tessellate_with_ids(Logged { it: path.id_iter(), log: log.clone() }, &path, None, &opts, out),
                    "vw" => tess.tessellate_with_ids(Logged { it: path_attr.id_iter(), log: log.clone() }, &path_attr, Some(&path_attr), &opts, out),
                    "builder" => {
                        let mut b = tess.builder(&opts, out);
                        drive(&mut b, &cmds, Some(log));
                        b.build()
                    }
                    "rect" => tess.tessellate_rectangle(&Box2D { min: shape.0, max: shape.0 + shape.1 }, &opts, out),
                    "circle" => tess.tessellate_circle(shape.0, shape.1.x, &opts, out),
                    _ => tess.tessellate_ellipse(shape.0, shape.1, Angle::radians(shape.2), Winding::Positive, &opts, out),
                }
            };
            let job = Job::Stroke(&run);
            let reference = reference(&job);
            let iter_mode = matches!(entry, "events" | "ids" | "vw");
            let mut args = Out::new();
            spec.put(&mut args);
            args.t(if iter_mode { "iter" } else if entry == "builder" { "driven" } else { "opaque" });
            args.t(if reference.panicked { "refpanic" } else { "refok" });
            let nv = put_script(&mut args, &reference.trace, true);
            let ks = k_list(nv, rng);
            put_ks(&mut args, &ks);
            let trivial = if nv == 0 { " trivial" } else { "" };
            let tag = format!("stroke {} {} {} nv<={}{}", entry, pkind, spec.tag(), (nv / 16 + 1) * 16, trivial);
            let ref_panicked = reference.panicked;
            drop(job);
            (args, tag, move || {
                if ref_panicked {
                    let mut o = Out::new();
                    o.t("refpanic");
                    return CaseOut { imp: o, orcl: vh::Verdict::Skip("reference-run-panics".into()) };
                }
                let job = Job::Stroke(&run);
                enumerate(Kind::Stroke, "stroke", &spec, &ks, &job)
            })
        });
    }

    // ---- basic shapes (fast paths) ------------------------------------------------------------
    for _ in 0..ctx.n(200, 4000) {
        ctx.case("shape", |rng| {
            let is_rect = rng.chance(1, 3);
            let spec = SinkSpec::gen(rng, true);
            let opts = fill_options(rng);
            let min = point(rng.range(-8, 8) as f32, rng.range(-8, 8) as f32);
            let size = vector(rng.range(0, 8) as f32, rng.range(0, 8) as f32);
            let radius = if rng.chance(1, 10) { 0.0 } else { *rng.pick(&[-2.0f32, 0.05, 0.5, 1.0, 3.0, 10.0, 40.0]) };
            let shared = std::cell::RefCell::new(FillTessellator::new());
            let run = move |out: &mut dyn FillGeometryBuilder, _log: &Log| -> TessellationResult {
                let mut guard = shared.try_borrow_mut().ok();
                let mut fresh = FillTessellator::new();
                let tess: &mut FillTessellator = match guard.as_mut() { Some(g) => &mut **g, None => &mut fresh };
                if is_rect {
                    tess.tessellate_rectangle(&Box2D { min, max: min + size }, &opts, out)
                } else {
                    tess.tessellate_circle(min, radius, &opts, out)
                }
            };
            let job = Job::Fill(&run);
            let reference = reference(&job);
            let nv = reference.trace.iter().filter(|c| matches!(c, Call::V(_))).count() as u32;
            let mut args = Out::new();
            spec.put(&mut args);
            let site;
            if is_rect {
                args.t("rect");
                site = "fill_rectangle";
            } else {
                // recursion depth, read off the reference run: nv = 4 * 2^depth
                let depth = if nv >= 4 { (nv / 4).trailing_zeros() } else { 0 };
                args.t("circle").b(radius == 0.0).u(depth as u64);
                site = "fill_circle";
            }
            let ks = k_list(nv, rng);
            put_ks(&mut args, &ks);
            let trivial = if nv == 0 { " trivial" } else { "" };
            let tag = format!("shape {} {} nv={}{}", site, spec.tag(), nv, trivial);
            drop(job);
            (args, tag, move || {
                let job = Job::Fill(&run);
                enumerate(Kind::Shape, site, &spec, &ks, &job)
            })
        });
    }

    // ---- bb: direct call sequences against the real builders -----------------------------------
    for _ in 0..ctx.n(400, 8000) {
        ctx.case("bb", |rng| {
            let mut spec = SinkSpec::gen(rng, true);
            let max = type_max(spec.ty);
            if spec.ty != "noout" && max <= 70_000 && rng.chance(1, 2) {
                spec.init_nv = max - rng.below(7.min(max + 1));
            }
            let stroke = rng.chance(1, 2);
            let span = (spec.init_nv as u32).saturating_add(14).min(70_000);
            let id_span = if rng.chance(1, 6) { 300 } else { span };
            let (ops, okind) = gen_ops(rng, id_span);
            let mut args = Out::new();
            spec.put(&mut args);
            args.t("ops").u(ops.len() as u64);
            for op in &ops {
                match op {
                    BOp::Begin => args.t("b"),
                    BOp::V => args.t("v"),
                    BOp::T(a, b, c) => args.t("t").u(*a as u64).u(*b as u64).u(*c as u64),
                    BOp::End => args.t("e"),
                    BOp::Abort => args.t("a"),
                };
            }
            let tag = format!("bb {} {} {}{}", okind, spec.tag().replace(" inject", "").replace(" overflow", ""), if stroke { "stroke-vertex" } else { "fill-vertex" }, if ops.is_empty() { " trivial" } else { "" });
            (args, tag, move || {
                let r = bb_run(&spec, &ops, stroke);
                let mut o = Out::new();
                let mut orc = Oracle::new();
                o.t("max").u(type_max(spec.ty));
                orc.check(!r.panicked, "buffers_builder/no-panic", "generic", || format!("ty={} ops={:?}", spec.ty, ops));
                if !r.panicked {
                    o.t("trace");
                    for c in &r.trace {
                        put_call(&mut o, c);
                    }
                    put_buffers(&mut o, &r);
                    // every scripted call was made
                    orc.check(r.trace.len() == ops.len(), "buffers_builder/script-ran", "generic", || format!("{} of {} calls", r.trace.len(), ops.len()));
                    // the builder-level clauses of the property, on every begin..abort / begin..end window
                    if r.has_buffers {
                        bb_oracle(&mut orc, &spec, &r);
                    }
                }
                CaseOut { imp: o, orcl: orc.verdict }
            })
        });
    }

    ctx.finish();
}
