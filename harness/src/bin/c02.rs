//! C02 — fill triangles tile the interior; the monotone stage cuts n vertices into n-2 triangles.
//!
//! * `mono:32` — the crate-private monotone tessellators (basic and advanced), driven through the
//!   cfg hook `lyon_tessellation::verif_monotone`, on y-monotone polygons: every left/right
//!   interleaving (bounded-exhaustive part) and random ones; compared exactly with the Lean model;
//!   oracle: n-2 triangles, three distinct ids each, positive total area equal to the polygon's
//!   area, every triangle inside the polygon.
//! * `chk_tiling` — whole fills: the Lean slab checker in tiling mode (coverage ≤ 1 everywhere and
//!   = 1 exactly where the fill rule says "in", outside the tolerance band), plus distinct indices.
//! * `chk_tilingbuf` — the same whole-fill verdict on what the CALLER finds in his buffers: fills
//!   through `BuffersBuilder` into `VertexBuffers<Point, u16|u32|i32|usize>` that already hold
//!   geometry (N dummy vertices, N from 0 to beyond 2^16 incl. just below the index type's maximum,
//!   and/or earlier fills appended to the same buffers, some of them refused half-way), through
//!   `BuffersBuilder::new` or `simple_builder`, with / without vertex offset and inverted winding,
//!   one builder object per fill or one for all. On `Ok` every new index, read back as the buffer
//!   stores it, must name a vertex of THIS fill, the earlier contents must be untouched, and the
//!   triangles resolved through the buffer go to the slab checker.
//! * `bufidx` — tie of that index path: the fill's request script (recorded against a counting
//!   builder) run through the Lean model of `BuffersBuilder` (Model/Tess/GeomBuilder.lean,
//!   Skeleton.lean) with the same index type, prior sizes, offset, winding: result, final sizes and
//!   every stored new index compared exactly.

use lyon_path::math::{point, Point};
use lyon_tessellation::FillTessellator;
use vh::fillgen::*;
use vh::fillgen::{gen_monotone, monotone_outline, advanced_monotone_misbehaves};
use vh::{CaseOut, Ctx, Oracle, Out, Rng};

fn cross(o: Point, a: Point, b: Point) -> f64 {
    (a.x as f64 - o.x as f64) * (b.y as f64 - o.y as f64) - (a.y as f64 - o.y as f64) * (b.x as f64 - o.x as f64)
}

/// even-odd point-in-polygon in f64 (polygon given as a closed vertex loop)
fn inside(poly: &[Point], x: f64, y: f64) -> bool {
    let n = poly.len();
    let mut c = false;
    for i in 0..n {
        let (a, b) = (poly[i], poly[(i + 1) % n]);
        let (ay, by) = (a.y as f64, b.y as f64);
        if (ay <= y) != (by <= y) {
            let t = (y - ay) / (by - ay);
            let xi = a.x as f64 + t * (b.x as f64 - a.x as f64);
            if xi < x {
                c = !c;
            }
        }
    }
    c
}

/// A y-monotone polygon as the (position, is_left) sequence the sweep would feed:
/// vertices in increasing (y, x) order, left chain at x<0, right chain at x>0.
fn mono_case(ctx: &mut Ctx, n_mid: usize, pattern: Option<u32>, basic: bool, valid: bool) {
    ctx.case("mono:32", |rng| {
        let lattice = rng.chance(1, 2);
        let mut seq = gen_monotone(rng, n_mid, pattern, lattice);
        if !valid {
            // malformed stream: chains may cross / fold; only the model tie applies
            for s in seq.iter_mut().skip(1) {
                s.0.x = rng.range(-6, 6) as f32;
            }
        }
        let mut args = Out::new();
        args.u(basic as u64).u(seq.len() as u64);
        for (p, l) in &seq {
            args.p(*p).u(*l as u64);
        }
        let tag = format!("mono {} {} n={} {}", if basic { "basic" } else { "advanced" }, if valid { "valid" } else { "malformed" }, seq.len(),
            if lattice { "lattice" } else { "float" });
        (args, tag, move || {
            let tris = lyon_tessellation::verif_monotone(&seq, basic);
            let mut o = Out::new();
            o.u(tris.len() as u64);
            for t in &tris {
                o.u(t.0 as u64).u(t.1 as u64).u(t.2 as u64);
            }
            let mut orc = Oracle::new();
            let n = seq.len();
            orc.check(tris.len() == n - 2, "monotone/count", "generic", || format!("{} triangles for {} vertices", tris.len(), n));
            for t in &tris {
                orc.check(t.0 != t.1 && t.1 != t.2 && t.0 != t.2, "monotone/distinct-ids", "generic", || format!("{:?}", t));
                orc.check((t.0 as usize) < n && (t.1 as usize) < n && (t.2 as usize) < n, "monotone/valid-ids", "generic", || format!("{:?}", t));
            }
            if valid && !orc.failed() {
                let outline = monotone_outline(&seq);
                // witness class for the known defect of the ADVANCED tessellator: the basic one
                // triangulates the same sequence correctly (area sum = polygon area)
                let class: &str = if basic {
                    "generic"
                } else {
                    let bt = lyon_tessellation::verif_monotone(&seq, true);
                    let mut pa = 0.0f64;
                    for i in 0..outline.len() {
                        let (a, b) = (outline[i], outline[(i + 1) % outline.len()]);
                        pa += a.x as f64 * b.y as f64 - b.x as f64 * a.y as f64;
                    }
                    let pa = pa.abs() * 0.5;
                    let ba: f64 = bt.iter().map(|t| (cross(seq[t.0 as usize].0, seq[t.1 as usize].0, seq[t.2 as usize].0) * 0.5).abs()).sum();
                    if (ba - pa).abs() <= 1e-4 * (1.0 + pa) && bt.len() == seq.len() - 2 {
                        "advanced-chain-fan"
                    } else {
                        "generic"
                    }
                };
                let mut parea = 0.0f64;
                for i in 0..outline.len() {
                    let (a, b) = (outline[i], outline[(i + 1) % outline.len()]);
                    parea += a.x as f64 * b.y as f64 - b.x as f64 * a.y as f64;
                }
                let parea = parea.abs() * 0.5;
                let mut tarea = 0.0f64;
                for t in &tris {
                    let (a, b, c) = (seq[t.0 as usize].0, seq[t.1 as usize].0, seq[t.2 as usize].0);
                    let ar = cross(a, b, c) * 0.5;
                    tarea += ar.abs();
                    // centroid and edge mid-points pulled slightly towards the centroid must be inside
                    let (cx, cy) = ((a.x as f64 + b.x as f64 + c.x as f64) / 3.0, (a.y as f64 + b.y as f64 + c.y as f64) / 3.0);
                    if ar.abs() > 1e-6 {
                        orc.check(inside(&outline, cx, cy), "monotone/inside", class, || format!("centroid of {:?} outside", t));
                        for (p, q) in [(a, b), (b, c), (c, a)] {
                            let (mx, my) = ((p.x as f64 + q.x as f64) * 0.5, (p.y as f64 + q.y as f64) * 0.5);
                            let (px, py) = (mx + (cx - mx) * 1e-3, my + (cy - my) * 1e-3);
                            orc.check(inside(&outline, px, py), "monotone/inside", class, || format!("edge mid-point of {:?} outside", t));
                        }
                    }
                }
                let tol = 1e-4 * (1.0 + parea);
                orc.check((tarea - parea).abs() <= tol, "monotone/area", class, || format!("triangles {} polygon {}", tarea, parea));
            }
            CaseOut { imp: o, orcl: orc.verdict }
        })
    });
}

fn tiling_case(ctx: &mut Ctx, monotone: bool) {
    ctx.case_check("chk_tiling", |rng| {
        let mut mono_seq: Option<Vec<(Point, bool)>> = None;
        let poly = if monotone {
            // a y-monotone polygon (as fed to the monotone stage) through the whole fill
            let n_mid = rng.range(3, 14) as usize;
            let lattice = rng.chance(1, 4);
            let seq = gen_monotone(rng, n_mid, None, lattice);
            let p = Poly { subs: vec![(monotone_outline(&seq), true)], kind: "monotone" };
            mono_seq = Some(seq);
            p
        } else {
            gen_poly(rng, 24)
        };
        let cfg = FillCfg::gen(rng);
        let mut args = Out::new();
        cfg.put(&mut args);
        let edges = poly.edges();
        put_edges(&mut args, &edges);
        let hist = History::gen(rng);
        let tag = format!("tiling {} {} {}", poly.kind, ENTRY_NAMES[cfg.entry], hist.tag());
        (args, tag, move || {
            let mut tess = hist.tessellator();
            let mut mesh = Mesh::new();
            let res = run_fill(&mut tess, &poly, &cfg, &mut mesh);
            let mut o = Out::new();
            let mut orc = Oracle::new();
            if let Err(e) = res {
                o.t("err").t(&e.replace(' ', "_"));
                orc.skip("tessellation-error");
                return (CaseOut { imp: o, orcl: orc.verdict }, None);
            }
            o.t("ok").u(mesh.vertices.len() as u64).u((mesh.indices.len() / 3) as u64);
            let nv = mesh.vertices.len() as u32;
            for t in mesh.indices.chunks(3) {
                orc.check(t.len() == 3 && t[0] != t[1] && t[1] != t[2] && t[0] != t[2], "fill/distinct-ids", "generic", || format!("{:?}", t));
                orc.check(t.iter().all(|&i| i < nv), "fill/index-valid", "generic", || format!("{:?}", t));
            }
            // known defect of the advanced monotone tessellator, attributed exactly through hook H2:
            // on this very (position, side) sequence the advanced tessellator's triangles overlap /
            // leave the polygon while the basic tessellator's do not. Only for the vertical sweep
            // (the sequence is the one the sweep feeds).
            if let Some(seq) = &mono_seq {
                if cfg.orientation == lyon_tessellation::Orientation::Vertical && advanced_monotone_misbehaves(seq) {
                    orc.check(false, "fill/tiling", "advanced-chain-fan", || "advanced monotone tessellator misbehaves on this monotone polygon (basic is correct)".into());
                }
            }
            if orc.failed() {
                return (CaseOut { imp: o, orcl: orc.verdict }, None);
            }
            let mut c = Out::new();
            c.u(if cfg.rule == lyon_tessellation::FillRule::EvenOdd { 0 } else { 1 });
            c.u(1);
            c.f(cfg.tolerance + poly.scale() * 1.0e-5);
            put_edges(&mut c, &edges);
            put_tris(&mut c, &mesh);
            (CaseOut { imp: o, orcl: orc.verdict }, Some(c))
        })
    });
}

/// Whole fill into caller-owned buffers with prior contents, verdict on the triangles as the
/// caller resolves them through the buffers.
fn tiling_buf_case(ctx: &mut Ctx, monotone: bool) {
    ctx.case_check("chk_tilingbuf", |rng| {
        let poly = if monotone {
            let n_mid = rng.range(3, 14) as usize;
            let lattice = rng.chance(1, 4);
            let seq = gen_monotone(rng, n_mid, None, lattice);
            Poly { subs: vec![(monotone_outline(&seq), true)], kind: "monotone" }
        } else {
            gen_poly(rng, 24)
        };
        let cfg = FillCfg::gen(rng);
        let spec = BufSpec::gen(rng, true);
        let hist = if rng.chance(1, 3) { History::gen(rng) } else { History { steps: vec![] } };
        let mut args = Out::new();
        cfg.put(&mut args);
        spec.put(&mut args);
        let edges = poly.edges();
        put_edges(&mut args, &edges);
        let tag = format!("tilingbuf {} {} {}", spec.tag(), poly.kind, hist.tag());
        (args, tag, move || {
            let run = fill_into_buffers(&spec, &|| hist.tessellator(), &poly, &cfg);
            let (before, after) = (&run.before, &run.after);
            let mut o = Out::new();
            let mut orc = Oracle::new();
            o.u(before.nv() as u64).u(before.ni() as u64);
            match &run.result {
                Err(lyon_tessellation::TessellationError::GeometryBuilder(lyon_tessellation::GeometryBuilderError::TooManyVertices)) => {
                    // refusing a fill that does not fit the index type, and restoring the buffers, is
                    // the geometry-builder protocol (property C04), not tiling
                    o.t("err").t("TooManyVertices");
                    orc.skip("too-many-vertices-for-index-type");
                    return (CaseOut { imp: o, orcl: orc.verdict }, None);
                }
                Err(e) => {
                    o.t("err").t(&format!("{:?}", e).replace(' ', "_"));
                    orc.skip("tessellation-error");
                    return (CaseOut { imp: o, orcl: orc.verdict }, None);
                }
                Ok(()) => {}
            }
            o.t("ok").u(after.nv() as u64).u(after.ni() as u64);
            let (n0, i0) = (before.nv(), before.ni());
            let ctxs = || format!("{} prior vertices={} indices={} after {}/{} offset={}", after.ty(), n0, i0, after.nv(), after.ni(), spec.bc.offset);
            // what was in the buffers is still there, bit for bit
            orc.check(after.has_prefix(&**before), "fillbuf/earlier-contents-untouched", "generic", || ctxs());
            if orc.failed() {
                return (CaseOut { imp: o, orcl: orc.verdict }, None);
            }
            orc.check((after.ni() - i0) % 3 == 0, "fillbuf/index-count", "generic", || ctxs());
            let off = spec.bc.offset as i128;
            let (lo, hi) = (n0 as i128 + off, after.nv() as i128 + off);
            // a vertex offset the index type cannot hold on top of an otherwise representable fill is
            // the caller's choice, not the tessellator's output: observation
            let offset_unrepresentable = off > 0 && (after.nv() as i128 - 1) <= after.max_index() as i128 && hi - 1 > after.max_index() as i128;
            if offset_unrepresentable {
                orc.skip("vertex-offset-beyond-index-range");
                return (CaseOut { imp: o, orcl: orc.verdict }, None);
            }
            let mut tris: Vec<[Point; 3]> = Vec::new();
            for t in (i0..after.ni()).step_by(3) {
                if t + 2 >= after.ni() {
                    break;
                }
                let r = [after.index(t), after.index(t + 1), after.index(t + 2)];
                orc.check(r.iter().all(|&i| lo <= i && i < hi), "fillbuf/index-own-vertex", "generic", || {
                    format!("{} stored triangle {:?} names a vertex outside this fill's [{}, {})", ctxs(), r, lo, hi)
                });
                orc.check(r[0] != r[1] && r[1] != r[2] && r[0] != r[2], "fillbuf/distinct-ids", "generic", || format!("{} {:?}", ctxs(), r));
                if orc.failed() {
                    return (CaseOut { imp: o, orcl: orc.verdict }, None);
                }
                let v = after.vertices();
                tris.push([v[(r[0] - off) as usize], v[(r[1] - off) as usize], v[(r[2] - off) as usize]]);
            }
            let mut c = Out::new();
            c.u(if cfg.rule == lyon_tessellation::FillRule::EvenOdd { 0 } else { 1 });
            c.u(1);
            c.f(cfg.tolerance + poly.scale() * 1.0e-5);
            put_edges(&mut c, &edges);
            c.u(tris.len() as u64);
            for t in &tris {
                c.p(t[0]).p(t[1]).p(t[2]);
            }
            (CaseOut { imp: o, orcl: orc.verdict }, Some(c))
        })
    });
}

/// Tie of the index path: request script of the fill -> Lean model of `BuffersBuilder`.
fn bufidx_case(ctx: &mut Ctx) {
    ctx.case("bufidx", |rng| {
        let poly = gen_poly(rng, 16);
        let cfg = FillCfg::gen(rng);
        let spec = BufSpec::gen(rng, false);
        // request script, recorded against a builder that never refuses
        let rec = vh::guarded(|| {
            let mut r = ScriptRecorder::default();
            let mut tess = FillTessellator::new();
            let res = run_fill_dyn(&mut tess, &poly, &cfg, &mut r);
            (r, res.is_ok())
        });
        let mut args = Out::new();
        args.t(spec.ty).u(spec.n0 as u64).u(spec.idx0.len() as u64).u(spec.bc.offset as u64).b(spec.bc.invert);
        let usable = match &rec {
            Some((r, ok)) => {
                args.b(*ok).u(r.script.len() as u64);
                for s in &r.script {
                    match s {
                        None => args.t("v"),
                        Some((a, b, c)) => args.t("t").u(*a as u64).u(*b as u64).u(*c as u64),
                    };
                }
                true
            }
            None => {
                args.t("recording-panicked");
                false
            }
        };
        let tag = format!("bufidx {}{}", spec.tag(), if usable { "" } else { " trivial" });
        (args, tag, move || {
            let mut o = Out::new();
            let mut orc = Oracle::new();
            if !usable {
                o.t("recording-panicked");
                orc.skip("recording-panicked");
                return CaseOut { imp: o, orcl: orc.verdict };
            }
            let run = fill_into_buffers(&spec, &|| FillTessellator::new(), &poly, &cfg);
            let (before, after) = (&run.before, &run.after);
            match &run.result {
                Ok(()) => o.t("ok"),
                Err(lyon_tessellation::TessellationError::GeometryBuilder(e)) => o.t(&format!("gb:{:?}", e)),
                Err(_) => o.t("err"),
            };
            o.u(after.nv() as u64).u(after.ni() as u64).b(after.has_prefix(&**before));
            for i in before.ni().min(after.ni())..after.ni() {
                o.i(after.index(i) as i64);
            }
            CaseOut { imp: o, orcl: orc.verdict }
        })
    });
}

fn main() {
    let mut ctx = Ctx::from_args("C02");
    // bounded-exhaustive: every left/right interleaving of up to K middle vertices, both tessellators
    let k = ctx.n(6, 9);
    for n_mid in 0..=k {
        for pat in 0..(1u32 << n_mid) {
            mono_case(&mut ctx, n_mid as usize, Some(pat), true, true);
            mono_case(&mut ctx, n_mid as usize, Some(pat), false, true);
        }
    }
    let n = ctx.n(1500, 100000);
    for i in 0..n {
        let n_mid = 1 + (i % 38) as usize;
        mono_case(&mut ctx, n_mid, None, i % 2 == 0, i % 5 != 0);
    }
    let n = ctx.n(2400, 30000);
    for i in 0..n {
        tiling_case(&mut ctx, i % 3 == 0);
    }
    // whole fills into caller-owned buffers with prior contents, every index type of BuffersBuilder
    let n = ctx.n(900, 20000);
    for i in 0..n {
        tiling_buf_case(&mut ctx, i % 4 == 0);
    }
    let n = ctx.n(400, 8000);
    for _ in 0..n {
        bufidx_case(&mut ctx);
    }
    ctx.finish();
}
