//! C07 — fill vertices report where they come from and interpolate attributes accordingly.
//!
//! * `remap:32`  `fill::remap_t_in_range` (hook H1) against the model's `remapT`, bit for bit.
//! * `queue:32`  `EventQueueBuilder::{begin,line_segment,quadratic_bezier_segment,
//!               cubic_bezier_segment,end}` driven directly; the edge records it stores (hook H1
//!               `EventQueue::verif_dump`) against the model's builder (positions, `to`, t-ranges,
//!               windings, endpoint ids, vertex events).  The flattening of each curve (both
//!               directions) is computed by lyon_geom and handed to the model as data.
//! * `vertex:32` a real fill: at every vertex handed to the geometry builder the sibling edge
//!               records (hook H1 `FillVertex::verif_sibling_records`) and the attribute store are
//!               given to the model, which recomputes `sources()`, `as_endpoint_id()` and
//!               `interpolated_attributes()`; compared bit for bit with what lyon returned.
//! * `fill`      oracle only (no hook involved): the property itself evaluated at every vertex of
//!               real fills through `tessellate_with_ids` / `tessellate_path` /
//!               `builder_with_attributes`.
//!
//! The families that go through the real `FillTessellator` (`fill`, `vertex:32`) run on an object
//! WITH A HISTORY in half of the cases (see `Hist`): earlier calls with the same geometry and other
//! attribute values / another attribute count / another entry point, the identical call, unrelated
//! paths, calls aborted by the builder at the k-th vertex; every call of the history is checked,
//! and `interpolated_attributes()` is called 1-3 times per vertex in varying positions relative to
//! the other accessors (`Query`). A `FillVertex` borrows the tessellator's attribute buffer
//! mutably and is consumed by `add_fill_vertex`, so queries on different vertices cannot interleave.

use std::collections::HashMap;

use lyon_path::geom::{CubicBezierSegment, QuadraticBezierSegment};
use lyon_path::math::{point, Point};
use lyon_path::{EndpointId, Path};
use lyon_tessellation::geometry_builder::{FillGeometryBuilder, GeometryBuilder, GeometryBuilderError};
use lyon_tessellation::{
    verif_remap_t_in_range, EventQueueBuilder, FillOptions, FillRule, FillTessellator, FillVertex, Orientation,
    VerifEdgeRecord, VertexId, VertexSource,
};
use vh::fillgen::gen_poly;
use vh::{CaseOut, Ctx, Oracle, Out, Rng};

const EPS32: f64 = 1.1920929e-7;

// ---------------------------------------------------------------------------------------------
// Path specifications

#[derive(Clone, Debug)]
enum Seg {
    Line(Point),
    Quad(Point, Point),
    Cubic(Point, Point, Point),
}

impl Seg {
    fn to(&self) -> Point {
        match self {
            Seg::Line(p) => *p,
            Seg::Quad(_, p) => *p,
            Seg::Cubic(_, _, p) => *p,
        }
    }
    fn map(&self, f: &dyn Fn(Point) -> Point) -> Seg {
        match self {
            Seg::Line(p) => Seg::Line(f(*p)),
            Seg::Quad(c, p) => Seg::Quad(f(*c), f(*p)),
            Seg::Cubic(a, b, p) => Seg::Cubic(f(*a), f(*b), f(*p)),
        }
    }
    fn is_curve(&self) -> bool {
        !matches!(self, Seg::Line(_))
    }
}

#[derive(Clone, Debug)]
struct Sub {
    start: Point,
    segs: Vec<Seg>,
    closed: bool,
}

#[derive(Clone, Debug)]
struct Spec {
    subs: Vec<Sub>,
    kind: String,
}

impl Spec {
    fn poly(subs: Vec<(Vec<Point>, bool)>, kind: &str) -> Spec {
        let subs = subs
            .into_iter()
            .filter(|(p, _)| !p.is_empty())
            .map(|(p, closed)| Sub { start: p[0], segs: p[1..].iter().map(|q| Seg::Line(*q)).collect(), closed })
            .collect();
        Spec { subs, kind: kind.to_string() }
    }
    /// endpoint positions in the order in which the builders receive them
    fn endpoints(&self) -> Vec<Point> {
        let mut v = Vec::new();
        for s in &self.subs {
            v.push(s.start);
            for g in &s.segs {
                v.push(g.to());
            }
        }
        v
    }
    fn has_curves(&self) -> bool {
        self.subs.iter().any(|s| s.segs.iter().any(|g| g.is_curve()))
    }
    fn all_points(&self) -> Vec<Point> {
        let mut v = Vec::new();
        for s in &self.subs {
            v.push(s.start);
            for g in &s.segs {
                match g {
                    Seg::Line(p) => v.push(*p),
                    Seg::Quad(c, p) => {
                        v.push(*c);
                        v.push(*p)
                    }
                    Seg::Cubic(a, b, p) => {
                        v.push(*a);
                        v.push(*b);
                        v.push(*p)
                    }
                }
            }
        }
        v
    }
    fn scale(&self) -> f64 {
        self.all_points().iter().fold(1e-30f64, |m, p| m.max(p.x.abs() as f64).max(p.y.abs() as f64))
    }
    /// polygonal with all coordinates on the 1/8 lattice (no tolerance-sized snapping can occur for
    /// tolerances ≤ 0.01; the flattening vertices of a curve are not on the lattice)
    fn lattice(&self) -> bool {
        !self.has_curves() && self.all_points().iter().all(|p| (p.x * 8.0).fract() == 0.0 && (p.y * 8.0).fract() == 0.0 && p.x.abs() < 16384.0 && p.y.abs() < 16384.0)
    }
    fn transform(&mut self, f: &dyn Fn(Point) -> Point) {
        for s in &mut self.subs {
            s.start = f(s.start);
            for g in &mut s.segs {
                *g = g.map(f);
            }
        }
    }
}

fn lp(rng: &mut Rng, span: i64) -> Point {
    point(rng.range(0, span) as f32, rng.range(0, span) as f32)
}

fn add(a: Point, d: (f32, f32), k: f32) -> Point {
    point(a.x + d.0 * k, a.y + d.1 * k)
}

/// a lattice direction, not zero
fn ldir(rng: &mut Rng) -> (f32, f32) {
    loop {
        let d = (rng.range(-2, 2) as f32, rng.range(-2, 2) as f32);
        if d != (0.0, 0.0) {
            return d;
        }
    }
}

fn perp(d: (f32, f32)) -> (f32, f32) {
    (-d.1, d.0)
}

fn gen_spec(rng: &mut Rng) -> Spec {
    let kind = rng.below(16);
    let mut spec = match kind {
        0..=4 => {
            let p = gen_poly(rng, 8);
            Spec::poly(p.subs.clone(), p.kind)
        }
        5 | 6 => {
            // the shape of the known defect: a long edge A→B, a vertex of another sub-path lying
            // on it, and a third sub-path crossing it further along
            let a = lp(rng, 6);
            let d = ldir(rng);
            let n = perp(d);
            let b = add(a, d, 8.0);
            let c = add(add(a, d, rng.range(0, 8) as f32), n, rng.range(2, 6) as f32);
            let k = rng.range(1, 6) as f32;
            let v = add(a, d, k);
            let side = if rng.chance(1, 2) { 1.0 } else { -1.0 };
            let v1 = add(add(a, d, k + rng.range(-2, 2) as f32), n, side * rng.range(1, 4) as f32);
            let v2 = add(add(a, d, k + rng.range(-2, 2) as f32), n, side * rng.range(1, 4) as f32 + side);
            let j = k + rng.range(1, (8.0 - k) as i64).max(1) as f32 - if rng.chance(1, 2) { 0.5 } else { 0.0 };
            let x1 = add(add(a, d, j), n, 2.0);
            let x2 = add(add(a, d, j + rng.range(-1, 1) as f32 * 0.5), n, -2.0);
            let x3 = add(add(a, d, j + 1.5), n, rng.range(-3, 3) as f32);
            let mut subs = vec![(vec![a, b, c], true), (vec![v, v1, v2], true), (vec![x1, x2, x3], true)];
            if rng.chance(1, 2) {
                subs[0].0.reverse();
            }
            if rng.chance(1, 2) {
                subs.swap(0, 2);
            }
            Spec::poly(subs, "split-then-cut")
        }
        7 => {
            // several vertices of other sub-paths (and of the same one) on one edge
            let a = lp(rng, 6);
            let d = ldir(rng);
            let n = perp(d);
            let b = add(a, d, 8.0);
            let c = add(add(a, d, 4.0), n, 5.0);
            let mut subs = vec![(vec![a, b, c], true)];
            let m = rng.range(2, 3);
            for _ in 0..m {
                let k = rng.range(1, 7) as f32;
                let s = if rng.chance(1, 2) { 1.0 } else { -1.0 };
                subs.push((vec![add(a, d, k), add(add(a, d, k + 1.0), n, 2.0 * s), add(add(a, d, k - 1.0), n, 3.0 * s)], true));
            }
            Spec::poly(subs, "tjunction-multi")
        }
        8 => {
            // three or four edges through one lattice point (an intersection lying on a third edge)
            let o = point(rng.range(3, 6) as f32, rng.range(3, 6) as f32);
            let mut subs = Vec::new();
            let m = rng.range(3, 4);
            for _ in 0..m {
                let d = ldir(rng);
                let n = perp(d);
                let p = add(o, d, -rng.range(1, 3) as f32);
                let q = add(o, d, rng.range(1, 3) as f32);
                let r = add(add(o, d, rng.range(-1, 1) as f32), n, rng.range(2, 4) as f32);
                subs.push((vec![p, q, r], rng.chance(3, 4)));
            }
            Spec::poly(subs, "concurrent")
        }
        9 => {
            // partially overlapping (coincident) edges along a lattice direction
            let a = lp(rng, 6);
            let d = ldir(rng);
            let n = perp(d);
            let l1 = rng.range(2, 6) as f32;
            let o2 = rng.range(0, 3) as f32;
            let l2 = rng.range(2, 6) as f32;
            let s = if rng.chance(1, 2) { 1.0 } else { -1.0 };
            let mut s1 = vec![a, add(a, d, l1), add(add(a, d, 1.0), n, 3.0)];
            let mut s2 = vec![add(a, d, o2), add(a, d, o2 + l2), add(add(a, d, o2 + 1.0), n, 2.0 * s)];
            if rng.chance(1, 2) {
                s1.reverse();
            }
            if rng.chance(1, 2) {
                s2.reverse();
            }
            Spec::poly(vec![(s1, true), (s2, true)], "coincident-partial")
        }
        10 => {
            // fan of sub-paths sharing one vertex
            let o = lp(rng, 8);
            let mut subs = Vec::new();
            for _ in 0..rng.range(2, 4) {
                subs.push((vec![o, lp(rng, 8), lp(rng, 8)], rng.chance(3, 4)));
            }
            Spec::poly(subs, "shared-vertex")
        }
        11 => {
            // random float polygons crossing each other
            let mut subs = Vec::new();
            for _ in 0..rng.range(1, 3) {
                let n = rng.range(3, 6);
                subs.push(((0..n).map(|_| point(rng.uniform(-10.0, 10.0) as f32, rng.uniform(-10.0, 10.0) as f32)).collect(), true));
            }
            Spec::poly(subs, "random-multi")
        }
        _ => {
            // curves: lattice control points, both directions, optionally crossed by a triangle
            let mut subs = Vec::new();
            let m = rng.range(1, 2);
            for _ in 0..m {
                let start = lp(rng, 8);
                let mut segs = Vec::new();
                for _ in 0..rng.range(2, 4) {
                    segs.push(match rng.below(3) {
                        0 => Seg::Line(lp(rng, 8)),
                        1 => Seg::Quad(lp(rng, 8), lp(rng, 8)),
                        _ => Seg::Cubic(lp(rng, 8), lp(rng, 8), lp(rng, 8)),
                    });
                }
                subs.push(Sub { start, segs, closed: rng.chance(3, 4) });
            }
            if rng.chance(1, 3) {
                let p: Vec<Point> = (0..3).map(|_| lp(rng, 8)).collect();
                subs.push(Sub { start: p[0], segs: vec![Seg::Line(p[1]), Seg::Line(p[2])], closed: true });
            }
            Spec { subs, kind: "curves".to_string() }
        }
    };
    if kind >= 5 {
        match rng.below(12) {
            0 => spec.transform(&|q| point(q.x * 1000.0, q.y * 1000.0)),
            1 => spec.transform(&|q| point(q.x * 0.125, q.y * 0.125)),
            2 => spec.transform(&|q| point(q.x + 1000.0, q.y - 500.0)),
            3 => spec.transform(&|q| point(q.x * 0.37 + 0.11, q.y * 1.93 - 0.7)),
            4 => spec.transform(&|q| point(q.x - 4.0, q.y - 4.0)),
            _ => {}
        }
    }
    spec
}

// ---------------------------------------------------------------------------------------------
// Attributes

#[derive(Clone, Debug)]
struct AttrSpec {
    n: usize,
    /// per endpoint (builder order)
    values: Vec<Vec<f32>>,
    /// affine coefficients (c0, cx, cy) per attribute when the attributes are an affine function
    /// of the endpoint position
    affine: Option<Vec<[f32; 3]>>,
}

fn gen_attrs(rng: &mut Rng, spec: &Spec) -> AttrSpec {
    let n = rng.below(5) as usize;
    let pts = spec.endpoints();
    if n > 0 && rng.chance(1, 2) {
        let co: Vec<[f32; 3]> = (0..n)
            .map(|_| [rng.range(-8, 8) as f32 * 0.5, rng.range(-4, 4) as f32 * 0.25, rng.range(-4, 4) as f32 * 0.25])
            .collect();
        let values = pts.iter().map(|p| co.iter().map(|c| c[0] + c[1] * p.x + c[2] * p.y).collect()).collect();
        AttrSpec { n, values, affine: Some(co) }
    } else {
        let values = pts.iter().map(|_| (0..n).map(|_| rng.range(-64, 64) as f32 * 0.25).collect()).collect();
        AttrSpec { n, values, affine: None }
    }
}

// ---------------------------------------------------------------------------------------------
// Running the real tessellator

#[derive(Clone, Copy, Debug)]
struct Cfg {
    rule: FillRule,
    orientation: Orientation,
    tol: f32,
    /// 0 tessellate_with_ids, 1 tessellate_path, 2 builder_with_attributes
    entry: usize,
}

const ENTRIES: [&str; 3] = ["ids", "path", "builder"];

impl Cfg {
    fn gen(rng: &mut Rng) -> Cfg {
        Cfg {
            rule: if rng.chance(1, 2) { FillRule::EvenOdd } else { FillRule::NonZero },
            orientation: if rng.chance(1, 2) { Orientation::Vertical } else { Orientation::Horizontal },
            tol: *rng.pick(&[0.001f32, 0.005, 0.01]), // rescaled to the size of the path by `for_spec`
            entry: rng.below(3) as usize,
        }
    }
    /// tolerance relative to the extent of the path (base tolerance for an extent of about 8)
    fn for_spec(mut self, spec: &Spec) -> Cfg {
        let pts = spec.all_points();
        let ext = |f: &dyn Fn(&Point) -> f32| pts.iter().map(f).fold(f32::MIN, f32::max) - pts.iter().map(f).fold(f32::MAX, f32::min);
        let s = (ext(&|p| p.x).max(ext(&|p| p.y)) as f64).max(spec.scale() * 1e-3);
        if !(s >= 2.0 && s <= 16.0) {
            self.tol = (self.tol as f64 * s.max(1e-6) / 8.0) as f32;
        }
        self
    }
    fn options(&self) -> FillOptions {
        FillOptions::tolerance(self.tol).with_fill_rule(self.rule).with_sweep_orientation(self.orientation)
    }
    fn name(&self) -> String {
        format!(
            "{} {} {}",
            ENTRIES[self.entry],
            if self.rule == FillRule::EvenOdd { "evenodd" } else { "nonzero" },
            if self.orientation == Orientation::Vertical { "vertical" } else { "horizontal" }
        )
    }
}

struct VRec {
    pos: Point,
    sources: Vec<VertexSource>,
    /// what the LAST call of `interpolated_attributes()` on this vertex returned
    attrs: Vec<f32>,
    /// what every call of `interpolated_attributes()` on this vertex returned, in call order
    /// (empty: the builder did not ask this vertex for its attributes)
    calls: Vec<Vec<f32>>,
    ep: Option<EndpointId>,
    recs: Vec<VerifEdgeRecord>,
}

/// How a geometry builder uses the `FillVertex` it is handed. The attribute buffer behind
/// `interpolated_attributes()` belongs to the tessellator object and is shared by all vertices of
/// all calls, so the way it is read is part of the input.
#[derive(Clone, Copy, Debug)]
struct Query {
    /// calls of `interpolated_attributes()` per vertex that is asked (1..=3)
    reps: u8,
    /// 0: all calls after `sources()` / `as_endpoint_id()` (the only order used before histories
    /// existed); 1: the first call before any other accessor; 2: one call between `sources()` and
    /// `as_endpoint_id()`, the others at the end
    order: u8,
    /// vertex number i (0-based, per call) is asked for its attributes iff bit (i mod 64) is set
    mask: u64,
    /// the builder refuses the k-th vertex (1-based; 0 = never): the call is aborted
    refuse: usize,
    /// the refused vertex is inspected like every other one before it is refused
    look_first: bool,
}

impl Query {
    const PLAIN: Query = Query { reps: 1, order: 0, mask: u64::MAX, refuse: 0, look_first: false };
    fn name(&self) -> String {
        format!(
            "q{}{}{}{}",
            self.reps,
            ["", "-attrs-first", "-attrs-interleaved"][self.order as usize],
            if self.mask == u64::MAX { "" } else if self.mask == 0 { "-asks-none" } else { "-asks-some" },
            if self.refuse == 0 { String::new() } else { format!("-refuse{}{}", self.refuse, if self.look_first { "-after-look" } else { "" }) }
        )
    }
}

struct Collect {
    q: Query,
    seen: usize,
    verts: Vec<VRec>,
    tris: usize,
}

impl Collect {
    fn new(q: Query) -> Collect {
        Collect { q, seen: 0, verts: Vec::new(), tris: 0 }
    }
}

impl GeometryBuilder for Collect {
    fn add_triangle(&mut self, _: VertexId, _: VertexId, _: VertexId) {
        self.tris += 1;
    }
}

impl FillGeometryBuilder for Collect {
    fn add_fill_vertex(&mut self, mut v: FillVertex) -> Result<VertexId, GeometryBuilderError> {
        let ask = (self.q.mask >> (self.seen % 64)) & 1 == 1;
        self.seen += 1;
        let refuse = self.q.refuse != 0 && self.seen == self.q.refuse;
        if refuse && !self.q.look_first {
            return Err(GeometryBuilderError::InvalidVertex);
        }
        let reps = if ask { self.q.reps.max(1) as usize } else { 0 };
        let mut calls: Vec<Vec<f32>> = Vec::new();
        if reps > 0 && self.q.order == 1 {
            calls.push(v.interpolated_attributes().to_vec());
        }
        let pos = v.position();
        let sources: Vec<VertexSource> = v.sources().collect();
        if reps > 1 && self.q.order == 2 {
            calls.push(v.interpolated_attributes().to_vec());
        }
        let ep = v.as_endpoint_id();
        let recs = v.verif_sibling_records();
        while calls.len() < reps {
            calls.push(v.interpolated_attributes().to_vec());
        }
        let attrs = calls.last().cloned().unwrap_or_default();
        self.verts.push(VRec { pos, sources, attrs, calls, ep, recs });
        if refuse {
            return Err(GeometryBuilderError::InvalidVertex);
        }
        Ok(VertexId((self.verts.len() - 1) as u32))
    }
}

struct Run {
    /// endpoint id per endpoint (builder order); `None` when the entry point carries no ids
    ids: Option<Vec<u32>>,
    verts: Vec<VRec>,
    err: Option<String>,
}

/// one call of the real tessellator on a NEW object
fn run_fill(spec: &Spec, at: &AttrSpec, cfg: &Cfg) -> Run {
    fill_on(&mut FillTessellator::new(), spec, at, cfg, Query::PLAIN)
}

/// one call of the real tessellator on the given object (whatever it has been through)
fn fill_on(tess: &mut FillTessellator, spec: &Spec, at: &AttrSpec, cfg: &Cfg, q: Query) -> Run {
    let opts = cfg.options();
    let mut out = Collect::new(q);
    let mut ids: Vec<u32> = Vec::new();
    let mut k = 0usize;
    let res;
    if cfg.entry == 2 {
        let mut b = tess.builder_with_attributes(at.n, &opts, &mut out);
        for s in &spec.subs {
            ids.push(b.begin(s.start, &at.values[k]).0);
            k += 1;
            for g in &s.segs {
                let id = match g {
                    Seg::Line(p) => b.line_to(*p, &at.values[k]),
                    Seg::Quad(c, p) => b.quadratic_bezier_to(*c, *p, &at.values[k]),
                    Seg::Cubic(c1, c2, p) => b.cubic_bezier_to(*c1, *c2, *p, &at.values[k]),
                };
                ids.push(id.0);
                k += 1;
            }
            b.end(s.closed);
        }
        res = b.build();
    } else {
        let mut b = Path::builder_with_attributes(at.n);
        for s in &spec.subs {
            ids.push(b.begin(s.start, &at.values[k]).0);
            k += 1;
            for g in &s.segs {
                let id = match g {
                    Seg::Line(p) => b.line_to(*p, &at.values[k]),
                    Seg::Quad(c, p) => b.quadratic_bezier_to(*c, *p, &at.values[k]),
                    Seg::Cubic(c1, c2, p) => b.cubic_bezier_to(*c1, *c2, *p, &at.values[k]),
                };
                ids.push(id.0);
                k += 1;
            }
            b.end(s.closed);
        }
        let path = b.build();
        if cfg.entry == 0 {
            res = if at.n > 0 {
                tess.tessellate_with_ids(path.id_iter(), &path, Some(&path), &opts, &mut out)
            } else {
                tess.tessellate_with_ids(path.id_iter(), &path, None, &opts, &mut out)
            };
        } else {
            res = tess.tessellate_path(&path, &opts, &mut out);
            if at.n == 0 {
                // `tessellate_path` without attributes goes through `tessellate(path.iter())`: no ids
                return Run { ids: None, verts: out.verts, err: res.err().map(|e| format!("{:?}", e)) };
            }
        }
    }
    Run { ids: Some(ids), verts: out.verts, err: res.err().map(|e| format!("{:?}", e)) }
}

// ---------------------------------------------------------------------------------------------
// The history of the tessellator object
//
// The property speaks about every vertex handed to the geometry builder during a fill, by
// whichever `FillTessellator` object: not only by one created for that call. The event queue, the
// edge records and the attribute buffer that `sources()` / `interpolated_attributes()` read live
// in the object and are reused from call to call. About half of the end-to-end cases therefore
// run on an object that has served 1-3 earlier calls: the SAME geometry with other attribute
// values (a recoloured shape: all event ids coincide), with another number of attributes, through
// another entry point / rule / orientation, the identical call, or an unrelated path; each of
// them possibly aborted by its geometry builder at the k-th vertex, and each read by a builder
// with its own habits (`Query`). Every call of the history is itself a fill: its vertices are
// checked like those of the last call.

#[derive(Clone, Debug)]
struct HStep {
    spec: Spec,
    at: AttrSpec,
    cfg: Cfg,
    q: Query,
    kind: &'static str,
}

#[derive(Clone, Debug)]
struct Hist {
    steps: Vec<HStep>,
    /// how the builder of the call under test reads its vertices (never refuses, asks every vertex)
    q: Query,
}

/// new attribute values (same count, same kind) for the same endpoints
fn regen_attrs(rng: &mut Rng, spec: &Spec, n: usize) -> AttrSpec {
    let pts = spec.endpoints();
    if n > 0 && rng.chance(1, 3) {
        let co: Vec<[f32; 3]> = (0..n)
            .map(|_| [rng.range(-8, 8) as f32 * 0.5, rng.range(-4, 4) as f32 * 0.25, rng.range(-4, 4) as f32 * 0.25])
            .collect();
        let values = pts.iter().map(|p| co.iter().map(|c| c[0] + c[1] * p.x + c[2] * p.y).collect()).collect();
        AttrSpec { n, values, affine: Some(co) }
    } else {
        let values = pts.iter().map(|_| (0..n).map(|_| rng.range(-64, 64) as f32 * 0.25).collect()).collect();
        AttrSpec { n, values, affine: None }
    }
}

impl Hist {
    fn fresh() -> Hist {
        Hist { steps: Vec::new(), q: Query::PLAIN }
    }

    /// Drawn from the case's RNG AFTER everything else, so that (seed, case id) regenerates the
    /// same path, attributes and configuration as before histories were added.
    fn gen(rng: &mut Rng, spec: &Spec, at: &AttrSpec, cfg: &Cfg) -> Hist {
        let q = Query { reps: 1 + rng.below(3) as u8, order: rng.below(3) as u8, mask: u64::MAX, refuse: 0, look_first: false };
        let mut steps = Vec::new();
        if rng.chance(1, 2) {
            for _ in 0..rng.range(1, 3) {
                let (s, a, c, kind) = match rng.below(8) {
                    0 | 1 | 2 => (spec.clone(), regen_attrs(rng, spec, at.n), *cfg, "same-geometry-other-values"),
                    3 => {
                        let a = gen_attrs(rng, spec);
                        let mut c = *cfg;
                        if rng.chance(1, 2) {
                            c.entry = rng.below(3) as usize;
                        }
                        (spec.clone(), a, c, "same-geometry-other-count")
                    }
                    4 => (spec.clone(), at.clone(), Cfg::gen(rng).for_spec(spec), "same-geometry-other-entry"),
                    5 => (spec.clone(), at.clone(), *cfg, "same-call"),
                    _ => {
                        let s = gen_spec(rng);
                        let a = gen_attrs(rng, &s);
                        let c = Cfg::gen(rng).for_spec(&s);
                        (s, a, c, "other-path")
                    }
                };
                let mask = match rng.below(4) {
                    0 | 1 => u64::MAX,
                    2 => rng.next(),
                    _ => rng.next() & rng.next() & rng.next(),
                };
                let refuse = if rng.chance(1, 3) { rng.range(1, 12) as usize } else { 0 };
                let sq = Query { reps: 1 + rng.below(3) as u8, order: rng.below(3) as u8, mask, refuse, look_first: rng.chance(1, 2) };
                steps.push(HStep { spec: s, at: a, cfg: c, q: sq, kind });
            }
        }
        Hist { steps, q }
    }

    fn tag(&self) -> String {
        if self.steps.is_empty() {
            return "hist=fresh".to_string();
        }
        let same = self.steps.iter().any(|s| s.kind != "other-path");
        let aborted = self.steps.iter().any(|s| s.q.refuse != 0);
        format!("hist=used{}{}", if same { "+same-geometry" } else { "" }, if aborted { "+aborted" } else { "" })
    }

    fn describe(&self) -> String {
        let mut v: Vec<String> = self.steps.iter().map(|s| format!("{}:{}:attrs={}:{}", s.kind, s.cfg.name().replace(' ', "-"), s.at.n, s.q.name())).collect();
        v.push(format!("under-test:{}", self.q.name()));
        v.join(",")
    }
}

struct CaseRun {
    /// the calls of the history, in order
    hist: Vec<Run>,
    /// the call under test
    main: Run,
}

/// the history's calls, then the call under test, all on ONE tessellator object
fn run_case(spec: &Spec, at: &AttrSpec, cfg: &Cfg, hist: &Hist) -> CaseRun {
    let mut tess = FillTessellator::new();
    let mut runs = Vec::new();
    for s in &hist.steps {
        runs.push(fill_on(&mut tess, &s.spec, &s.at, &s.cfg, s.q));
    }
    let main = fill_on(&mut tess, spec, at, cfg, hist.q);
    CaseRun { hist: runs, main }
}

// ---------------------------------------------------------------------------------------------
// The oracle

struct Geom {
    a: Point,
    seg: Seg,
}

fn lerp64(a: Point, b: Point, t: f64) -> (f64, f64) {
    ((1.0 - t) * a.x as f64 + t * b.x as f64, (1.0 - t) * a.y as f64 + t * b.y as f64)
}

fn dist64(p: (f64, f64), q: Point) -> f64 {
    ((p.0 - q.x as f64).powi(2) + (p.1 - q.y as f64).powi(2)).sqrt()
}

/// parameter of the orthogonal projection of `p` on A→B and its distance to the line
fn project(a: Point, b: Point, p: Point) -> (f64, f64) {
    let (ax, ay, bx, by, px, py) = (a.x as f64, a.y as f64, b.x as f64, b.y as f64, p.x as f64, p.y as f64);
    let (dx, dy) = (bx - ax, by - ay);
    let l2 = dx * dx + dy * dy;
    if l2 == 0.0 {
        return (0.0, ((px - ax).powi(2) + (py - ay).powi(2)).sqrt());
    }
    let u = ((px - ax) * dx + (py - ay) * dy) / l2;
    let d = ((px - ax) * dy - (py - ay) * dx).abs() / l2.sqrt();
    (u, d)
}

/// does source `s` place its vertex on the edge `from → to` at (about) parameter `tw`?
fn src_mentions_edge(s: &VertexSource, from: EndpointId, to: EndpointId, tw: f64, slack: f64) -> bool {
    match s {
        VertexSource::Edge { from: f, to: t, t: ts } => *f == from && *t == to && (*ts as f64 - tw).abs() <= slack,
        // (W is strictly inside the edge, so an endpoint source never stands for the edge)
        VertexSource::Endpoint { .. } => false,
    }
}

/// Witness class of a wrong edge-source parameter.
///
/// `split-at-vertex-then-cut`: the input edge A→B carries, strictly inside, another output vertex
/// W that does not list the edge among its sources (the edge was split there by the
/// `edges_to_split` branch, which creates no edge record), and both W and the reported parameter
/// lie on the same side of the vertex's true parameter (the part of the edge beyond W was cut
/// again and remapped against the stale range start).
fn classify(verts: &[VRec], vi: usize, a: Point, b: Point, from: EndpointId, to: EndpointId, t: f64, wtol: f64, t0: f64, t1: f64) -> &'static str {
    // `a → b` is the input edge (t0 = 0, t1 = 1) or the chord of a flattened curve carrying the
    // parameters t0..t1; `t` is the reported parameter as a fraction of the chord
    let (ustar, _) = project(a, b, verts[vi].pos);
    for (wi, w) in verts.iter().enumerate() {
        if wi == vi {
            continue;
        }
        let (uw, dw) = project(a, b, w.pos);
        if !(uw > 0.0 && uw < 1.0) || dw > wtol {
            continue;
        }
        let tw = t0 + uw * (t1 - t0);
        if w.sources.iter().any(|s| src_mentions_edge(s, from, to, tw, 0.02 * (t1 - t0).abs() + 1e-4)) {
            continue;
        }
        if (uw - ustar) * (t - ustar) > 0.0 {
            return "split-at-vertex-then-cut";
        }
    }
    "generic"
}

/// Witness class `beyond-edge-end` of an edge-source parameter outside `[0,1]` (finding
/// `C07-split-parameter-beyond-edge-end`, fixed by lyon 96af7b62: the class names regressions): the input edge A→B is flatter than 45 degrees in sweep
/// space, so `split_edge` (`process_edges_above`) and `merge_coincident_edges` locate their split
/// point along x (`solve_t_for_x`); some output vertex W is treated as lying on the edge although
/// its sweep-x is BEYOND the edge's x-extent: W is within half the tolerance (+ rounding) of the
/// carrier line, between the edge's ends in sweep order, but beyond one of them in x
/// (`is_edge_connecting` accepts `max_x + threshold >= x`; for two coincident pending edges the
/// flatter one that ends earlier in sweep order may reach further in x, on either side). The reported parameter
/// lies between the end of the range and W's own x-parameter `(W.x - A.x) / (B.x - A.x)` (equal to
/// it when the vertex is W itself; in between when the sliver W→end was cut again).
fn beyond_edge_end(verts: &[VRec], a: Point, b: Point, t: f64, o: Orientation, half_tol: f64, lt: f64) -> bool {
    let (sa, sb) = (sweep(a, o), sweep(b, o));
    let (dx, dy) = (sb.x as f64 - sa.x as f64, sb.y as f64 - sa.y as f64);
    if !(dy.abs() < dx.abs()) {
        return false;
    }
    let (upper, lower) = if is_after(sa, sb) { (sb, sa) } else { (sa, sb) };
    verts.iter().any(|w| {
        let sw = sweep(w.pos, o);
        if is_after(sw, lower) || is_after(upper, sw) || project(a, b, w.pos).1 > half_tol + lt {
            return false;
        }
        // W's parameter along x is outside [0,1] although W is between the ends in sweep order
        let tw = (sw.x as f64 - sa.x as f64) / dx;
        let slack = 1e-5 + 1e-3 * (tw - tw.clamp(0.0, 1.0)).abs();
        (tw > 1.0 && t > 1.0 && t <= tw + slack) || (tw < 0.0 && t < 0.0 && t >= tw - slack)
    })
}

/// position in sweep space (`Orientation::Horizontal` rotates the input by a quarter turn)
fn sweep(p: Point, o: Orientation) -> Point {
    match o {
        Orientation::Vertical => p,
        Orientation::Horizontal => point(-p.y, p.x),
    }
}

fn is_after(a: Point, b: Point) -> bool {
    a.y > b.y || (a.y == b.y && a.x > b.x)
}

/// A→B is level (sweep-horizontal) and `v` is on its carrier line (up to the rounding envelope `lt`)
fn inside_level(a: Point, b: Point, v: Point, o: Orientation, lt: f64) -> bool {
    let (a, b, v) = (sweep(a, o), sweep(b, o), sweep(v, o));
    let lt = lt as f32;
    (a.y - b.y).abs() <= lt && (v.y - a.y).abs() <= lt
}

/// `collinear-curve`: the flattened curve lies on one straight line (every flattening point within
/// the rounding envelope `lt` of the line through its two extreme points): a degenerate curve,
/// straight or retracing itself. Its chords are collinear with each other — coincident where the
/// curve backtracks (several pieces of the SAME source edge, identical `from_id → to_id`, different
/// parameters) — and an ulp off the line, so that crossings of neighbouring chords are
/// ill-conditioned. Determined by the input curve alone.
fn collinear_curve(flat: &[(Point, Point, f32, f32)], lt: f64) -> bool {
    let pts: Vec<Point> = flat.iter().flat_map(|(a, b, _, _)| [*a, *b]).collect();
    if pts.len() < 4 {
        // a single chord: the curve is flattened like a line segment
        return false;
    }
    let (mut p, mut q, mut best) = (pts[0], pts[0], -1.0f64);
    for a in &pts {
        for b in &pts {
            let d = dist64((a.x as f64, a.y as f64), *b);
            if d > best {
                best = d;
                p = *a;
                q = *b;
            }
        }
    }
    if !(best > 0.0) || pts.iter().any(|r| project(p, q, *r).1 > lt) {
        return false;
    }
    true
}

/// another output vertex within `r` of vertex `vi`
fn has_twin(verts: &[VRec], vi: usize, r: f64) -> bool {
    let v = verts[vi].pos;
    verts.iter().enumerate().any(|(wi, w)| wi != vi && dist64((w.pos.x as f64, w.pos.y as f64), v) <= r)
}

/// Class of a wrong parameter on a level (sweep-horizontal) edge or chord A→B whose carrier line
/// holds `v`. `level-edge-rounding`: rounding is visibly involved — the chord itself is not exactly
/// level (jittered flattening of a degenerate curve), or some output vertex on the carrier line is
/// rounded off the level (an intersection with a level edge computed an ulp above or below it,
/// which changes `is_after` / `compare_positions` decisions along the edge: cut-off parts get
/// flipped, the "lower" of two coincident edges is not the longer one, parameters are extrapolated).
/// `coincident-level-edges`: everything exactly level — the defect repaired by 456c058b, a regression.
fn level_class(a: Point, b: Point, v: Point, verts: &[VRec], o: Orientation, lt: f64) -> Option<&'static str> {
    if !inside_level(a, b, v, o, lt) {
        return None;
    }
    let (sa, sb) = (sweep(a, o), sweep(b, o));
    let jitter = sa.y != sb.y
        || verts.iter().any(|w| {
            let dy = (sweep(w.pos, o).y - sa.y).abs() as f64;
            dy > 0.0 && dy <= lt
        });
    Some(if jitter { "level-edge-rounding" } else { "coincident-level-edges" })
}

/// Witness class of an endpoint source (or `as_endpoint_id`) that is not at the vertex.
///
/// `reversed-curve`: `id` is one end of a curve whose start is after its end in sweep order and
/// the vertex is at (within the tolerance of) the curve's other end (the event queue flattens such a curve from its end and
/// stores the parameters of the flipped curve with the unflipped endpoint ids).
/// `coincident-level-edges`: the vertex lies on a level (sweep-horizontal) input edge (or level
/// chord of a flattened curve) that has `id` as an end (`merge_coincident_edges` computes the split parameter with
/// `solve_t_for_y`, which is 0 for a level edge).
fn classify_endpoint(geom: &HashMap<(u32, u32), Geom>, pid: Point, v: Point, o: Orientation, tol: f32, lt: f64, id: u32, verts: &[VRec], vi: usize) -> &'static str {
    let mut keys: Vec<&(u32, u32)> = geom.keys().collect();
    keys.sort();
    for k in &keys {
        let g = &geom[*k];
        let (a, b) = (g.a, g.seg.to());
        let near = |p: Point, q: Point| dist64((p.x as f64, p.y as f64), q) <= tol as f64 + lt;
        if g.seg.is_curve() && is_after(sweep(a, o), sweep(b, o)) && ((a == pid && near(b, v)) || (b == pid && near(a, v))) {
            return "reversed-curve";
        }
    }
    for k in &keys {
        let g = &geom[*k];
        if g.a == pid || g.seg.to() == pid {
            let mut cls: Vec<&'static str> = flatten_seg(g.a, &g.seg, false, tol, o).iter().chain(flatten_seg(g.a, &g.seg, true, tol, o).iter()).filter_map(|(pa, pb, _, _)| level_class(*pa, *pb, v, verts, o, lt)).collect();
            cls.sort();
            if let Some(c) = cls.last() {
                // (`level-edge-rounding` sorts after `coincident-level-edges`: jitter anywhere wins)
                return c;
            }
        }
    }
    // `double-flip-vertex-event`: `process_intersection` flipped both cut-off parts (rounding at
    // large magnitudes) and inserted `vertex_event_sorted(intersection, b.to_id)`: a vertex event
    // carrying the id of the lower end of an edge, at the intersection position on that edge,
    // an ulp away from the vertex of the intersection itself
    for k in &keys {
        let g = &geom[*k];
        if !g.seg.is_curve() && k.1 == id {
            let (u, d) = project(g.a, g.seg.to(), v);
            let twin = verts.iter().enumerate().any(|(wi, w)| wi != vi && dist64((w.pos.x as f64, w.pos.y as f64), v) <= 8.0 * lt);
            if u > 0.0 && u < 1.0 && d <= lt && twin && verts[vi].sources.len() == 1 {
                return "double-flip-vertex-event";
            }
        }
    }
    "generic"
}

fn unsweep(p: Point, o: Orientation) -> Point {
    match o {
        Orientation::Vertical => p,
        Orientation::Horizontal => point(p.y, -p.x),
    }
}

/// the tessellator's own flattening of a curve (in sweep space, with the tolerance of the fill
/// options), mapped back to input space: pieces (from, to, t0, t1)
fn flatten_seg(a: Point, seg: &Seg, flipped: bool, tol: f32, o: Orientation) -> Vec<(Point, Point, f32, f32)> {
    let mut v = Vec::new();
    match seg {
        Seg::Line(b) => v.push((a, *b, 0.0, 1.0)),
        Seg::Quad(c, b) => {
            let mut q = QuadraticBezierSegment { from: sweep(a, o), ctrl: sweep(*c, o), to: sweep(*b, o) };
            if flipped {
                std::mem::swap(&mut q.from, &mut q.to);
            }
            q.for_each_flattened_with_t(tol, &mut |l, t| v.push((unsweep(l.from, o), unsweep(l.to, o), t.start, t.end)));
        }
        Seg::Cubic(c1, c2, b) => {
            let mut q = CubicBezierSegment { from: sweep(a, o), ctrl1: sweep(*c1, o), ctrl2: sweep(*c2, o), to: sweep(*b, o) };
            if flipped {
                std::mem::swap(&mut q.from, &mut q.to);
                std::mem::swap(&mut q.ctrl1, &mut q.ctrl2);
            }
            q.for_each_flattened_with_t(tol, &mut |l, t| v.push((unsweep(l.from, o), unsweep(l.to, o), t.start, t.end)));
        }
    }
    v
}

/// the piece of a flattening that carries parameter `t`, and the point at `t` on it
fn at_param(flat: &[(Point, Point, f32, f32)], t: f64) -> Option<(Point, Point, f64, (f64, f64), f64, f64)> {
    let mut best = None;
    for (a, b, t0, t1) in flat {
        let (t0, t1) = (*t0 as f64, *t1 as f64);
        if t >= t0 - 1e-6 && t <= t1 + 1e-6 && t1 > t0 {
            let u = ((t - t0) / (t1 - t0)).max(0.0).min(1.0);
            best = Some((*a, *b, u, lerp64(*a, *b, u), t0, t1));
            if t < t1 {
                break;
            }
        }
    }
    best
}

/// Collects every failing clause of a case; a failure of an unlisted (`generic`) class takes
/// precedence over failures of the narrow classes of known findings, so that a known defect
/// occurring in the same case never hides a different violation.
struct Fails(Vec<(String, String, String)>);

impl Fails {
    fn check(&mut self, cond: bool, clause: &str, class: &str, detail: impl FnOnce() -> String) {
        if !cond && self.0.len() < 64 {
            self.0.push((clause.to_string(), class.to_string(), detail()));
        }
    }
    fn failed_generic(&self) -> bool {
        self.0.iter().any(|f| f.1 == "generic")
    }
    fn into_oracle(self, orc: &mut Oracle) {
        let pick = self.0.iter().find(|f| f.1 == "generic").or(self.0.first());
        if let Some((clause, class, detail)) = pick {
            orc.check(false, clause, class, || detail.clone());
        }
    }
}

/// the input edge (or curve) an edge source names
// (an edge following a repeated point / a curve that flattens to nothing keeps the id of the first
// copy of the point: the builders return early without advancing `prev_endpoint_id`; such an edge
// is identified through its `to` id and the position of its start)
fn find_geom<'a>(geom: &'a HashMap<(u32, u32), Geom>, pos_of: &HashMap<u32, Point>, from: EndpointId, to: EndpointId) -> Option<&'a Geom> {
    geom.get(&(from.0, to.0)).or_else(|| {
        let (pf, pt) = (pos_of.get(&from.0)?, pos_of.get(&to.0)?);
        let mut c: Vec<(&(u32, u32), &Geom)> = geom.iter().filter(|(k, g)| k.1 == to.0 && g.a == *pf && g.seg.to() == *pt).collect();
        c.sort_by_key(|(k, _)| **k);
        c.first().map(|(_, g)| *g)
    })
}

/// distance between a vertex and the point its edge source names: `lerp(from, to, t)` for a line,
/// the point at parameter t of the tessellator's own flattening for a curve (either direction of
/// flattening for a curve drawn against the sweep)
fn source_deviation(g: &Geom, t: f64, v: Point, cfg: &Cfg) -> f64 {
    match &g.seg {
        Seg::Line(b) => dist64(lerp64(g.a, *b, t), v),
        curve => {
            let flat = flatten_seg(g.a, curve, false, cfg.tol, cfg.orientation);
            let mut d = at_param(&flat, t).map_or(f64::INFINITY, |h| dist64(h.3, v));
            if is_after(sweep(g.a, cfg.orientation), sweep(curve.to(), cfg.orientation)) {
                let rflat = flatten_seg(g.a, curve, true, cfg.tol, cfg.orientation);
                d = d.min(at_param(&rflat, 1.0 - t).map_or(f64::INFINITY, |h| dist64(h.3, v)));
            }
            d
        }
    }
}

/// `is_near` of fill.rs: an intersection within this distance of an edge end is moved onto it
const SNAP: f64 = 3.1623e-5;

fn check_run(spec: &Spec, at: &AttrSpec, cfg: &Cfg, run: &Run, orc: &mut Oracle) {
    let mut f = Fails(Vec::new());
    check_run_inner(spec, at, cfg, run, &mut f, true);
    f.into_oracle(orc);
}

/// The property at every vertex of every call made on the case's tessellator object: the calls of
/// the history first (each is a fill like any other), then the call under test. Returns `false`
/// when the call under test ended with an error (nothing to say about it).
///
/// A call that its geometry builder aborted handed over only the first k vertices: the clauses
/// that need no other vertex are evaluated on them (at least one source, attribute count,
/// attributes = average over the reported sources); the position clauses are evaluated on
/// complete calls only, because the witness classes of the listed findings are predicates over
/// the complete vertex list.
fn check_case(spec: &Spec, at: &AttrSpec, cfg: &Cfg, hist: &Hist, runs: &CaseRun, orc: &mut Oracle) -> bool {
    let mut f = Fails(Vec::new());
    let n = hist.steps.len();
    for (i, (s, r)) in hist.steps.iter().zip(runs.hist.iter()).enumerate() {
        let aborted = s.q.refuse != 0 && r.err.is_some();
        if r.err.is_some() && !aborted {
            continue;
        }
        let mut g = Fails(Vec::new());
        check_run_inner(&s.spec, &s.at, &s.cfg, r, &mut g, !aborted);
        for (clause, class, detail) in g.0 {
            if f.0.len() < 64 {
                f.0.push((clause, class, format!("call {} of {} on this tessellator ({} {} {}{}): {}", i + 1, n + 1, s.kind, s.cfg.name().replace(' ', "-"), s.q.name(), if aborted { " aborted" } else { "" }, detail)));
            }
        }
    }
    let main_ok = runs.main.err.is_none();
    if main_ok {
        let mut g = Fails(Vec::new());
        check_run_inner(spec, at, cfg, &runs.main, &mut g, true);
        for (clause, class, detail) in g.0 {
            if f.0.len() < 64 {
                let d = if n == 0 { detail } else { format!("call {} of {} on this tessellator (after {}): {}", n + 1, n + 1, hist.describe(), detail) };
                f.0.push((clause, class, d));
            }
        }
    }
    f.into_oracle(orc);
    main_ok
}

fn check_run_inner(spec: &Spec, at: &AttrSpec, cfg: &Cfg, run: &Run, orc: &mut Fails, full: bool) {
    let scale = spec.scale();
    // position envelope = rounding + fill tolerance.  Rounding: the tessellator snaps an
    // intersection to an edge end within 3.2e-5 (`is_near`), plus 64 ulp of the magnitude.
    // Tolerance (precondition of the oracle, stated in conf/C07.json): the fill tessellator treats
    // a vertex within its tolerance of an edge as lying on the edge (documented use of
    // `FillOptions::tolerance`), so a source may place a vertex up to the tolerance away from the
    // exact `lerp`; the generators keep the tolerance at 0.0125 % – 0.125 % of the path's extent,
    // far below the error of any wrong parameter seen so far.
    let env = 4e-5 + 64.0 * EPS32 * scale + cfg.tol as f64;
    let lvl = 4e-5 + 64.0 * EPS32 * scale;
    let pts = spec.endpoints();
    if std::env::var("C07_DUMP").is_ok() {
        eprintln!("spec {:?}\nids {:?}", spec, run.ids);
        for (vi, v) in run.verts.iter().enumerate() {
            eprintln!("vertex {} at {:?} sources {:?} attrs {:?}", vi, v.pos, v.sources, v.attrs);
            for r in &v.recs {
                eprintln!("     rec {:?}", r);
            }
        }
    }
    for (vi, v) in run.verts.iter().enumerate() {
        orc.check(!v.sources.is_empty(), "fill.vertex/at-least-one-source", "generic", || format!("vertex {} at {:?} has no source", vi, v.pos));
    }
    let ids = match &run.ids {
        Some(i) => i,
        None => return,
    };
    let mut pos_of: HashMap<u32, Point> = HashMap::new();
    let mut attr_of: HashMap<u32, &Vec<f32>> = HashMap::new();
    for (k, id) in ids.iter().enumerate() {
        pos_of.insert(*id, pts[k]);
        attr_of.insert(*id, &at.values[k]);
    }
    let mut geom: HashMap<(u32, u32), Geom> = HashMap::new();
    let mut k = 0usize;
    for s in &spec.subs {
        let first = k;
        let mut prev = s.start;
        for g in &s.segs {
            geom.insert((ids[k], ids[k + 1]), Geom { a: prev, seg: g.clone() });
            prev = g.to();
            k += 1;
        }
        if k > first {
            geom.entry((ids[k], ids[first])).or_insert(Geom { a: prev, seg: Seg::Line(s.start) });
        }
        k += 1;
    }
    let maxattr = at.values.iter().flat_map(|v| v.iter()).fold(1.0f64, |m, x| m.max(x.abs() as f64));
    // Snaps compound. A cut that `is_near` moved onto an edge end (up to SNAP away from the edge
    // being cut) becomes the start of the remaining part of that edge: the part is displaced by up
    // to SNAP at its start (nothing at its far end), and a later cut of it is computed on the
    // displaced part and may be snapped again. `env` covers ONE snap. For each input edge, the
    // vertices that list it visibly off their own point (beyond rounding: `lvl - 4e-5`) are the
    // evidence of such displaced cuts; every one of them (at most two are counted) adds one SNAP to
    // what the OTHER vertices listing the same edge are allowed. (Seen only on paths a few
    // thousand SNAPs across: thin spikes at extent 0.01 crossed twice near the apex.)
    let mut displaced: HashMap<(u32, u32), Vec<usize>> = HashMap::new();
    if full {
        for (vi, v) in run.verts.iter().enumerate() {
            for s in &v.sources {
                if let VertexSource::Edge { from, to, t } = *s {
                    if let Some(g) = find_geom(&geom, &pos_of, from, to) {
                        let d = source_deviation(g, t as f64, v.pos, cfg);
                        if d > lvl - 4e-5 && d <= env {
                            let e = displaced.entry((from.0, to.0)).or_default();
                            if !e.contains(&vi) {
                                e.push(vi);
                            }
                        }
                    }
                }
            }
        }
    }
    let env_base = env;
    for (vi, v) in run.verts.iter().enumerate() {
        let before = orc.0.len();
        // (the widest position allowance among this vertex's sources: the affine clause is about the same positions)
        let mut venv = env_base;
        // --- every source lies where it says
        for s in v.sources.iter().filter(|_| full) {
            match *s {
                VertexSource::Endpoint { id } => match pos_of.get(&id.0) {
                    None => orc.check(false, "fill.vertex/endpoint-source-known", "generic", || format!("vertex {} source endpoint {} is not an endpoint of the path", vi, id.0)),
                    Some(p) => {
                        // exact, up to the rounding of an intersection that lands on the endpoint
                        // (its parameter rounds to 0 or 1 while its position is an ulp off; then
                        // the endpoint's own vertex, or the intersection's, is a distinct vertex
                        // within a few ulps)
                        if *p != v.pos && !(dist64((p.x as f64, p.y as f64), v.pos) <= lvl && has_twin(&run.verts, vi, 8.0 * lvl)) {
                            let class = classify_endpoint(&geom, *p, v.pos, cfg.orientation, cfg.tol, lvl, id.0, &run.verts, vi);
                            orc.check(false, "fill.vertex/endpoint-source-position", class, || {
                                format!("vertex {} at {:?} lists endpoint {} which is at {:?}", vi, v.pos, id.0, p)
                            });
                        }
                    }
                },
                VertexSource::Edge { from, to, t } => match find_geom(&geom, &pos_of, from, to) {
                    None => orc.check(false, "fill.vertex/edge-source-known", "generic", || format!("vertex {} source edge {}->{} is not an edge of the path", vi, from.0, to.0)),
                    Some(g) => {
                        let tt = t as f64;
                        let earlier_snaps = displaced.get(&(from.0, to.0)).map_or(0, |l| l.iter().filter(|wi| **wi != vi).count().min(2));
                        let env = env_base + SNAP * earlier_snaps as f64;
                        venv = venv.max(env);
                        let range_ok = tt.is_finite() && tt >= -1e-6 && tt <= 1.0 + 1e-6;
                        let clause = |c: &'static str| if range_ok { c } else { "fill.vertex/edge-source-parameter-range" };
                        match &g.seg {
                            Seg::Line(b) => {
                                let q = lerp64(g.a, *b, tt);
                                let d = dist64(q, v.pos);
                                if !(d <= env) || !range_ok {
                                    // (the narrow rounding class first: the split defect is repaired,
                                    // its predicate only names regressions)
                                    let lc = level_class(g.a, *b, v.pos, &run.verts, cfg.orientation, lvl);
                                    // narrow: the vertex IS the point at parameter t of the edge's carrier line, but t is
                                    // outside [0,1] (an extrapolated, flipped cut-off part)
                                    let mut class = if lc == Some("level-edge-rounding") && !range_ok && d <= env { "level-edge-rounding" } else { "generic" };
                                    // narrow: the parameter is extrapolated (the vertex IS at `lerp(t)` up to the envelope)
                                    // because a vertex beyond the x-extent of a flat edge was accepted as lying on it
                                    // (disjoint from the repaired split defect, whose parameter was in range and off the vertex)
                                    if class == "generic" && !range_ok && d <= env && beyond_edge_end(&run.verts, g.a, *b, tt, cfg.orientation, 0.5 * cfg.tol as f64, lvl) {
                                        class = "beyond-edge-end";
                                    }
                                    if class == "generic" {
                                        class = classify(&run.verts, vi, g.a, *b, from, to, tt, env + cfg.tol as f64 + 1e-3, 0.0, 1.0);
                                    }
                                    if class == "generic" {
                                        class = lc.unwrap_or("generic");
                                    }
                                    orc.check(false, clause("fill.vertex/edge-source-position"), class, || {
                                        format!("vertex {} at {:?}: edge {:?}->{:?} t = {} is ({:.6},{:.6}), {:.3e} away (allowed {:.1e})", vi, v.pos, g.a, b, t, q.0, q.1, d, env)
                                    });
                                }
                            }
                            curve => {
                                // the vertex is the point at parameter t of the tessellator's own
                                // flattening of the curve (piecewise linear in t; every piece within
                                // the tolerance of the curve)
                                let flat = flatten_seg(g.a, curve, false, cfg.tol, cfg.orientation);
                                let hit = at_param(&flat, tt);
                                if std::env::var("C07_DUMP").is_ok() {
                                    eprintln!("  flat {:?} hit {:?}", flat, hit);
                                }
                                let mut d = hit.map_or(f64::INFINITY, |h| dist64(h.3, v.pos));
                                let reversed = is_after(sweep(g.a, cfg.orientation), sweep(curve.to(), cfg.orientation));
                                let rflat = flatten_seg(g.a, curve, true, cfg.tol, cfg.orientation);
                                if reversed && !(d <= env) {
                                    // a curve drawn against the sweep is flattened from its end: the
                                    // flattening of the flipped curve, read at 1 - t, is the same
                                    // polyline with the parameter measured from `from`
                                    d = d.min(at_param(&rflat, 1.0 - tt).map_or(f64::INFINITY, |h| dist64(h.3, v.pos)));
                                }
                                if !(d <= env) || !range_ok {
                                    let rhit = at_param(&rflat, tt);
                                    let mut lv: Vec<&'static str> = flat.iter().chain(rflat.iter()).filter_map(|(pa, pb, _, _)| level_class(*pa, *pb, v.pos, &run.verts, cfg.orientation, lvl)).collect();
                                    lv.sort();
                                    // the chord that carries the reported parameter, under each
                                    // reading of it (measured from `from` / as stored before 8662f1bc)
                                    let mut cands = vec![hit, rhit];
                                    if reversed {
                                        cands.push(at_param(&rflat, 1.0 - tt).map(|h| (h.1, h.0, 1.0 - h.2, h.3, 1.0 - h.5, 1.0 - h.4)));
                                    }
                                    let class = if collinear_curve(&flat, lvl) {
                                        "collinear-curve"
                                    } else if cands.iter().flatten().any(|(pa, pb, u, _, t0, t1)| {
                                        classify(&run.verts, vi, *pa, *pb, from, to, *u, env + cfg.tol as f64 + 1e-3, *t0, *t1) != "generic"
                                    }) {
                                        "split-at-vertex-then-cut"
                                    } else if reversed && rhit.map_or(false, |h| dist64(h.3, v.pos) <= env) {
                                        // the defect repaired by 8662f1bc: a regression
                                        "reversed-curve"
                                    } else {
                                        lv.last().copied().unwrap_or("generic")
                                    };
                                    orc.check(false, clause("fill.vertex/curve-source-position"), class, || {
                                        format!("vertex {} at {:?}: curve from {:?} {:?} t = {}: flattened curve at t is {:?}, {:.3e} away (allowed {:.1e})", vi, v.pos, g.a, curve, t, hit.map(|h| h.3), d, env)
                                    });
                                }
                            }
                        }
                    }
                },
            }
        }
        if let (Some(id), true) = (v.ep, full) {
            let good = pos_of.get(&id.0).map_or(false, |p| *p == v.pos || (dist64((p.x as f64, p.y as f64), v.pos) <= lvl && has_twin(&run.verts, vi, 8.0 * lvl)));
            let class = if good { "generic" } else { pos_of.get(&id.0).map_or("generic", |p| classify_endpoint(&geom, *p, v.pos, cfg.orientation, cfg.tol, lvl, id.0, &run.verts, vi)) };
            orc.check(good, "fill.vertex/as-endpoint-id-position", class, || {
                format!("vertex {} at {:?}: as_endpoint_id = {} which is at {:?}", vi, v.pos, id.0, pos_of.get(&id.0))
            });
        }
        if orc.failed_generic() {
            return;
        }
        // a wrong source of a listed class makes the attributes of this vertex wrong as a consequence
        let vclass: String = orc.0[before..].first().map_or("generic".to_string(), |f| f.1.clone());
        // --- interpolated attributes = average over the sources of the lerped endpoint attributes,
        //     at EVERY call of `interpolated_attributes()` on this vertex
        if at.n > 0 && !v.calls.is_empty() {
            for (ci, got) in v.calls.iter().enumerate() {
                orc.check(got.len() == at.n, "fill.vertex/attributes-count", "generic", || format!("vertex {} (query {} of {}): {} attributes, expected {}", vi, ci + 1, v.calls.len(), got.len(), at.n));
            }
            let mut exp = vec![0.0f64; at.n];
            let mut ok = true;
            for s in &v.sources {
                match *s {
                    VertexSource::Endpoint { id } => match attr_of.get(&id.0) {
                        Some(a) => (0..at.n).for_each(|j| exp[j] += a[j] as f64),
                        None => ok = false,
                    },
                    VertexSource::Edge { from, to, t } => match (attr_of.get(&from.0), attr_of.get(&to.0)) {
                        (Some(a), Some(b)) => (0..at.n).for_each(|j| exp[j] += a[j] as f64 * (1.0 - t as f64) + b[j] as f64 * t as f64),
                        _ => ok = false,
                    },
                }
            }
            if ok && !v.sources.is_empty() {
                let nsrc = v.sources.len() as f64;
                for (ci, got) in v.calls.iter().enumerate().filter(|(_, g)| g.len() == at.n) {
                    for j in 0..at.n {
                        let e = exp[j] / nsrc;
                        let allowed = 8.0 * EPS32 * maxattr * (nsrc + 1.0);
                        orc.check((got[j] as f64 - e).abs() <= allowed, "fill.vertex/attributes-average", "generic", || {
                            format!("vertex {} at {:?} (query {} of {}): attribute {} = {}, average over {} sources = {}", vi, v.pos, ci + 1, v.calls.len(), j, got[j], nsrc, e)
                        });
                    }
                }
            }
            // --- affine attributes are reproduced (polygonal paths)
            if let (Some(co), false, true) = (&at.affine, spec.has_curves(), full) {
                for j in 0..at.n.min(v.attrs.len()) {
                    let g = co[j][0] as f64 + co[j][1] as f64 * v.pos.x as f64 + co[j][2] as f64 * v.pos.y as f64;
                    let allowed = (co[j][1].abs() + co[j][2].abs()) as f64 * venv + 32.0 * EPS32 * maxattr;
                    orc.check((v.attrs[j] as f64 - g).abs() <= allowed, "fill.vertex/affine-attributes-reproduced", &vclass, || {
                        format!("vertex {} at {:?}: attribute {} = {}, affine function of the position = {} (allowed {:.1e})", vi, v.pos, j, v.attrs[j], g, allowed)
                    });
                }
            }
        }
    }
}

// ---------------------------------------------------------------------------------------------
// Families

fn put_source(o: &mut Out, s: &VertexSource) {
    match *s {
        VertexSource::Endpoint { id } => {
            o.t("E").u(id.0 as u64);
        }
        VertexSource::Edge { from, to, t } => {
            o.t("G").u(from.0 as u64).u(to.0 as u64).f(t);
        }
    }
}

fn fill_case(ctx: &mut Ctx) {
    ctx.case("fill", |rng| {
        let spec = gen_spec(rng);
        let at = gen_attrs(rng, &spec);
        let cfg = Cfg::gen(rng).for_spec(&spec);
        // (after everything else: the path, attributes and configuration of a (seed, case id) are
        // what they were before histories existed)
        let hist = Hist::gen(rng, &spec, &at, &cfg);
        let mut args = Out::new();
        args.t(&spec.kind).u(at.n as u64).t(&cfg.name().replace(' ', "-")).f(cfg.tol);
        for p in spec.all_points() {
            args.p(p);
        }
        args.t("history").u(hist.steps.len() as u64).t(&hist.describe());
        let trivial = spec.endpoints().len() < 3;
        // (the evidence keeps the most frequent tags: cases on a used object are tagged by their
        // history rather than by path kind x configuration, so that the share is visible there)
        let tag = if hist.steps.is_empty() {
            format!(
                "fill {} attrs={}{} {}{}",
                spec.kind,
                at.n,
                if at.affine.is_some() { " affine" } else { "" },
                cfg.name(),
                if trivial { " trivial" } else { "" }
            )
        } else {
            format!("fill used-object {} attrs={} {}{}", hist.tag(), if at.n > 0 { "some" } else { "0" }, ENTRIES[cfg.entry], if trivial { " trivial" } else { "" })
        };
        (args, tag, move || fill_verdict(&spec, &at, &cfg, &hist))
    });
}

/// run the history and the call under test on one object and evaluate the property on all of it
fn fill_verdict(spec: &Spec, at: &AttrSpec, cfg: &Cfg, hist: &Hist) -> CaseOut {
    let mut o = Out::new();
    let mut orc = Oracle::new();
    match vh::guarded(|| run_case(spec, at, cfg, hist)) {
        None => {
            o.t("panic-in-fill");
            orc.skip("tessellator-panic");
        }
        Some(runs) => {
            let run = &runs.main;
            if run.err.is_none() {
                let nsrc: usize = run.verts.iter().map(|v| v.sources.len()).sum();
                let nedge = run.verts.iter().flat_map(|v| v.sources.iter()).filter(|s| s.is_edge()).count();
                o.t("verts").u(run.verts.len() as u64).t("sources").u(nsrc as u64).t("edge-sources").u(nedge as u64);
            } else {
                o.t("err");
            }
            // (a failure in a call of the history is reported even when the call under test ended with an error)
            check_case(spec, at, cfg, hist, &runs, &mut orc);
            if let Some(e) = &run.err {
                orc.skip(&format!("tessellation-error {}", e.replace(' ', "_")));
            }
        }
    }
    CaseOut { imp: o, orcl: orc.verdict }
}

/// Tie of `sources()` / `as_endpoint_id()` / `interpolated_attributes()` to the model: the
/// tessellation runs while the case is generated (its sibling records are the case's input).
fn vertex_case(ctx: &mut Ctx) {
    ctx.case("vertex:32", |rng| {
        let spec = gen_spec(rng);
        let mut at = gen_attrs(rng, &spec);
        if at.n == 0 && rng.chance(2, 3) {
            at.n = 1 + rng.below(3) as usize;
            at.values = spec.endpoints().iter().map(|_| (0..at.n).map(|_| rng.uniform(-10.0, 10.0) as f32).collect()).collect();
        }
        let mut cfg = Cfg::gen(rng).for_spec(&spec);
        if cfg.entry == 1 && at.n == 0 {
            cfg.entry = 0;
        }
        // the object that produces the records and attributes handed to the model has a history
        // too (drawn last); the model's `interpolated_attributes` is a function of the vertex's
        // records and the store alone, so the tie decides that nothing else leaks in
        let hist = Hist::gen(rng, &spec, &at, &cfg);
        let runs = vh::guarded(|| run_case(&spec, &at, &cfg, &hist));
        let run = runs.as_ref().map(|r| &r.main);
        let mut args = Out::new();
        let mut imp = Out::new();
        let mut tag = if hist.steps.is_empty() {
            format!("vertex {} attrs={} {}", spec.kind, at.n, cfg.name())
        } else {
            format!("vertex used-object {} attrs={} {}", hist.tag(), if at.n > 0 { "some" } else { "0" }, ENTRIES[cfg.entry])
        };
        match run {
            Some(r) if r.err.is_none() && r.ids.is_some() => {
                let ids = r.ids.as_ref().unwrap();
                args.u(at.n as u64).u(ids.len() as u64);
                for (k, id) in ids.iter().enumerate() {
                    args.u(*id as u64);
                    for a in &at.values[k] {
                        args.f(*a);
                    }
                }
                args.u(r.verts.len() as u64);
                let mut multi = 0;
                for v in &r.verts {
                    args.u(v.recs.len() as u64);
                    for e in &v.recs {
                        args.f(e.range.start).f(e.range.end).u(e.from_id.0 as u64).u(e.to_id.0 as u64);
                    }
                    imp.t("v").u(v.sources.len() as u64);
                    for s in &v.sources {
                        put_source(&mut imp, s);
                    }
                    match v.ep {
                        None => imp.t("ep").t("none"),
                        Some(id) => imp.t("ep").u(id.0 as u64),
                    };
                    imp.t("a");
                    for a in &v.attrs {
                        imp.f(*a);
                    }
                    if v.sources.len() > 1 {
                        multi += 1;
                    }
                }
                tag += &format!(" multi-source={}", multi.min(3));
            }
            _ => {
                args.u(0).u(0).u(0);
                tag += " trivial no-output";
            }
        }
        (args, tag, move || {
            // the property itself on every call made on that object (the runs are part of the
            // generated case: they are not repeated here)
            let mut orc = Oracle::new();
            if let Some(r) = &runs {
                check_case(&spec, &at, &cfg, &hist, r, &mut orc);
            }
            CaseOut { imp, orcl: orc.verdict }
        })
    });
}

fn flat_quad(q: &QuadraticBezierSegment<f32>, tol: f32, o: &mut Out) {
    let mut v = Vec::new();
    q.for_each_flattened_with_t(tol, &mut |l, t| v.push((l.from, l.to, t.start, t.end)));
    o.u(v.len() as u64);
    for (a, b, t0, t1) in v {
        o.p(a).p(b).f(t0).f(t1);
    }
}

fn flat_cubic(c: &CubicBezierSegment<f32>, tol: f32, o: &mut Out) {
    let mut v = Vec::new();
    c.for_each_flattened_with_t(tol, &mut |l, t| v.push((l.from, l.to, t.start, t.end)));
    o.u(v.len() as u64);
    for (a, b, t0, t1) in v {
        o.p(a).p(b).f(t0).f(t1);
    }
}

#[derive(Clone, Debug)]
enum QOp {
    Begin(Point, u32),
    Line(Point, u32, f32, f32),
    Quad(Point, Point, u32),
    Cubic(Point, Point, Point, u32),
    End(Point, u32),
}

fn queue_case(ctx: &mut Ctx) {
    ctx.case("queue:32", |rng| {
        let tol = *rng.pick(&[0.05f32, 0.1, 0.25, 0.5]);
        let lattice = rng.chance(2, 3);
        let mut pt = |rng: &mut Rng| {
            if lattice {
                point(rng.range(0, 6) as f32, rng.range(0, 6) as f32)
            } else {
                point(rng.uniform(-10.0, 10.0) as f32, rng.uniform(-10.0, 10.0) as f32)
            }
        };
        let mut ops: Vec<QOp> = Vec::new();
        let mut id = 0u32;
        let mut curves = 0;
        let malformed = rng.chance(1, 10);
        for _ in 0..rng.range(1, 3) {
            let first = pt(rng);
            let first_id = id;
            ops.push(QOp::Begin(first, id));
            id += 1;
            let mut last = first;
            for _ in 0..rng.range(0, 5) {
                let to = if rng.chance(1, 8) { last } else { pt(rng) };
                match rng.below(6) {
                    0 => {
                        ops.push(QOp::Quad(pt(rng), to, id));
                        curves += 1
                    }
                    1 => {
                        ops.push(QOp::Cubic(pt(rng), pt(rng), to, id));
                        curves += 1
                    }
                    2 => {
                        // a sub-range of an edge, as a caller flattening its own curve would pass
                        let t0 = rng.range(0, 8) as f32 / 8.0;
                        let t1 = rng.range(0, 8) as f32 / 8.0;
                        ops.push(QOp::Line(to, id, t0, t1))
                    }
                    _ => ops.push(QOp::Line(to, id, 0.0, 1.0)),
                }
                last = to;
                id += 1;
            }
            if malformed && rng.chance(1, 2) {
                // no `end`: the next `begin` starts over
                continue;
            }
            ops.push(QOp::End(first, first_id));
            if malformed && rng.chance(1, 2) {
                ops.push(QOp::End(first, first_id));
            }
        }
        let mut args = Out::new();
        args.f(tol).u(ops.len() as u64);
        let mut cur = point(0.0f32, 0.0);
        for op in &ops {
            match op {
                QOp::Begin(p, i) => {
                    args.t("B").p(*p).u(*i as u64);
                    cur = *p;
                }
                QOp::Line(p, i, t0, t1) => {
                    args.t("L").p(*p).u(*i as u64).f(*t0).f(*t1);
                    cur = *p;
                }
                QOp::Quad(c, p, i) => {
                    args.t("Q").p(*c).p(*p).u(*i as u64);
                    let q = QuadraticBezierSegment { from: cur, ctrl: *c, to: *p };
                    flat_quad(&q, tol, &mut args);
                    flat_quad(&QuadraticBezierSegment { from: q.to, ctrl: q.ctrl, to: q.from }, tol, &mut args);
                    cur = *p;
                }
                QOp::Cubic(c1, c2, p, i) => {
                    args.t("C").p(*c1).p(*c2).p(*p).u(*i as u64);
                    let c = CubicBezierSegment { from: cur, ctrl1: *c1, ctrl2: *c2, to: *p };
                    flat_cubic(&c, tol, &mut args);
                    flat_cubic(&CubicBezierSegment { from: c.to, ctrl1: c.ctrl2, ctrl2: c.ctrl1, to: c.from }, tol, &mut args);
                    cur = *p;
                }
                QOp::End(p, i) => {
                    args.t("E").p(*p).u(*i as u64);
                    cur = *p;
                }
            }
        }
        let tag = format!(
            "queue {} ops={} curves={}{}{}",
            if lattice { "lattice" } else { "random" },
            ops.len().min(12),
            curves.min(3),
            if malformed { " malformed" } else { "" },
            if ops.len() < 3 { " trivial" } else { "" }
        );
        (args, tag, move || {
            let mut b = EventQueueBuilder::new(tol);
            for op in &ops {
                match op {
                    QOp::Begin(p, i) => b.begin(*p, EndpointId(*i)),
                    QOp::Line(p, i, t0, t1) => b.line_segment(*p, EndpointId(*i), *t0, *t1),
                    QOp::Quad(c, p, i) => b.quadratic_bezier_segment(*c, *p, EndpointId(*i)),
                    QOp::Cubic(c1, c2, p, i) => b.cubic_bezier_segment(*c1, *c2, *p, EndpointId(*i)),
                    QOp::End(p, i) => b.end(*p, EndpointId(*i)),
                }
            }
            let q = b.build();
            let recs = q.verif_dump();
            let mut o = Out::new();
            let mut orc = Oracle::new();
            o.u(recs.len() as u64);
            for r in &recs {
                o.t(if r.is_edge { "e" } else { "v" }).p(r.position);
                if r.is_edge {
                    o.p(r.to);
                }
                o.f(r.range.start).f(r.range.end).i(r.winding as i64).u(r.from_id.0 as u64).u(r.to_id.0 as u64);
                // every stored edge points downwards (the sweep relies on it)
                if r.is_edge {
                    let after = r.to.y > r.position.y || (r.to.y == r.position.y && r.to.x > r.position.x);
                    orc.check(after, "queue.add_edge/edge-points-down", "generic", || format!("{:?}", r));
                }
            }
            CaseOut { imp: o, orcl: orc.verdict }
        })
    });
}

fn remap_case(ctx: &mut Ctx) {
    ctx.case("remap:32", |rng| {
        let kind = rng.below(5);
        let g = |rng: &mut Rng| -> f32 {
            match kind {
                0 => rng.range(0, 16) as f32 / 16.0,
                1 => rng.unit() as f32,
                2 => rng.uniform(-1.0, 2.0) as f32,
                3 => *rng.pick(&[0.0f32, 1.0, 0.5, 0.25, 0.75]),
                _ => rng.log_uniform(-6.0, 1.0) as f32,
            }
        };
        let val = g(rng);
        let s = g(rng);
        let e = if rng.chance(1, 8) { s } else { g(rng) };
        let mut args = Out::new();
        args.f(val).f(s).f(e);
        let tag = format!("remap {} {}", ["dyadic", "unit", "outside", "ends", "wide"][kind as usize], if e > s { "forward" } else if e < s { "backward" } else { "empty" });
        (args, tag, move || {
            let r = verif_remap_t_in_range(val, s..e);
            let mut o = Out::new();
            o.f(r);
            let mut orc = Oracle::new();
            // remap(t, s..e) is the affine map 0 ↦ s, 1 ↦ e
            let exact = s as f64 + val as f64 * (e as f64 - s as f64);
            let m = 1.0f64.max(s.abs() as f64).max(e.abs() as f64).max(val.abs() as f64 * (e as f64 - s as f64).abs());
            orc.check((r as f64 - exact).abs() <= 8.0 * EPS32 * m * (1.0 + val.abs() as f64), "remap/affine", "generic", || format!("remap({}, {}..{}) = {} vs {}", val, s, e, r, exact));
            CaseOut { imp: o, orcl: orc.verdict }
        })
    });
}

/// Fixed regression inputs (always run first).
fn corpus(ctx: &mut Ctx) {
    // the property file's example: edge (0,0)→(0,10), a vertex of another sub-path at (0,5),
    // a crossing at (0,7.5)
    for orient in [Orientation::Vertical, Orientation::Horizontal] {
        for entry in 0..3usize {
            ctx.case("fill", |_rng| {
                let spec = Spec::poly(
                    vec![
                        (vec![point(0.0, 0.0), point(0.0, 10.0), point(-5.0, 5.0)], true),
                        (vec![point(0.0, 5.0), point(4.0, 4.0), point(4.0, 6.0)], true),
                        (vec![point(-2.0, 7.0), point(2.0, 8.0), point(2.0, 9.0)], true),
                    ],
                    "corpus-split-then-cut",
                );
                let co = vec![[1.0f32, 0.5, 0.25]];
                let values = spec.endpoints().iter().map(|p| vec![co[0][0] + co[0][1] * p.x + co[0][2] * p.y]).collect();
                let at = AttrSpec { n: 1, values, affine: Some(co) };
                let cfg = Cfg { rule: FillRule::NonZero, orientation: orient, tol: 0.1, entry };
                let mut args = Out::new();
                args.t(&spec.kind).u(1).t(&cfg.name().replace(' ', "-")).f(cfg.tol);
                let tag = format!("fill {} attrs=1 affine {}", spec.kind, cfg.name());
                (args, tag, move || {
                    let mut o = Out::new();
                    let mut orc = Oracle::new();
                    let run = run_fill(&spec, &at, &cfg);
                    o.t("verts").u(run.verts.len() as u64);
                    check_run(&spec, &at, &cfg, &run, &mut orc);
                    CaseOut { imp: o, orcl: orc.verdict }
                })
            });
        }
    }
}

/// Fixed witness of the finding `collinear-curve` (no longer observed since lyon 96af7b62: must pass): a cubic whose control points lie on the
/// level line y = 2 and which retraces itself (x: 7 → 4.81 → 5.52 → 8).
fn corpus_collinear(ctx: &mut Ctx) {
    ctx.case("fill", |_rng| {
        let spec = Spec {
            subs: vec![Sub { start: point(7.0, 2.0), segs: vec![Seg::Cubic(point(3.0, 2.0), point(5.0, 2.0), point(8.0, 2.0)), Seg::Line(point(5.0, 6.0))], closed: true }],
            kind: "corpus-collinear-curve".to_string(),
        };
        let at = AttrSpec { n: 0, values: spec.endpoints().iter().map(|_| vec![]).collect(), affine: None };
        let cfg = Cfg { rule: FillRule::EvenOdd, orientation: Orientation::Vertical, tol: 0.005, entry: 2 };
        let mut args = Out::new();
        args.t(&spec.kind).u(0).t(&cfg.name().replace(' ', "-")).f(cfg.tol);
        let tag = format!("fill {} attrs=0 {}", spec.kind, cfg.name());
        (args, tag, move || {
            let mut o = Out::new();
            let mut orc = Oracle::new();
            let run = run_fill(&spec, &at, &cfg);
            o.t("verts").u(run.verts.len() as u64);
            check_run(&spec, &at, &cfg, &run, &mut orc);
            CaseOut { imp: o, orcl: orc.verdict }
        })
    });
}

/// Fixed inputs with a history (run LAST, so that the ids of the generated cases stay what they
/// were): one tessellator object, the same outline tessellated again with other attribute values /
/// another attribute count / after an aborted call. The bow-tie has exactly one vertex that needs
/// interpolation (the crossing), the two crossing rectangles of `fill_vertex_source_02` have two.
fn corpus_history(ctx: &mut Ctx) {
    let bowtie = Spec::poly(vec![(vec![point(0.0, 0.0), point(10.0, 10.0), point(10.0, 0.0), point(0.0, 10.0)], true)], "corpus-history-bowtie");
    let rects = Spec::poly(
        vec![
            (vec![point(1.0, 1.0), point(5.0, 1.0), point(5.0, 5.0), point(1.0, 5.0)], true),
            (vec![point(3.0, 3.0), point(7.0, 3.0), point(7.0, 7.0), point(3.0, 7.0)], true),
        ],
        "corpus-history-rects",
    );
    let mut variant = 0u64;
    for spec in [bowtie, rects] {
        for entry in 0..3usize {
            for orient in [Orientation::Vertical, Orientation::Horizontal] {
                variant += 1;
                let spec = spec.clone();
                ctx.case("fill", move |_rng| {
                    let cfg = Cfg { rule: FillRule::EvenOdd, orientation: orient, tol: 0.01, entry };
                    let mut r = Rng::new(7, variant);
                    let at = regen_attrs(&mut r, &spec, 2);
                    let first = regen_attrs(&mut r, &spec, 2);
                    let other_count = regen_attrs(&mut r, &spec, 3);
                    let ask_all = |refuse: usize, reps: u8| Query { reps, order: 0, mask: u64::MAX, refuse, look_first: true };
                    // which history: a plain earlier call / another count in between / the earlier call aborted right after its
                    // first interpolated vertex
                    let steps = match variant % 3 {
                        0 => vec![HStep { spec: spec.clone(), at: first, cfg, q: ask_all(0, 1), kind: "same-geometry-other-values" }],
                        1 => vec![
                            HStep { spec: spec.clone(), at: other_count, cfg, q: ask_all(0, 2), kind: "same-geometry-other-count" },
                            HStep { spec: spec.clone(), at: first, cfg, q: ask_all(0, 1), kind: "same-geometry-other-values" },
                        ],
                        _ => {
                            let fresh = run_fill(&spec, &first, &cfg);
                            let k = fresh.verts.iter().position(|v| v.sources.len() > 1 || v.sources.iter().any(|s| s.is_edge())).map_or(0, |i| i + 1);
                            vec![HStep { spec: spec.clone(), at: first, cfg, q: ask_all(k, 1), kind: "same-geometry-other-values" }]
                        }
                    };
                    let hist = Hist { steps, q: Query { reps: 2, order: 2, mask: u64::MAX, refuse: 0, look_first: false } };
                    let mut args = Out::new();
                    args.t(&spec.kind).u(at.n as u64).t(&cfg.name().replace(' ', "-")).f(cfg.tol).t("history").u(hist.steps.len() as u64).t(&hist.describe());
                    let tag = format!("fill {} attrs={} {} {}", spec.kind, at.n, cfg.name(), hist.tag());
                    (args, tag, move || fill_verdict(&spec, &at, &cfg, &hist))
                });
            }
        }
    }
}

/// one oracle-only case on a new tessellator object (affine attribute so that the extrapolated
/// attribute is visible in the detail text of the affine clause as well)
fn plain_fill_case(ctx: &mut Ctx, make: impl FnOnce(&mut Rng) -> (Spec, Cfg)) {
    ctx.case("fill", |rng| {
        let (spec, cfg) = make(rng);
        let co = vec![[1.0f32, 0.5, 0.25]];
        let values = spec.endpoints().iter().map(|p| vec![co[0][0] + co[0][1] * p.x + co[0][2] * p.y]).collect();
        let at = AttrSpec { n: 1, values, affine: Some(co) };
        let mut args = Out::new();
        args.t(&spec.kind).u(1).t(&cfg.name().replace(' ', "-")).f(cfg.tol);
        for p in spec.all_points() {
            args.p(p);
        }
        let tag = format!("fill {} attrs=1 affine {}", spec.kind, cfg.name());
        let hist = Hist::fresh();
        (args, tag, move || fill_verdict(&spec, &at, &cfg, &hist))
    });
}

/// Fixed witnesses of the finding `beyond-edge-end` (open until lyon 96af7b62, now fixed: these cases must
/// pass; the descriptions below say what lyon reported BEFORE the fix) (given in sweep space, mapped back for
/// `Orientation::Horizontal`); run after everything else so that the ids of the generated cases stay
/// what they were.
///  1. coincident merge: two triangles share the apex (0,0); the edges (0,0)→(100, 1/64) and
///     (0,0)→(128, 15/1024) are within `THRESHOLD` in angle and the end of the second is 0.0054
///     from the first one's line: merged; the second ends EARLIER in sweep order (smaller y) but
///     28 further in x: the vertex (128, 15/1024) lists Edge{(0,0)→(100,1/64), t = 1.28}.
///  2. edge split at a vertex, then cut: the flat edge B = (-10,-1)→(-0.01,0.001) passes 0.02 left
///     of the vertex V = (0,0), which is 0.01 beyond B's end in x; another flat edge A passes 0.04
///     left of V, so that V is found connecting; B is split at V with t = 1.001, and the sliver
///     V→B.to is crossed by the flat edge (-5,0.0001)→(5,0.0009): that crossing lists
///     Edge{B, t = 1.0005}.
fn corpus_beyond_end(ctx: &mut Ctx) {
    let merge = vec![
        (vec![point(0.0, 0.0), point(100.0, 0.015625), point(50.0, -30.0)], true),
        (vec![point(0.0, 0.0), point(128.0, 0.0146484375), point(70.0, 40.0)], true),
    ];
    let split = vec![
        (vec![point(-12.0, -1.0), point(5.94, 0.5), point(-12.0, 3.0)], true),
        (vec![point(-10.0, -1.0), point(-0.01, 0.001), point(-3.0, 5.0)], true),
        (vec![point(0.0, 0.0), point(3.0, -4.0), point(4.0, -4.0)], true),
        (vec![point(-5.0, 0.0001), point(5.0, 0.0009), point(0.0, 8.0)], true),
    ];
    for (subs, kind) in [(merge, "corpus-beyond-end-merge"), (split, "corpus-beyond-end-split")] {
        for orient in [Orientation::Vertical, Orientation::Horizontal] {
            for entry in 0..3usize {
                let subs = subs.clone();
                plain_fill_case(ctx, move |_rng| {
                    let mut spec = Spec::poly(subs, kind);
                    spec.transform(&|p| unsweep(p, orient));
                    (spec, Cfg { rule: FillRule::NonZero, orientation: orient, tol: 0.1, entry })
                });
            }
        }
    }
}

/// Targeted search around the two witnesses (randomised magnitudes, slopes, overshoots, tolerances,
/// orientation, entry point). Before lyon 96af7b62 two thirds of these inputs violated the parameter-range
/// clause (class `beyond-edge-end`); since the fix every one of them must pass.
fn beyond_case(ctx: &mut Ctx) {
    plain_fill_case(ctx, |rng| {
        let orient = if rng.chance(1, 2) { Orientation::Vertical } else { Orientation::Horizontal };
        let entry = rng.below(3) as usize;
        let rule = if rng.chance(1, 2) { FillRule::EvenOdd } else { FillRule::NonZero };
        let tol = *rng.pick(&[0.01f32, 0.05, 0.1, 0.25, 1.0]);
        let h = 0.5 * tol as f64;
        let mirror = rng.chance(1, 2);
        let kind;
        let mut subs: Vec<(Vec<(f64, f64)>, bool)> = Vec::new();
        if rng.chance(1, 2) {
            kind = "beyond-end-merge";
            // long edge (0,0)→(l, s·l); the other edge ends `drop` earlier in sweep order but reaches r·l further in x
            let l = rng.log_uniform(0.0, 3.0).abs();
            let s = rng.log_uniform(-5.0, -0.5).abs();
            let r = rng.uniform(0.02, 1.0) * (4e-5 / s).min(1.0);
            let room = (h - s * l * r).min((4.5e-5 - s * r) * l).min(0.9 * s * l);
            let drop = rng.uniform(0.05, 1.0) * room.max(0.0);
            subs.push((vec![(0.0, 0.0), (l, s * l), (0.5 * l, -0.3 * l)], true));
            subs.push((vec![(0.0, 0.0), (l * (1.0 + r), s * l - drop), (0.7 * l, 0.4 * l)], true));
        } else {
            kind = "beyond-end-split";
            // the flat edges A and B pass left of the vertex V = (0,0) within the threshold; B ends `over` short of V in x,
            // just below it; the sliver V→B.to is crossed by the flat edge C
            let l = rng.log_uniform(0.0, 2.0).abs();
            let sl = rng.log_uniform(-2.0, -0.5).abs();
            let ob = rng.uniform(0.15, 0.7) * h;
            let oa = ob + rng.uniform(0.1, 0.28) * h;
            let e = rng.uniform(0.1, 0.9) * ob;
            let sa = sl / (1.0 + 2.0 * h / l + rng.uniform(0.0, 0.08));
            let yt = 0.5 * sl * l;
            subs.push((vec![(-oa - 1.3 * sl * l / sa, -1.3 * sl * l), (-oa + yt / sa, yt), (-1.3 * l, 3.0 * l)], true));
            subs.push((vec![(-ob - l, -sl * l), (-ob + e, sl * e), (-0.3 * l, 0.5 * l)], true));
            subs.push((vec![(0.0, 0.0), (0.3 * l, -0.4 * l), (0.4 * l, -0.4 * l)], true));
            subs.push((vec![(-0.5 * l, 0.3 * sl * e), (0.5 * l, 0.7 * sl * e), (0.0, 0.8 * l)], true));
        }
        let m = if mirror { -1.0 } else { 1.0 };
        let shift = (rng.range(-3, 3) as f64 * 16.0, rng.range(-3, 3) as f64 * 16.0);
        let subs = subs
            .into_iter()
            .map(|(p, c)| (p.into_iter().map(|(x, y)| unsweep(point((m * x + shift.0) as f32, (y + shift.1) as f32), orient)).collect::<Vec<Point>>(), c))
            .collect();
        (Spec::poly(subs, kind), Cfg { rule, orientation: orient, tol, entry })
    });
}

fn main() {
    let mut ctx = Ctx::from_args("C07");
    corpus(&mut ctx);
    corpus_collinear(&mut ctx);
    let n_fill = ctx.n(3000, 100_000);
    let n_vertex = ctx.n(600, 20_000);
    let n_queue = ctx.n(800, 30_000);
    let n_remap = ctx.n(600, 20_000);
    for _ in 0..n_remap {
        remap_case(&mut ctx);
    }
    for _ in 0..n_queue {
        queue_case(&mut ctx);
    }
    for _ in 0..n_vertex {
        vertex_case(&mut ctx);
    }
    for _ in 0..n_fill {
        fill_case(&mut ctx);
    }
    corpus_history(&mut ctx);
    corpus_beyond_end(&mut ctx);
    let n_beyond = ctx.n(240, 6000);
    for _ in 0..n_beyond {
        beyond_case(&mut ctx);
    }
    ctx.finish();
}
