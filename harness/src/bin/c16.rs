//! C16 — flatten / transform adapters commute with building; attributes interpolate in t.
//!
//! One builder program (`n` = 0..10 custom attributes, a tolerance and an affine map) is pushed
//! through the REAL adapters.  A program is a sequence of calls on a `PathBuilder`: the primitives
//! `begin/line/quad/cubic/end` AND the PROVIDED methods of the trait - `close`, `path_event`,
//! `event`, `add_polygon`, `add_point`, `add_line_segment`, `add_rectangle`,
//! `add_rounded_rectangle`, `add_circle`, `add_ellipse` (`Cmd`; two thirds of the generated
//! programs of EVERY family use them) - so each adapter and nesting also receives the helper
//! calls, through the trait methods and, for `NoAttributes<_>` / `Path::builder()`, through the
//! inherent methods of the same names.  The ORIGINAL path of a program is what a plain recording
//! builder receives from the real default bodies (`expand`); every oracle clause compares a route
//! with the adapter applied to that path.  Stored paths are also put together from separately
//! built pieces with `extend_from_paths` (`Cut` marks, `build_path` / `adapter_path`).
//! Which adapters run depends on the family:
//!
//! | family | routes (label: what is printed) |
//! |---|---|
//! | `wit`/`bf` | `builder::Flattened::new(Rec(n), tol)`: calls received by the recording builder |
//! | `bt` | `builder::Transformed::new(Rec(n), m)` |
//! | `bn` | `ft` `Rec.transformed(m).flattened(tol)` (flatten, then transform) / `tf` `Rec.flattened(tol).transformed(m)` |
//! | `na` | `NoAttributes::wrap(Rec(0))` `.flattened(tol)` (`f`), `.transformed(m)` (`t`), `.transformed(m).flattened(tol)` (`ft`) driven through its `PathBuilder` impl with attributes; `fi` / `ti` / `fti`: the same three driven through the INHERENT methods of `NoAttributes` (`add_rectangle(&rect, winding)` … forward to the wrapped adapter's provided method with `NO_ATTRIBUTES`) |
//! | `pb` | real paths: `Path::builder().flattened(tol)` → `iter` (`f`, inherent methods), `Path::builder_with_attributes(n).flattened(tol)` → `iter_with_attributes` (`fa`), `….transformed(m)` (`ta`), `Path::builder().transformed(m)` → `iter` (`t`, inherent methods); with `Cut` marks every piece is built through an adapter instance of its own and the pieces are concatenated with `extend_from_paths` |
//! | `it` | stored path: `path.iter().flattened(tol)` (`f`), `iter_with_attributes().for_each_flattened` (`a`) |
//! | `ix` | `path.iter().transformed(&m)` (`t`), `path.clone().transformed(&m).iter_with_attributes()` (`s`) |
//! | `in` | `path.iter().transformed(&m).flattened(tol)` (`tf`), `path.iter().flattened(tol).transformed(&m)` (`ft`) |
//! | `e2e` | `Flattened::new(Rec(n), tol)` (`b`), `path.iter().flattened(tol)` (`f`), `for_each_flattened` (`a`) — no advice: the model side runs the C09 model of lyon_geom's flattener (end-to-end tie) |
//! | `sim` | `m` an EXACT similarity (scale 2^k, quarter-turn rotation, no translation: every float operation of the flattener commutes with it), `s` its scale: `ft` `Rec.transformed(m).flattened(tol)` (flatten at `tol` in the source space, then transform) / `tf` `Rec.flattened(s·tol).transformed(m)` (transform, then flatten at `s·tol` in the target space); model: `flatBuilderC` with the C09 flattener model (no advice); oracle `builder.nesting/similarity`: the two routes agree call for call (theorem `flatten_transform_similarity_concrete`) |
//! | `mir` | a program of lines and quadratics (`o`) and its MIRROR IMAGE under `(x, y) -> (x, -y)` (`m`), both through the real `Flattened::new(Rec(n), tol)` at the same tolerance, and the two call counts (`n`); model: `flatBuilderC` with the C09 flattener model (no advice). Oracle `builder.nesting/mirror`: equal counts -> the mirror route is the mirrored original call for call (theorem `flatten_transform_reflection_concrete`); different counts on a program with a quadratic whose `parabola_from` or `parabola_to` is exactly 0 -> `skip` mirror-asymmetry (observation: lyon_geom's sign test `(parabola_from < 0) == (parabola_to < 0)` is not symmetric at 0); different counts otherwise -> fail |
//! | `e2ep` | `e2e` without the iterator route, on fixed programs incl. curves whose segment count does not fit `u32`: lyon_geom panics in `count.to_u32().unwrap()`; the model's `flatBuilderC` / `flatAttrIterC` are `none` there and print `panic` too (the outcome the theorems of `Props/C16b.lean` exclude by `… = some out`) |
//!
//! CASE  `n tol m11 m12 m21 m22 m31 m32 <prog>`; prog = `B x y a*n | L x y a*n | Q cx cy x y a*n |
//!       C c1 c2 x y a*n | E 0/1` and the provided methods: `Z` close; `pb x y a*n | pl FROM x y a*n |
//!       pq FROM cx cy x y a*n | pc FROM c1 c2 x y a*n | pe LAST FIRST 0/1 a*n` path_event (upper-case
//!       words: fields of the event the builder must ignore); `eb x y a*n | el FROM a*n x y a*n |
//!       eq FROM a*n cx cy x y a*n | ec FROM a*n c1 c2 x y a*n | ee LAST a*n FIRST a*n 0/1` event;
//!       `PG k closed (x y)*k a*n` add_polygon; `PT x y a*n` add_point; `LS x y x y a*n`
//!       add_line_segment; `RC min max w a*n` add_rectangle (`w` 1 = Winding::Positive);
//!       `RR min max tl tr bl br w a*n` add_rounded_rectangle; `CI c r w a*n` add_circle;
//!       `EL c rx ry rot w a*n` add_ellipse; `X` concatenation mark (no builder call).  The model
//!       expands every helper to the primitive calls of its default body
//!       (`Model/Path/AdaptersHelpers.lean`).
//!       Then the ADVICE: for every curve a route will flatten (in the
//!       space where it is flattened) what lyon_geom's flattener returns for it —
//!       `| FQ/FC <control points> k (from to t)*k` (`for_each_flattened_with_t`) and
//!       `| IQ/IC <control points> k (point)*k` (the `Flattened` iterators).  The curve flattener
//!       is a parameter of the C16 model and theorems (its own correctness is property C09).
//! IMPL  calls (`B/L/Q/C/E` + attributes) or events (`b/l/q/c/e`, with attributes where the
//!       route has them), routes separated by their labels.
//! ORCL  on the real outputs: only lines after flattening; well nested / connected; every
//!       original endpoint exactly, in order, with its attributes; the positions emitted for a
//!       curve are bit-for-bit those of lyon_geom's flattener on the true curve (so "within
//!       tolerance" is C09's statement about that flattener) and, for well-conditioned curves,
//!       a direct distance check; inserted points carry (1−t)·a_from + t·a_to for the t the
//!       flattener reported; transforms: builder side = iterator side = stored, bit for bit,
//!       = `transform_point` of every position, attributes untouched.

use lyon_path::builder::{BorderRadii, Build, Flattened, NoAttributes, PathBuilder, Transformed};
use lyon_path::geom::{CubicBezierSegment, LineSegment, QuadraticBezierSegment};
use lyon_path::iterator::PathIterator;
use lyon_path::math::{point, vector, Angle, Box2D, Point, Transform, Vector};
use lyon_path::{Attributes, EndpointId, Event, Path, PathEvent, Polygon, Winding};
use std::cell::RefCell;
use std::rc::Rc;
use vh::fl::Gen;
use vh::{CaseOut, Ctx, Oracle, Out, Rng};

const EPS: f64 = 1.1920929e-7;
const EXCLUDE_ILL: bool = true;

// ---------------------------------------------------------------------------------------------
// programs

#[derive(Clone, Debug, PartialEq)]
enum Op {
    B(Point, Vec<f32>),
    L(Point, Vec<f32>),
    Q(Point, Point, Vec<f32>),
    C(Point, Point, Point, Vec<f32>),
    E(bool),
}

fn prim<B: PathBuilder>(b: &mut B, op: &Op) {
    match op {
        Op::B(p, a) => {
            b.begin(*p, a);
        }
        Op::L(p, a) => {
            b.line_to(*p, a);
        }
        Op::Q(c, p, a) => {
            b.quadratic_bezier_to(*c, *p, a);
        }
        Op::C(c1, c2, p, a) => {
            b.cubic_bezier_to(*c1, *c2, *p, a);
        }
        Op::E(cl) => b.end(*cl),
    }
}

/// One call of a builder program: a primitive or one of the PROVIDED methods of `PathBuilder`
/// (`close`, `path_event`, `event`, `add_*`).  The provided methods have default bodies that call
/// the builder's own primitives; an adapter that overrides one must still behave like its default
/// body followed by the adapter (that is what "transforming / flattening while being built" means
/// for a program that uses them).
#[derive(Clone, Debug, PartialEq)]
enum Cmd {
    P(Op),
    /// `close()`
    Close,
    /// `path_event(event, attributes)`: the primitive the event stands for, the two positions of
    /// the event the builder does not use (`from` / `last`, `first`) and, for `End`, the unused
    /// attributes
    PathEv(Op, Point, Point, Vec<f32>),
    /// `event(Event<(Point, Attributes), Point>)`: likewise, the unused endpoints with attributes
    Ev(Op, AP, AP),
    /// `add_polygon(Polygon { points, closed }, attributes)`
    Poly(Vec<Point>, bool, Vec<f32>),
    /// `add_point(at, attributes)`
    Pt(Point, Vec<f32>),
    /// `add_line_segment(&LineSegment { from, to }, attributes)`
    Seg(Point, Point, Vec<f32>),
    /// `add_rectangle(&Box2D { min, max }, winding (true = Positive), attributes)`
    Rect(Point, Point, bool, Vec<f32>),
    /// `add_rounded_rectangle(.., &BorderRadii { top_left, top_right, bottom_left, bottom_right }, ..)`
    RRect(Point, Point, [f32; 4], bool, Vec<f32>),
    /// `add_circle(center, radius, winding, attributes)`
    Circle(Point, f32, bool, Vec<f32>),
    /// `add_ellipse(center, radii, x_rotation, winding, attributes)`
    Ellipse(Point, Vector, f32, bool, Vec<f32>),
    /// not a builder call: where a stored path is put together from pieces with
    /// `extend_from_paths` (see `build_path`)
    Cut,
}

fn win(positive: bool) -> Winding {
    if positive {
        Winding::Positive
    } else {
        Winding::Negative
    }
}

fn radii4(r: &[f32; 4]) -> BorderRadii {
    BorderRadii { top_left: r[0], top_right: r[1], bottom_left: r[2], bottom_right: r[3] }
}

fn path_event_of(op: &Op, j1: Point, j2: Point) -> PathEvent {
    match op {
        Op::B(p, _) => PathEvent::Begin { at: *p },
        Op::L(p, _) => PathEvent::Line { from: j1, to: *p },
        Op::Q(c, p, _) => PathEvent::Quadratic { from: j1, ctrl: *c, to: *p },
        Op::C(c1, c2, p, _) => PathEvent::Cubic { from: j1, ctrl1: *c1, ctrl2: *c2, to: *p },
        Op::E(cl) => PathEvent::End { last: j1, first: j2, close: *cl },
    }
}

fn event_of<'l>(op: &'l Op, j1: &'l AP, j2: &'l AP) -> Event<(Point, Attributes<'l>), Point> {
    let f = (j1.0, &j1.1[..]);
    match op {
        Op::B(p, a) => Event::Begin { at: (*p, &a[..]) },
        Op::L(p, a) => Event::Line { from: f, to: (*p, &a[..]) },
        Op::Q(c, p, a) => Event::Quadratic { from: f, ctrl: *c, to: (*p, &a[..]) },
        Op::C(c1, c2, p, a) => Event::Cubic { from: f, ctrl1: *c1, ctrl2: *c2, to: (*p, &a[..]) },
        Op::E(cl) => Event::End { last: f, first: (j2.0, &j2.1[..]), close: *cl },
    }
}

/// the program through the `PathBuilder` trait methods of `b` (provided methods included)
fn drive<B: PathBuilder>(b: &mut B, prog: &[Cmd]) {
    for c in prog {
        match c {
            Cmd::P(op) => prim(b, op),
            Cmd::Close => b.close(),
            Cmd::PathEv(op, j1, j2, a) => {
                let at: &[f32] = match op {
                    Op::B(_, x) | Op::L(_, x) | Op::Q(_, _, x) | Op::C(_, _, _, x) => &x[..],
                    Op::E(_) => &a[..],
                };
                b.path_event(path_event_of(op, *j1, *j2), at)
            }
            Cmd::Ev(op, j1, j2) => b.event(event_of(op, j1, j2)),
            Cmd::Poly(pts, closed, a) => b.add_polygon(Polygon { points: &pts[..], closed: *closed }, a),
            Cmd::Pt(p, a) => {
                b.add_point(*p, a);
            }
            Cmd::Seg(p, q, a) => {
                b.add_line_segment(&LineSegment { from: *p, to: *q }, a);
            }
            Cmd::Rect(mn, mx, w, a) => b.add_rectangle(&Box2D { min: *mn, max: *mx }, win(*w), a),
            Cmd::RRect(mn, mx, r, w, a) => b.add_rounded_rectangle(&Box2D { min: *mn, max: *mx }, &radii4(r), win(*w), a),
            Cmd::Circle(c, r, w, a) => b.add_circle(*c, *r, win(*w), a),
            Cmd::Ellipse(c, radii, rot, w, a) => b.add_ellipse(*c, *radii, Angle::radians(*rot), win(*w), a),
            Cmd::Cut => {}
        }
    }
}

/// the program through the INHERENT methods of `NoAttributes<B>` (what `Path::builder()` and its
/// `.flattened(..)` / `.transformed(..)` offer: no attribute arguments; each forwards to the
/// wrapped builder's method of the same name with `NO_ATTRIBUTES`).  `event` has no inherent
/// counterpart: it goes through the trait.
fn drive_na<B: PathBuilder>(b: &mut NoAttributes<B>, prog: &[Cmd]) {
    for c in prog {
        match c {
            Cmd::P(Op::B(p, _)) => {
                b.begin(*p);
            }
            Cmd::P(Op::L(p, _)) => {
                b.line_to(*p);
            }
            Cmd::P(Op::Q(c, p, _)) => {
                b.quadratic_bezier_to(*c, *p);
            }
            Cmd::P(Op::C(c1, c2, p, _)) => {
                b.cubic_bezier_to(*c1, *c2, *p);
            }
            Cmd::P(Op::E(cl)) => b.end(*cl),
            Cmd::Close => b.close(),
            Cmd::PathEv(op, j1, j2, _) => b.path_event(path_event_of(op, *j1, *j2)),
            Cmd::Ev(op, j1, j2) => PathBuilder::event(b, event_of(op, j1, j2)),
            Cmd::Poly(pts, closed, _) => b.add_polygon(Polygon { points: &pts[..], closed: *closed }),
            Cmd::Pt(p, _) => {
                b.add_point(*p);
            }
            Cmd::Seg(p, q, _) => {
                b.add_line_segment(&LineSegment { from: *p, to: *q });
            }
            Cmd::Rect(mn, mx, w, _) => b.add_rectangle(&Box2D { min: *mn, max: *mx }, win(*w)),
            Cmd::RRect(mn, mx, r, w, _) => b.add_rounded_rectangle(&Box2D { min: *mn, max: *mx }, &radii4(r), win(*w)),
            Cmd::Circle(c, r, w, _) => b.add_circle(*c, *r, win(*w)),
            Cmd::Ellipse(c, radii, rot, w, _) => b.add_ellipse(*c, *radii, Angle::radians(*rot), win(*w)),
            Cmd::Cut => {}
        }
    }
}

fn prims(prog: &[Op]) -> Vec<Cmd> {
    prog.iter().cloned().map(Cmd::P).collect()
}

fn map_prog(prog: &[Op], f: &dyn Fn(Point) -> Point) -> Vec<Op> {
    prog.iter()
        .map(|op| match op {
            Op::B(p, a) => Op::B(f(*p), a.clone()),
            Op::L(p, a) => Op::L(f(*p), a.clone()),
            Op::Q(c, p, a) => Op::Q(f(*c), f(*p), a.clone()),
            Op::C(c1, c2, p, a) => Op::C(f(*c1), f(*c2), f(*p), a.clone()),
            Op::E(cl) => Op::E(*cl),
        })
        .collect()
}

fn strip_attrs(prog: &[Op]) -> Vec<Op> {
    prog.iter()
        .map(|op| match op {
            Op::B(p, _) => Op::B(*p, vec![]),
            Op::L(p, _) => Op::L(*p, vec![]),
            Op::Q(c, p, _) => Op::Q(*c, *p, vec![]),
            Op::C(c1, c2, p, _) => Op::C(*c1, *c2, *p, vec![]),
            Op::E(cl) => Op::E(*cl),
        })
        .collect()
}

fn put_attrs(o: &mut Out, a: &[f32]) {
    for x in a {
        o.f(*x);
    }
}

fn put_op(o: &mut Out, op: &Op) {
    match op {
        Op::B(p, a) => {
            o.t("B").p(*p);
            put_attrs(o, a);
        }
        Op::L(p, a) => {
            o.t("L").p(*p);
            put_attrs(o, a);
        }
        Op::Q(c, p, a) => {
            o.t("Q").p(*c).p(*p);
            put_attrs(o, a);
        }
        Op::C(c1, c2, p, a) => {
            o.t("C").p(*c1).p(*c2).p(*p);
            put_attrs(o, a);
        }
        Op::E(cl) => {
            o.t("E").b(*cl);
        }
    }
}

fn put_prog(o: &mut Out, prog: &[Op]) {
    for op in prog {
        put_op(o, op);
    }
}

/// CASE form of a program with helper calls (see the header)
fn put_cmds(o: &mut Out, prog: &[Cmd]) {
    for c in prog {
        match c {
            Cmd::P(op) => put_op(o, op),
            Cmd::Close => {
                o.t("Z");
            }
            Cmd::PathEv(op, j1, j2, ea) => match op {
                Op::B(p, a) => {
                    o.t("pb").p(*p);
                    put_attrs(o, a);
                }
                Op::L(p, a) => {
                    o.t("pl").p(*j1).p(*p);
                    put_attrs(o, a);
                }
                Op::Q(c, p, a) => {
                    o.t("pq").p(*j1).p(*c).p(*p);
                    put_attrs(o, a);
                }
                Op::C(c1, c2, p, a) => {
                    o.t("pc").p(*j1).p(*c1).p(*c2).p(*p);
                    put_attrs(o, a);
                }
                Op::E(cl) => {
                    o.t("pe").p(*j1).p(*j2).b(*cl);
                    put_attrs(o, ea);
                }
            },
            Cmd::Ev(op, j1, j2) => match op {
                Op::B(p, a) => {
                    o.t("eb").p(*p);
                    put_attrs(o, a);
                }
                Op::L(p, a) => {
                    o.t("el");
                    put_ap(o, j1);
                    o.p(*p);
                    put_attrs(o, a);
                }
                Op::Q(c, p, a) => {
                    o.t("eq");
                    put_ap(o, j1);
                    o.p(*c).p(*p);
                    put_attrs(o, a);
                }
                Op::C(c1, c2, p, a) => {
                    o.t("ec");
                    put_ap(o, j1);
                    o.p(*c1).p(*c2).p(*p);
                    put_attrs(o, a);
                }
                Op::E(cl) => {
                    o.t("ee");
                    put_ap(o, j1);
                    put_ap(o, j2);
                    o.b(*cl);
                }
            },
            Cmd::Poly(pts, closed, a) => {
                o.t("PG").u(pts.len() as u64).b(*closed);
                for p in pts {
                    o.p(*p);
                }
                put_attrs(o, a);
            }
            Cmd::Pt(p, a) => {
                o.t("PT").p(*p);
                put_attrs(o, a);
            }
            Cmd::Seg(p, q, a) => {
                o.t("LS").p(*p).p(*q);
                put_attrs(o, a);
            }
            Cmd::Rect(mn, mx, w, a) => {
                o.t("RC").p(*mn).p(*mx).b(*w);
                put_attrs(o, a);
            }
            Cmd::RRect(mn, mx, r, w, a) => {
                o.t("RR").p(*mn).p(*mx);
                for x in r {
                    o.f(*x);
                }
                o.b(*w);
                put_attrs(o, a);
            }
            Cmd::Circle(c, r, w, a) => {
                o.t("CI").p(*c).f(*r).b(*w);
                put_attrs(o, a);
            }
            Cmd::Ellipse(c, radii, rot, w, a) => {
                o.t("EL").p(*c).v(*radii).f(*rot).b(*w);
                put_attrs(o, a);
            }
            Cmd::Cut => {
                o.t("X");
            }
        }
    }
}

// ---------------------------------------------------------------------------------------------
// recording builder

struct Rec {
    n: usize,
    log: Rc<RefCell<Vec<Op>>>,
}

impl Rec {
    fn new(n: usize) -> (Rec, Rc<RefCell<Vec<Op>>>) {
        let log = Rc::new(RefCell::new(Vec::new()));
        (Rec { n, log: log.clone() }, log)
    }
    fn push(&mut self, op: Op) -> EndpointId {
        let mut l = self.log.borrow_mut();
        l.push(op);
        EndpointId(l.len() as u32)
    }
}

impl PathBuilder for Rec {
    fn num_attributes(&self) -> usize {
        self.n
    }
    fn begin(&mut self, at: Point, a: Attributes) -> EndpointId {
        self.push(Op::B(at, a.to_vec()))
    }
    fn end(&mut self, close: bool) {
        self.push(Op::E(close));
    }
    fn line_to(&mut self, to: Point, a: Attributes) -> EndpointId {
        self.push(Op::L(to, a.to_vec()))
    }
    fn quadratic_bezier_to(&mut self, ctrl: Point, to: Point, a: Attributes) -> EndpointId {
        self.push(Op::Q(ctrl, to, a.to_vec()))
    }
    fn cubic_bezier_to(&mut self, c1: Point, c2: Point, to: Point, a: Attributes) -> EndpointId {
        self.push(Op::C(c1, c2, to, a.to_vec()))
    }
}

impl Build for Rec {
    type PathType = ();
    fn build(self) {}
}

// ---------------------------------------------------------------------------------------------
// events (with attributes) as a plain value

type AP = (Point, Vec<f32>);

#[derive(Clone, Debug, PartialEq)]
enum Ev {
    B(AP),
    L(AP, AP),
    Q(AP, Point, AP),
    C(AP, Point, Point, AP),
    E(AP, AP, bool),
}

fn ev_plain(e: PathEvent) -> Ev {
    let z = |p: Point| (p, vec![]);
    match e {
        Event::Begin { at } => Ev::B(z(at)),
        Event::Line { from, to } => Ev::L(z(from), z(to)),
        Event::Quadratic { from, ctrl, to } => Ev::Q(z(from), ctrl, z(to)),
        Event::Cubic { from, ctrl1, ctrl2, to } => Ev::C(z(from), ctrl1, ctrl2, z(to)),
        Event::End { last, first, close } => Ev::E(z(last), z(first), close),
    }
}

fn ev_attr(e: &Event<(Point, Attributes), Point>) -> Ev {
    let z = |p: &(Point, Attributes)| (p.0, p.1.to_vec());
    match e {
        Event::Begin { at } => Ev::B(z(at)),
        Event::Line { from, to } => Ev::L(z(from), z(to)),
        Event::Quadratic { from, ctrl, to } => Ev::Q(z(from), *ctrl, z(to)),
        Event::Cubic { from, ctrl1, ctrl2, to } => Ev::C(z(from), *ctrl1, *ctrl2, z(to)),
        Event::End { last, first, close } => Ev::E(z(last), z(first), *close),
    }
}

fn put_ap(o: &mut Out, p: &AP) {
    o.p(p.0);
    put_attrs(o, &p.1);
}

fn put_evs(o: &mut Out, evs: &[Ev]) {
    for e in evs {
        match e {
            Ev::B(a) => {
                o.t("b");
                put_ap(o, a);
            }
            Ev::L(a, b) => {
                o.t("l");
                put_ap(o, a);
                put_ap(o, b);
            }
            Ev::Q(a, c, b) => {
                o.t("q");
                put_ap(o, a);
                o.p(*c);
                put_ap(o, b);
            }
            Ev::C(a, c, d, b) => {
                o.t("c");
                put_ap(o, a);
                o.p(*c).p(*d);
                put_ap(o, b);
            }
            Ev::E(l, f, cl) => {
                o.t("e");
                put_ap(o, l);
                put_ap(o, f);
                o.b(*cl);
            }
        }
    }
}

/// The calls an event stream denotes, and the first place (if any) where the stream is not
/// connected: every edge must start where the previous one ended (position and attributes),
/// `End` must name the last and the first point.
fn calls_of_events(evs: &[Ev]) -> (Vec<Op>, Option<String>) {
    let mut out = vec![];
    let mut cur: Option<(AP, AP)> = None; // (first, current)
    let mut breaks: Vec<String> = vec![];
    for (i, e) in evs.iter().enumerate() {
        match e {
            Ev::B(a) => {
                if cur.is_some() {
                    breaks.push(format!("event {}: Begin inside a sub-path", i));
                }
                cur = Some((a.clone(), a.clone()));
                out.push(Op::B(a.0, a.1.clone()));
            }
            Ev::L(a, b) | Ev::Q(a, _, b) | Ev::C(a, _, _, b) => {
                match &mut cur {
                    None => breaks.push(format!("event {}: edge outside a sub-path", i)),
                    Some((_, c)) => {
                        if c.0 != a.0 {
                            breaks.push(format!("event {}: edge starts at {:?}, previous ended at {:?}", i, a.0, c.0));
                        } else if c.1 != a.1 {
                            breaks.push(format!("event {}: edge starts with attributes {:?}, previous ended with {:?}", i, a.1, c.1));
                        }
                        *c = b.clone();
                    }
                }
                out.push(match e {
                    Ev::L(..) => Op::L(b.0, b.1.clone()),
                    Ev::Q(_, c, _) => Op::Q(*c, b.0, b.1.clone()),
                    Ev::C(_, c, d, _) => Op::C(*c, *d, b.0, b.1.clone()),
                    _ => unreachable!(),
                });
            }
            Ev::E(l, f, cl) => {
                match &cur {
                    None => breaks.push(format!("event {}: End outside a sub-path", i)),
                    Some((first, c)) => {
                        if c.0 != l.0 || first.0 != f.0 {
                            breaks.push(format!("event {}: End names last {:?} first {:?}, expected {:?} {:?}", i, l.0, f.0, c.0, first.0));
                        }
                    }
                }
                cur = None;
                out.push(Op::E(*cl));
            }
        }
    }
    if cur.is_some() {
        breaks.push("stream ends inside a sub-path".to_string());
    }
    (out, breaks.into_iter().next())
}

// ---------------------------------------------------------------------------------------------
// lyon_geom's flatteners on one curve

#[derive(Clone, Copy, Debug)]
enum Curve {
    Q(Point, Point, Point),
    C(Point, Point, Point, Point),
}

/// `for_each_flattened_with_t`: (line.from, line.to, t.end)
fn geom_cb(c: &Curve, tol: f32) -> Vec<(Point, Point, f32)> {
    let mut v = vec![];
    match *c {
        Curve::Q(from, ctrl, to) => QuadraticBezierSegment { from, ctrl, to }.for_each_flattened_with_t(tol, &mut |l, t| v.push((l.from, l.to, t.end))),
        Curve::C(from, ctrl1, ctrl2, to) => {
            CubicBezierSegment { from, ctrl1, ctrl2, to }.for_each_flattened_with_t(tol, &mut |l, t| v.push((l.from, l.to, t.end)))
        }
    }
    v
}

/// the `Flattened` iterators
fn geom_iter(c: &Curve, tol: f32) -> Vec<Point> {
    match *c {
        Curve::Q(from, ctrl, to) => QuadraticBezierSegment { from, ctrl, to }.flattened(tol).take(200000).collect(),
        Curve::C(from, ctrl1, ctrl2, to) => CubicBezierSegment { from, ctrl1, ctrl2, to }.flattened(tol).take(200000).collect(),
    }
}

type P2 = (f64, f64);
fn p2(p: Point) -> P2 {
    (p.x as f64, p.y as f64)
}
fn lerp2(a: P2, b: P2, t: f64) -> P2 {
    (a.0 + (b.0 - a.0) * t, a.1 + (b.1 - a.1) * t)
}
fn dist(a: P2, b: P2) -> f64 {
    (a.0 - b.0).hypot(a.1 - b.1)
}
fn d_pt_seg(p: P2, a: P2, b: P2) -> f64 {
    let (vx, vy) = (b.0 - a.0, b.1 - a.1);
    let l2 = vx * vx + vy * vy;
    let t = if l2 > 0.0 { (((p.0 - a.0) * vx + (p.1 - a.1) * vy) / l2).clamp(0.0, 1.0) } else { 0.0 };
    dist(p, (a.0 + vx * t, a.1 + vy * t))
}

impl Curve {
    fn eval(&self, t: f64) -> P2 {
        match *self {
            Curve::Q(a, c, b) => {
                let (a, c, b) = (p2(a), p2(c), p2(b));
                lerp2(lerp2(a, c, t), lerp2(c, b, t), t)
            }
            Curve::C(a, c1, c2, b) => {
                let (a, c1, c2, b) = (p2(a), p2(c1), p2(c2), p2(b));
                let (p, q, r) = (lerp2(a, c1, t), lerp2(c1, c2, t), lerp2(c2, b, t));
                lerp2(lerp2(p, q, t), lerp2(q, r, t), t)
            }
        }
    }
    fn pts(&self) -> Vec<Point> {
        match *self {
            Curve::Q(a, c, b) => vec![a, c, b],
            Curve::C(a, c1, c2, b) => vec![a, c1, c2, b],
        }
    }
    fn mag(&self) -> f64 {
        self.pts().iter().fold(0.0f64, |m, p| m.max(p.x.abs() as f64).max(p.y.abs() as f64))
    }
    fn to(&self) -> Point {
        *self.pts().last().unwrap()
    }
    fn is_cubic(&self) -> bool {
        matches!(self, Curve::C(..))
    }
}

// Witness predicates of the known lyon_geom flattener findings (findings.d/C09.json), evaluated
// on the input in f64 exactly as harness/src/bin/c09.rs does.  A curve matching one of them is
// not "well-conditioned": the direct distance check below is skipped for it (C09 reports it).

fn overshoot_pred(a: P2, c: P2, b: P2, tol: f64) -> bool {
    let v = (b.0 - a.0, b.1 - a.1);
    let w = (c.0 - a.0, c.1 - a.1);
    let l2 = v.0 * v.0 + v.1 * v.1;
    if l2 == 0.0 {
        return w.0 != 0.0 || w.1 != 0.0;
    }
    let cr = v.0 * w.1 - v.1 * w.0;
    let linear = cr * cr / l2 <= tol * tol * 4.0 * (1.0 + 1e-3);
    let pr = (v.0 * w.0 + v.1 * w.1) / l2;
    linear && !(0.0..=1.0).contains(&pr)
}

fn sharp_pred(a: P2, c: P2, b: P2, tol: f64) -> bool {
    let v = (b.0 - a.0, b.1 - a.1);
    let w = (c.0 - a.0, c.1 - a.1);
    let l2 = v.0 * v.0 + v.1 * v.1;
    if l2 == 0.0 {
        return false;
    }
    let cr = v.0 * w.1 - v.1 * w.0;
    if cr * cr / l2 <= tol * tol * 4.0 {
        return false;
    }
    let d = 0.67f64;
    let integ = |x: f64| x / (1.0 - d + (d.powi(4) + 0.25 * x * x).sqrt().sqrt());
    let ddx = 2.0 * c.0 - a.0 - b.0;
    let ddy = 2.0 * c.1 - a.1 - b.1;
    let cross = (b.0 - a.0) * ddy - (b.1 - a.1) * ddx;
    let pf = ((c.0 - a.0) * ddx + (c.1 - a.1) * ddy) / cross;
    let pt = ((b.0 - c.0) * ddx + (b.1 - c.1) * ddy) / cross;
    let scale = cross.abs() / (ddx.hypot(ddy) * (pt - pf).abs());
    let (i0, i1) = (integ(pf), integ(pt));
    let cnt = 0.5 * (i1 - i0).abs() * (scale / tol).sqrt();
    let n = cnt.ceil().max(1.0);
    let astep = (i1 - i0).abs() / n;
    // also treat non-finite intermediate values as ill-conditioned
    !(pf.is_finite() && pt.is_finite() && astep.is_finite()) || (pf * pt < 0.0 && astep > 0.75)
}

fn well_conditioned(c: &Curve, tol: f32) -> bool {
    match *c {
        Curve::Q(a, k, b) => {
            let (a, k, b) = (p2(a), p2(k), p2(b));
            !overshoot_pred(a, k, b, tol as f64) && !sharp_pred(a, k, b, tol as f64)
        }
        Curve::C(from, ctrl1, ctrl2, to) => {
            let mut ok = true;
            let ft = tol as f64 * 0.8;
            CubicBezierSegment { from, ctrl1, ctrl2, to }.for_each_quadratic_bezier(tol * 0.4, &mut |q| {
                let (a, k, b) = (p2(q.from), p2(q.ctrl), p2(q.to));
                if overshoot_pred(a, k, b, ft) || sharp_pred(a, k, b, ft) {
                    ok = false;
                }
            });
            ok
        }
    }
}

/// flattened path within tolerance of the original (well-conditioned curves only): every vertex
/// within the allowance of the curve point at its reported t, every dense curve sample within
/// the allowance of the polyline.  Allowance 1.25·tol + rounding: lyon's segment count rests on
/// closed-form approximations that are accurate to a few percent, and cubics spend 0.4 + 0.8 of
/// the tolerance (both listed under C09).
fn check_tolerance(orc: &mut Oracle, site: &str, c: &Curve, tol: f32, segs: &[(Point, Point, f32)]) {
    if segs.is_empty() || segs.len() > 2000 || (EXCLUDE_ILL && !well_conditioned(c, tol)) {
        return;
    }
    let allow = 1.25 * tol as f64 + 64.0 * EPS * c.mag().max(1e-30);
    let mut poly: Vec<P2> = vec![p2(c.pts()[0])];
    poly.extend(segs.iter().map(|s| p2(s.1)));
    let mut t0 = 0.0f64;
    for (i, s) in segs.iter().enumerate() {
        let t1 = s.2 as f64;
        let dv = dist(p2(s.1), c.eval(t1));
        orc.check(dv <= allow, &format!("{}/tolerance", site), "generic", || {
            format!("vertex {} of {} is {:e} from the curve point at its t={}, allowance {:e} (tol {:e}) curve {:?}", i + 1, segs.len(), dv, t1, allow, tol, c)
        });
        let m = 8;
        for j in 1..m {
            let tt = t0 + (t1 - t0) * j as f64 / m as f64;
            let p = c.eval(tt);
            let mut d = d_pt_seg(p, poly[i], poly[i + 1]);
            if d > allow {
                for k in 0..segs.len() {
                    d = d.min(d_pt_seg(p, poly[k], poly[k + 1]));
                }
            }
            orc.check(d <= allow, &format!("{}/tolerance", site), "generic", || {
                format!("curve point at t={} is {:e} from the polyline ({} segments), allowance {:e} (tol {:e}) curve {:?}", tt, d, segs.len(), allow, tol, c)
            });
        }
        t0 = t1;
    }
}

// ---------------------------------------------------------------------------------------------
// the structural walk: program vs. flattened output

#[derive(Clone, Copy, PartialEq, Debug)]
enum Kind {
    /// builder-side `Flattened` (callback flattener, `prev_attributes` bookkeeping)
    Builder,
    /// `for_each_flattened` (callback flattener, attributes of both ends at hand)
    AttrIter,
    /// `iterator::Flattened` (lyon_geom's `Flattened` iterators, no attributes)
    Iter,
}

fn attrs_eq(a: &[f32], b: &[f32]) -> bool {
    a.len() == b.len() && a.iter().zip(b).all(|(x, y)| x == y)
}

fn interp_ok(got: &[f32], from: &[f32], to: &[f32], t: f32) -> bool {
    got.len() == to.len()
        && from.len() == to.len()
        && (0..got.len()).all(|i| {
            let (f, g, t) = (from[i] as f64, to[i] as f64, t as f64);
            let e = (1.0 - t) * f + t * g;
            (got[i] as f64 - e).abs() <= 8.0 * EPS * (f.abs() + g.abs()) + 1e-37
        })
}

/// Deferred (known-class) failures: registered after all generic clauses so that a listed
/// finding never masks a different violation in the same case.
struct Deferred(Vec<(String, String, String)>);

/// `prog`: the program in the space where flattening happens; `post`: map applied to every
/// position AFTER flattening (`Flattened<Transformed<_>>`), `out`: the calls observed;
/// `with_attr`: the route carries attributes (false under `NoAttributes` / plain iterators).
fn check_flat(orc: &mut Oracle, def: &mut Deferred, site: &str, kind: Kind, prog: &[Op], tol: f32, post: &dyn Fn(Point) -> Point, with_attr: bool, out: &[Op]) {
    let cl = |c: &str| format!("{}/{}", site, c);
    // only lines
    for (i, c) in out.iter().enumerate() {
        orc.check(matches!(c, Op::B(..) | Op::L(..) | Op::E(..)), &cl("only-lines"), "generic", || format!("output call {} is a curve: {:?}", i, c));
    }
    if orc.failed() {
        return;
    }
    let noattr: Vec<f32> = vec![];
    let at = |a: &Vec<f32>| if with_attr { a.clone() } else { noattr.clone() };
    let mut k = 0usize; // index into out
    let mut cur = point(0.0, 0.0);
    let mut cur_attr: Vec<f32> = vec![];
    // what `prev_attributes` held before lyon commit babe4617 (begin did not record the
    // attributes): used only to give a regression of that repaired defect its narrow class
    let n = prog.iter().find_map(|o| match o { Op::B(_, a) => Some(a.len()), _ => None }).unwrap_or(0);
    let mut stale: Vec<f32> = vec![0.0; n];
    let mut after_begin = false;
    for (i, op) in prog.iter().enumerate() {
        match op {
            Op::B(p, a) | Op::L(p, a) => {
                let want = if matches!(op, Op::B(..)) { Op::B(post(*p), at(a)) } else { Op::L(post(*p), at(a)) };
                let got = out.get(k);
                orc.check(got == Some(&want), &cl("endpoint"), "generic", || format!("program call {} {:?}: expected output call {} = {:?}, got {:?}", i, op, k, want, got));
                k += 1;
                cur = *p;
                cur_attr = a.clone();
                if matches!(op, Op::L(..)) {
                    stale = a.clone();
                }
                after_begin = matches!(op, Op::B(..));
            }
            Op::E(c) => {
                let got = out.get(k);
                orc.check(got == Some(&Op::E(*c)), &cl("structure"), "generic", || format!("program call {} end({}): output call {} is {:?}", i, c, k, got));
                k += 1;
                after_begin = false;
            }
            Op::Q(_, p, a) | Op::C(_, _, p, a) => {
                let curve = match op {
                    Op::Q(c, p, _) => Curve::Q(cur, *c, *p),
                    Op::C(c1, c2, p, _) => Curve::C(cur, *c1, *c2, *p),
                    _ => unreachable!(),
                };
                let segs: Vec<(Point, Point, f32)> = match kind {
                    Kind::Iter => {
                        let pts = geom_iter(&curve, tol);
                        let mut v = vec![];
                        let mut f = cur;
                        for q in pts {
                            v.push((f, q, f32::NAN));
                            f = q;
                        }
                        v
                    }
                    _ => geom_cb(&curve, tol),
                };
                let m = segs.len();
                orc.check(m >= 1, &cl("structure"), "generic", || format!("program call {}: lyon_geom's flattener emits no segment for {:?}", i, curve));
                let mut defect_all = after_begin && kind == Kind::Builder && with_attr;
                let mut first_bad: Option<String> = None;
                for (j, s) in segs.iter().enumerate() {
                    let got = out.get(k + j);
                    let (gp, ga) = match got {
                        Some(Op::L(gp, ga)) => (*gp, ga.clone()),
                        _ => {
                            orc.check(false, &cl("structure"), "generic", || format!("program call {} ({:?}): segment {} of {}: output call {} is {:?}", i, curve, j, m, k + j, got));
                            return;
                        }
                    };
                    let last = j + 1 == m;
                    if last {
                        // the original endpoint, exactly, with its attributes
                        let d = dist(p2(gp), p2(post(*p)));
                        let pos_ok = gp == post(*p);
                        if !pos_ok && kind == Kind::Iter && curve.is_cubic() && d <= 8.0 * (16.0 + m as f64) * EPS * curve.mag().max(1e-30) {
                            def.0.push((cl("endpoint"), "cubic-iter-last-point".to_string(), format!("program call {} ({:?}): last flattened point {:?} is {:e} away from the end point {:?}", i, curve, gp, d, post(*p))));
                        } else {
                            orc.check(pos_ok, &cl("endpoint"), "generic", || format!("program call {} ({:?}): last flattened point {:?} != end point {:?} ({:e} away)", i, curve, gp, post(*p), d));
                        }
                        if with_attr {
                            orc.check(attrs_eq(&ga, a), &cl("endpoint"), "generic", || format!("program call {}: endpoint attributes {:?}, expected {:?}", i, ga, a));
                        } else {
                            orc.check(ga.is_empty(), &cl("endpoint"), "generic", || format!("program call {}: attributes {:?} on a route without attributes", i, ga));
                        }
                    } else {
                        // same point as lyon_geom's flattener on the true curve
                        orc.check(gp == post(s.1), &cl("same-as-geom"), "generic", || format!("program call {} ({:?}): point {} of {} is {:?}, lyon_geom's flattener gives {:?}", i, curve, j, m, gp, post(s.1)));
                        if with_attr && kind != Kind::Iter {
                            let ok = interp_ok(&ga, &cur_attr, a, s.2);
                            if !ok {
                                let explained = interp_ok(&ga, &stale, a, s.2);
                                defect_all = defect_all && explained;
                                if first_bad.is_none() {
                                    first_bad = Some(format!(
                                        "program call {} ({:?}): inserted point {} of {} at t={} carries {:?}; endpoints carry {:?} -> {:?} (prev_attributes would be {:?})",
                                        i, curve, j, m, s.2, ga, cur_attr, a, stale
                                    ));
                                }
                            }
                        } else if !with_attr {
                            orc.check(ga.is_empty(), &cl("attr-interp"), "generic", || format!("program call {}: attributes {:?} on a route without attributes", i, ga));
                        }
                    }
                    // for_each_flattened: `from` side of each line
                    let _ = s.0;
                }
                if let Some(msg) = first_bad {
                    if defect_all {
                        def.0.push((cl("attr-interp"), "first-curve-after-begin".to_string(), msg));
                    } else {
                        orc.check(false, &cl("attr-interp"), "generic", || msg);
                    }
                }
                if kind != Kind::Iter {
                    check_tolerance(orc, site, &curve, tol, &segs);
                }
                k += m;
                cur = *p;
                cur_attr = a.clone();
                stale = a.clone();
                after_begin = false;
            }
        }
        if orc.failed() {
            return;
        }
    }
    orc.check(k == out.len(), &cl("structure"), "generic", || format!("{} output calls, {} expected", out.len(), k));
}

/// transform routes: every position is `transform_point` of the original, nothing else changes
fn check_xf(orc: &mut Oracle, site: &str, prog: &[Op], m: &Transform, out: &[Op]) {
    let want = map_prog(prog, &|p| m.transform_point(p));
    orc.check(want.len() == out.len(), &format!("{}/positions", site), "generic", || format!("{} calls out, {} in", out.len(), want.len()));
    for (i, (w, g)) in want.iter().zip(out).enumerate() {
        orc.check(w == g, &format!("{}/positions", site), "generic", || format!("call {}: expected {:?}, got {:?}", i, w, g));
    }
}

fn well_nested(calls: &[Op]) -> bool {
    let mut inside = false;
    for c in calls {
        match c {
            Op::B(..) => {
                if inside {
                    return false;
                }
                inside = true;
            }
            Op::E(_) => {
                if !inside {
                    return false;
                }
                inside = false;
            }
            _ => {
                if !inside {
                    return false;
                }
            }
        }
    }
    !inside
}

// ---------------------------------------------------------------------------------------------
// generators

struct Input {
    n: usize,
    tol: f32,
    m: Transform,
    /// the builder program: primitives and provided helper methods
    cmds: Vec<Cmd>,
    /// what a builder WITHOUT any adapter receives for it (the real default bodies of the provided
    /// methods, run on the recording builder): the "original path" of the property
    prog: Vec<Op>,
    tag: String,
}

impl Input {
    fn new(n: usize, tol: f32, m: Transform, cmds: Vec<Cmd>, tag: String) -> Input {
        let prog = expand(n, &cmds);
        Input { n, tol, m, cmds, prog, tag }
    }
}

/// the primitive calls a plain builder receives for a program with helper calls
fn expand(n: usize, cmds: &[Cmd]) -> Vec<Op> {
    vh::guarded(|| rec_run(|r| r, n, cmds)).unwrap_or_default()
}

fn gen_tol(rng: &mut Rng, lattice: bool) -> f32 {
    if lattice || rng.chance(1, 3) {
        *rng.pick(&[0.015625f32, 0.0625, 0.125, 0.25, 0.5, 1.0])
    } else {
        10f64.powf(rng.uniform(-2.0, 0.3)) as f32
    }
}

fn gen_xf(rng: &mut Rng, lattice: bool) -> (Transform, &'static str) {
    match rng.below(if lattice { 4 } else { 7 }) {
        0 => (Transform::new(rng.range(-3, 3) as f32, rng.range(-3, 3) as f32, rng.range(-3, 3) as f32, rng.range(-3, 3) as f32, rng.range(-20, 20) as f32, rng.range(-20, 20) as f32), "int"),
        1 => (Transform::translation(rng.range(-20, 20) as f32 / 4.0, rng.range(-20, 20) as f32 / 4.0), "translate"),
        2 => (Transform::scale(rng.range(-8, 8) as f32 / 4.0, rng.range(1, 8) as f32 / 2.0), "scale"),
        3 => (Transform::identity(), "identity"),
        4 => {
            let a = rng.uniform(-3.2, 3.2) as f32;
            (Transform::new(a.cos(), a.sin(), -a.sin(), a.cos(), rng.uniform(-50.0, 50.0) as f32, rng.uniform(-50.0, 50.0) as f32), "rotation")
        }
        5 => {
            // singular
            let (a, b) = (rng.uniform(-2.0, 2.0) as f32, rng.uniform(-2.0, 2.0) as f32);
            (Transform::new(a, b, 2.0 * a, 2.0 * b, 1.0, -1.0), "singular")
        }
        _ => (
            Transform::new(
                rng.uniform(-3.0, 3.0) as f32,
                rng.uniform(-3.0, 3.0) as f32,
                rng.uniform(-3.0, 3.0) as f32,
                rng.uniform(-3.0, 3.0) as f32,
                rng.uniform(-100.0, 100.0) as f32,
                rng.uniform(-100.0, 100.0) as f32,
            ),
            "affine",
        ),
    }
}

/// an exact similarity: scale 2^k, rotation by a multiple of 90 degrees, no translation -- scaling by
/// a power of two, negating and swapping coordinates commute with every rounding of the flattener
fn gen_sim(rng: &mut Rng) -> Transform {
    let s = [0.25f32, 0.5, 1.0, 2.0, 4.0, 8.0][rng.below(6) as usize];
    match rng.below(4) {
        0 => Transform::new(s, 0.0, 0.0, s, 0.0, 0.0),
        1 => Transform::new(0.0, s, -s, 0.0, 0.0, 0.0),
        2 => Transform::new(-s, 0.0, 0.0, -s, 0.0, 0.0),
        _ => Transform::new(0.0, -s, s, 0.0, 0.0, 0.0),
    }
}

fn gen_attrs(rng: &mut Rng, n: usize, lattice: bool) -> Vec<f32> {
    (0..n)
        .map(|_| match rng.below(8) {
            0 => 0.0,
            1 => rng.range(-4, 4) as f32 * 10.0,
            _ => {
                if lattice {
                    rng.range(-64, 64) as f32 / 4.0
                } else {
                    rng.uniform(-100.0, 100.0) as f32
                }
            }
        })
        .collect()
}

/// one `add_*` helper call
fn gen_shape(rng: &mut Rng, g: Gen, n: usize, lattice: bool, pt: &dyn Fn(&mut Rng) -> Point) -> (Cmd, &'static str) {
    let a = gen_attrs(rng, n, lattice);
    let w = rng.chance(1, 2);
    // a length: radius / size / corner radius
    let len = |rng: &mut Rng, hi: f64| -> f32 {
        match rng.below(8) {
            0 => 0.0,
            1 => -(rng.range(1, 16) as f32) / 4.0,
            _ => {
                if lattice {
                    rng.range(1, (hi * 4.0) as i64) as f32 / 4.0
                } else if g == Gen::Wide {
                    rng.log_uniform(-2.0, hi.log10()).abs() as f32
                } else {
                    rng.uniform(0.0, hi) as f32
                }
            }
        }
    };
    let bx = |rng: &mut Rng| -> (Point, Point) {
        let mn = pt(rng);
        // mostly a proper box, sometimes min / max in any order (negative width / height)
        if rng.chance(1, 5) {
            (mn, pt(rng))
        } else {
            (mn, point(mn.x + len(rng, 40.0), mn.y + len(rng, 40.0)))
        }
    };
    match rng.below(9) {
        0 => {
            let k = rng.below(6) as usize;
            let mut pts: Vec<Point> = (0..k).map(|_| pt(rng)).collect();
            if g == Gen::Degenerate && k >= 2 && rng.chance(1, 2) {
                pts[k - 1] = pts[0];
            }
            (Cmd::Poly(pts, rng.chance(1, 2), a), if k == 0 { "polygon0" } else { "polygon" })
        }
        1 => (Cmd::Pt(pt(rng), a), "point"),
        2 => {
            let p = pt(rng);
            let q = if g == Gen::Degenerate && rng.chance(1, 3) { p } else { pt(rng) };
            (Cmd::Seg(p, q, a), "segment")
        }
        3 | 4 => {
            let (mn, mx) = bx(rng);
            (Cmd::Rect(mn, mx, w, a), "rect")
        }
        5 | 6 => {
            let (mn, mx) = bx(rng);
            let r0 = len(rng, 12.0);
            let r = if rng.chance(1, 2) { [r0; 4] } else { [r0, len(rng, 12.0), len(rng, 12.0), len(rng, 12.0)] };
            (Cmd::RRect(mn, mx, r, w, a), "rrect")
        }
        7 => (Cmd::Circle(pt(rng), len(rng, 50.0), w, a), "circle"),
        _ => {
            let rot = match rng.below(5) {
                0 => 0.0,
                1 => *rng.pick(&[std::f32::consts::FRAC_PI_2, std::f32::consts::PI, -std::f32::consts::FRAC_PI_4, 100.0]),
                _ => rng.uniform(-7.0, 7.0) as f32,
            };
            (Cmd::Ellipse(pt(rng), vector(len(rng, 30.0), len(rng, 30.0)), rot, w, a), "ellipse")
        }
    }
}

/// a primitive call, as itself or through `path_event` / `event` / `close`
fn gen_call(rng: &mut Rng, n: usize, lattice: bool, pt: &dyn Fn(&mut Rng) -> Point, op: Op, via: &mut [bool; 3]) -> Cmd {
    match rng.below(10) {
        0 => {
            via[0] = true;
            Cmd::PathEv(op, pt(rng), pt(rng), gen_attrs(rng, n, lattice))
        }
        1 => {
            via[1] = true;
            let j1 = (pt(rng), gen_attrs(rng, n, lattice));
            let j2 = (pt(rng), gen_attrs(rng, n, lattice));
            Cmd::Ev(op, j1, j2)
        }
        2 | 3 | 4 if op == Op::E(true) => {
            via[2] = true;
            Cmd::Close
        }
        _ => Cmd::P(op),
    }
}

fn gen_input(rng: &mut Rng) -> Input {
    let g = match rng.below(10) {
        0..=2 => Gen::Lattice,
        3..=6 => Gen::Uniform,
        7 => Gen::Wide,
        _ => Gen::Degenerate,
    };
    let lattice = g == Gen::Lattice || g == Gen::Degenerate;
    // 0..=10 custom attributes; 8 is a boundary in the code (`for_each_flattened` switches from a
    // 16-slot stack buffer to a heap buffer at `num_attributes <= 8`), so 5..=9 carry weight
    let n = *rng.pick(&[0usize, 1, 2, 3, 4, 5, 6, 7, 8, 8, 9, 9, 10, 1, 3, 5, 7, 8]);
    let tol = gen_tol(rng, lattice);
    let (m, mname) = gen_xf(rng, lattice);
    let pt = move |rng: &mut Rng| -> Point {
        if g == Gen::Wide {
            // keep the segment counts moderate: magnitudes 1e-2 .. 1e3
            point(rng.log_uniform(-2.0, 3.0) as f32, rng.log_uniform(-2.0, 3.0) as f32)
        } else {
            g.point::<f32>(rng)
        }
    };
    // the dimension "which entry point of the builder": a third of the programs use only the
    // five primitives; in the others every sub-path may instead be an `add_*` helper call and
    // every primitive may go through `path_event` / `event` / `close`
    let helpers = !rng.chance(1, 3);
    let mut cmds = vec![];
    let subs = 1 + rng.below(3);
    let mut curves = 0;
    let mut first_curve = false;
    let mut shapes: Vec<&'static str> = vec![];
    let mut via = [false; 3];
    let cuts = rng.chance(1, 5);
    for si in 0..subs {
        if si > 0 && cuts && rng.chance(2, 3) {
            cmds.push(Cmd::Cut);
            if rng.chance(1, 4) {
                cmds.push(Cmd::Cut); // empty piece: back to direct calls on the final builder
            }
        }
        if helpers && rng.chance(2, 5) {
            let (c, name) = gen_shape(rng, g, n, lattice, &pt);
            if matches!(name, "rrect" | "circle" | "ellipse") {
                curves += 1;
            }
            if !shapes.contains(&name) {
                shapes.push(name);
            }
            cmds.push(c);
            continue;
        }
        let mut call = |rng: &mut Rng, op: Op, via: &mut [bool; 3]| -> Cmd {
            if helpers {
                gen_call(rng, n, lattice, &pt, op, via)
            } else {
                Cmd::P(op)
            }
        };
        let start = pt(rng);
        let a0 = gen_attrs(rng, n, lattice);
        cmds.push(call(rng, Op::B(start, a0), &mut via));
        let edges = rng.below(5);
        let mut cur = start;
        for e in 0..edges {
            let a = gen_attrs(rng, n, lattice);
            let kind = rng.below(3);
            let (c1, c2, mut to) = (pt(rng), pt(rng), pt(rng));
            if g == Gen::Degenerate && rng.chance(1, 4) {
                to = cur; // closed curve / zero-length line
            }
            let op = match kind {
                0 => Op::L(to, a),
                1 => {
                    let c = if g == Gen::Degenerate && rng.chance(1, 3) { cur } else { c1 };
                    Op::Q(c, to, a)
                }
                _ => {
                    let (k1, k2) = if g == Gen::Degenerate && rng.chance(1, 3) { (cur, to) } else { (c1, c2) };
                    Op::C(k1, k2, to, a)
                }
            };
            cmds.push(call(rng, op, &mut via));
            if kind != 0 {
                curves += 1;
                if e == 0 {
                    first_curve = true;
                }
            }
            cur = to;
        }
        let cl = rng.chance(1, 2);
        cmds.push(call(rng, Op::E(cl), &mut via));
    }
    shapes.sort();
    let mut entry: Vec<&str> = shapes.clone();
    for (k, name) in ["path_event", "event", "close"].iter().enumerate() {
        if via[k] {
            entry.push(name);
        }
    }
    let tag = format!(
        "{} n{} {} subs{} {}{} {}{}",
        g.name(),
        n,
        mname,
        subs,
        if curves == 0 { "no-curve trivial" } else { "curves" },
        if first_curve && n > 0 { " first-curve-after-begin" } else { "" },
        if entry.is_empty() { "primitives-only".to_string() } else { format!("via:{}", entry.join("+")) },
        if cmds.contains(&Cmd::Cut) { " concatenated" } else { "" }
    );
    Input::new(n, tol, m, cmds, tag)
}

fn put_input(inp: &Input) -> Out {
    let mut a = Out::new();
    a.u(inp.n as u64).f(inp.tol);
    let m = &inp.m;
    a.f(m.m11).f(m.m12).f(m.m21).f(m.m22).f(m.m31).f(m.m32);
    put_cmds(&mut a, &inp.cmds);
    a
}

// ---------------------------------------------------------------------------------------------
// advice: what lyon_geom's flatteners return for the curves of the program

/// the curves of a program (each from the TRUE current endpoint)
fn curves_of(prog: &[Op]) -> Vec<Curve> {
    let mut cur = point(0.0, 0.0);
    let mut v = vec![];
    for op in prog {
        match op {
            Op::B(p, _) | Op::L(p, _) => cur = *p,
            Op::Q(c, p, _) => {
                v.push(Curve::Q(cur, *c, *p));
                cur = *p;
            }
            Op::C(c1, c2, p, _) => {
                v.push(Curve::C(cur, *c1, *c2, *p));
                cur = *p;
            }
            Op::E(_) => {}
        }
    }
    v
}

/// `| (FQ|FC) <ctrl points> n (fx fy tx ty t)*n` for the callback flattener,
/// `| (IQ|IC) <ctrl points> n (x y)*n` for the iterator.  The curve flattener is a parameter of
/// the C16 model (lyon_geom's flattening is property C09): the model looks the curve up here.
fn put_advice(o: &mut Out, fam: &str, inp: &Input) {
    let m = inp.m;
    let xprog = map_prog(&inp.prog, &|p| m.transform_point(p));
    let (cb_src, cb_xf, it_src, it_xf) = match fam {
        "wit" | "bf" | "na" | "pb" => (true, false, false, false),
        "bn" => (true, true, false, false),
        "it" => (true, false, true, false),
        "in" => (false, false, true, true),
        _ => (false, false, false, false),
    };
    let mut cb: Vec<Curve> = vec![];
    let mut it: Vec<Curve> = vec![];
    if cb_src {
        cb.extend(curves_of(&inp.prog));
    }
    if cb_xf {
        cb.extend(curves_of(&xprog));
    }
    if it_src {
        it.extend(curves_of(&inp.prog));
    }
    if it_xf {
        it.extend(curves_of(&xprog));
    }
    for c in &cb {
        o.t("|").t(if c.is_cubic() { "FC" } else { "FQ" });
        for p in c.pts() {
            o.p(p);
        }
        let segs = vh::guarded(|| geom_cb(c, inp.tol)).unwrap_or_default();
        o.u(segs.len() as u64);
        for s in segs {
            o.p(s.0).p(s.1).f(s.2);
        }
    }
    for c in &it {
        o.t("|").t(if c.is_cubic() { "IC" } else { "IQ" });
        for p in c.pts() {
            o.p(p);
        }
        let pts = vh::guarded(|| geom_iter(c, inp.tol)).unwrap_or_default();
        o.u(pts.len() as u64);
        for q in pts {
            o.p(q);
        }
    }
}

// ---------------------------------------------------------------------------------------------
// routes

fn rec_run<W: PathBuilder>(wrap: impl FnOnce(Rec) -> W, n: usize, prog: &[Cmd]) -> Vec<Op> {
    let (rec, log) = Rec::new(n);
    let mut b = wrap(rec);
    drive(&mut b, prog);
    drop(b);
    let v = log.borrow().clone();
    v
}

/// the same through the inherent methods of `NoAttributes<_>`
fn rec_run_na<W: PathBuilder>(wrap: impl FnOnce(Rec) -> NoAttributes<W>, prog: &[Cmd]) -> Vec<Op> {
    let (rec, log) = Rec::new(0);
    let mut b = wrap(rec);
    drive_na(&mut b, prog);
    drop(b);
    let v = log.borrow().clone();
    v
}

/// the pieces of a program between its `Cut` marks, for path concatenation: `(piece, direct)`;
/// piece 0 is always direct; a piece after a `Cut` is built as a path of its own; an EMPTY piece
/// means "the next piece is direct again"
fn pieces(prog: &[Cmd]) -> Vec<(&[Cmd], bool)> {
    let mut v = vec![];
    let mut direct = true;
    for (i, p) in prog.split(|c| *c == Cmd::Cut).enumerate() {
        if i > 0 && p.is_empty() {
            direct = true;
            continue;
        }
        v.push((p, i == 0 || direct));
        direct = false;
    }
    v
}

/// A stored path for the program.  Without `Cut` marks: the program driven into
/// `Path::builder_with_attributes(n)`.  With them: the direct pieces are driven into that
/// builder, every other piece is built as a `Path` of its own (by `make`) and runs of such paths
/// are appended with ONE `extend_from_paths` call each - "stored" includes stored by concatenation.
fn concat_path(n: usize, prog: &[Cmd], make: &dyn Fn(&[Cmd]) -> Path, direct_too: bool) -> Path {
    // the final builder: `Path::builder_with_attributes(n)`, or - without attributes, for half
    // of the programs - `Path::builder()` (`NoAttributes<BuilderImpl>` has an
    // `extend_from_paths` of its own)
    let mut b = if n == 0 && prog.len() % 2 == 0 { Fin::N(Path::builder()) } else { Fin::A(Path::builder_with_attributes(n)) };
    let mut pending: Vec<Path> = vec![];
    let flush = |b: &mut Fin, pending: &mut Vec<Path>| {
        if !pending.is_empty() {
            let slices: Vec<_> = pending.iter().map(|p| p.as_slice()).collect();
            match b {
                Fin::A(b) => b.extend_from_paths(&slices),
                Fin::N(b) => b.extend_from_paths(&slices),
            }
            pending.clear();
        }
    };
    for (p, direct) in pieces(prog) {
        if direct && direct_too {
            flush(&mut b, &mut pending);
            match &mut b {
                Fin::A(b) => drive(b, p),
                Fin::N(b) => drive_na(b, p),
            }
        } else {
            pending.push(make(p));
        }
    }
    flush(&mut b, &mut pending);
    match b {
        Fin::A(b) => b.build(),
        Fin::N(b) => b.build(),
    }
}

enum Fin {
    A(lyon_path::path::BuilderWithAttributes),
    N(lyon_path::path::Builder),
}

fn build_path(n: usize, prog: &[Cmd]) -> Path {
    if !prog.contains(&Cmd::Cut) {
        let mut b = Path::builder_with_attributes(n);
        drive(&mut b, prog);
        return b.build();
    }
    concat_path(
        n,
        prog,
        &|p| {
            let mut b = Path::builder_with_attributes(n);
            drive(&mut b, p);
            b.build()
        },
        true,
    )
}

/// a path built THROUGH a builder-side adapter (`make` builds one piece through a fresh adapter
/// instance); with `Cut` marks every piece is built separately and the results are concatenated
fn adapter_path(n: usize, prog: &[Cmd], make: &dyn Fn(&[Cmd]) -> Path) -> Path {
    if !prog.contains(&Cmd::Cut) {
        return make(prog);
    }
    concat_path(n, prog, make, false)
}

fn evs_with_attrs(p: &Path) -> Vec<Ev> {
    p.iter_with_attributes().map(|e| ev_attr(&e)).collect()
}

/// an event route through a flattening adapter: connectivity + the structural walk
fn ev_flat(orc: &mut Oracle, def: &mut Deferred, site: &str, kind: Kind, prog: &[Op], tol: f32, post: &dyn Fn(Point) -> Point, with_attr: bool, evs: &[Ev]) {
    let (calls, brk) = calls_of_events(evs);
    let before = def.0.len();
    check_flat(orc, def, site, kind, prog, tol, post, with_attr, &calls);
    if let Some(msg) = brk {
        // a break right behind a cubic whose flattening iterator missed its end point is that
        // same listed finding; anything else is reported
        let explained = def.0[before..].iter().any(|d| d.1 == "cubic-iter-last-point");
        if !explained {
            orc.check(false, &format!("{}/connected", site), "generic", || msg);
        }
    }
}

/// an event route through a transforming adapter
fn ev_xf(orc: &mut Oracle, site: &str, prog: &[Op], m: &Transform, evs: &[Ev]) {
    let (calls, brk) = calls_of_events(evs);
    check_xf(orc, site, prog, m, &calls);
    if let Some(msg) = brk {
        orc.check(false, &format!("{}/connected", site), "generic", || msg);
    }
}

fn run_family(fam: &str, inp: &Input) -> CaseOut {
    let (n, tol, m, prog, cmds) = (inp.n, inp.tol, inp.m, &inp.prog[..], &inp.cmds[..]);
    let mut o = Out::new();
    let mut orc = Oracle::new();
    let mut def = Deferred(vec![]);
    let id = |p: Point| p;
    let xf = move |p: Point| m.transform_point(p);
    let xprog = map_prog(prog, &xf);
    let nested = |orc: &mut Oracle, site: &str, calls: &[Op]| {
        orc.check(well_nested(calls), &format!("{}/well-nested", site), "generic", || format!("calls not (begin edge* end)*: {:?}", calls));
    };
    match fam {
        "wit" | "bf" => {
            let calls = rec_run(|r| Flattened::new(r, tol), n, cmds);
            put_prog(&mut o, &calls);
            nested(&mut orc, "builder.flatten", &calls);
            check_flat(&mut orc, &mut def, "builder.flatten", Kind::Builder, prog, tol, &id, true, &calls);
        }
        "bt" => {
            let calls = rec_run(|r| Transformed::new(r, m), n, cmds);
            put_prog(&mut o, &calls);
            nested(&mut orc, "builder.transform", &calls);
            check_xf(&mut orc, "builder.transform", prog, &m, &calls);
        }
        "bn" => {
            let ft = rec_run(|r| r.transformed(m).flattened(tol), n, cmds);
            let tf = rec_run(|r| r.flattened(tol).transformed(m), n, cmds);
            o.t("ft");
            put_prog(&mut o, &ft);
            o.t("tf");
            put_prog(&mut o, &tf);
            nested(&mut orc, "builder.flatten", &ft);
            nested(&mut orc, "builder.flatten", &tf);
            check_flat(&mut orc, &mut def, "builder.flatten", Kind::Builder, prog, tol, &xf, true, &ft);
            check_flat(&mut orc, &mut def, "builder.flatten", Kind::Builder, &xprog, tol, &id, true, &tf);
        }
        "sim" => {
            // m is an exact similarity of scale s (see gen_sim): flattening in the target space at
            // s*tol must give the transformed flattening of the source space at tol, call for call
            let s = m.m11.abs() + m.m12.abs();
            let ft = rec_run(|r| r.transformed(m).flattened(tol), n, cmds);
            let tf = rec_run(|r| r.flattened(s * tol).transformed(m), n, cmds);
            o.t("ft");
            put_prog(&mut o, &ft);
            o.t("tf");
            put_prog(&mut o, &tf);
            nested(&mut orc, "builder.flatten", &ft);
            nested(&mut orc, "builder.flatten", &tf);
            check_flat(&mut orc, &mut def, "builder.flatten", Kind::Builder, prog, tol, &xf, true, &ft);
            check_flat(&mut orc, &mut def, "builder.flatten", Kind::Builder, &xprog, s * tol, &id, true, &tf);
            orc.check(ft.len() == tf.len(), "builder.nesting/similarity", "generic", || format!("scale {}: flatten-then-transform emits {} calls, transform-then-flatten at s*tol {}", s, ft.len(), tf.len()));
            if ft.len() == tf.len() {
                for (i, (a, b)) in ft.iter().zip(tf.iter()).enumerate() {
                    orc.check(a == b, "builder.nesting/similarity", "generic", || format!("scale {}: call {}: flatten-then-transform {:?}, transform-then-flatten at s*tol {:?}", s, i, a, b));
                }
            }
        }
        "mir" => {
            // m is the mirror map (x, y) -> (x, -y), exact in floats: negation commutes with every
            // rounding of the flattener, so the mirror image must be flattened into the mirrored
            // polyline -- unless lyon_geom's sign test is hit at exactly 0 (see the family table)
            let fo = rec_run(|r| r.flattened(tol), n, cmds);
            let xcmds = prims(&xprog);
            let fm = rec_run(|r| r.flattened(tol), n, &xcmds);
            o.t("o");
            put_prog(&mut o, &fo);
            o.t("m");
            put_prog(&mut o, &fm);
            o.t("n").u(fo.len() as u64).u(fm.len() as u64);
            nested(&mut orc, "builder.flatten", &fo);
            nested(&mut orc, "builder.flatten", &fm);
            check_flat(&mut orc, &mut def, "builder.flatten", Kind::Builder, prog, tol, &id, true, &fo);
            check_flat(&mut orc, &mut def, "builder.flatten", Kind::Builder, &xprog, tol, &id, true, &fm);
            if fo.len() == fm.len() {
                let want = map_prog(&fo, &xf);
                for (i, (a, b)) in want.iter().zip(fm.iter()).enumerate() {
                    orc.check(a == b, "builder.nesting/mirror", "generic", || format!("call {}: mirrored flattening {:?}, flattening of the mirror image {:?}", i, a, b));
                }
            } else {
                // is a quadratic of the program flattened from the vertex of its parabola
                // (parabola_from == 0) or up to it (parabola_to == 0)? same expressions as lyon_geom
                let at_zero = curves_of(prog).iter().any(|c| match c {
                    Curve::Q(a, c, b) => {
                        let ddx = 2.0 * c.x - a.x - b.x;
                        let ddy = 2.0 * c.y - a.y - b.y;
                        let n1 = (c.x - a.x) * ddx + (c.y - a.y) * ddy;
                        let n2 = (b.x - c.x) * ddx + (b.y - c.y) * ddy;
                        n1 == 0.0 || n2 == 0.0
                    }
                    _ => false,
                });
                if at_zero {
                    orc.skip(&format!("mirror-asymmetry: {} calls vs {} for the mirror image; a quadratic has parabola_from or parabola_to exactly 0, where lyon_geom's sign test is not symmetric (observation C16-obs-flatten-mirror-asymmetry: the property does not demand mirror symmetry)", fo.len(), fm.len()));
                } else {
                    orc.check(false, "builder.nesting/mirror", "generic", || format!("{} calls vs {} for the mirror image, no quadratic at parabola parameter 0", fo.len(), fm.len()));
                }
            }
        }
        "na" => {
            let f = rec_run(|r| NoAttributes::wrap(r).flattened(tol), 0, cmds);
            let t = rec_run(|r| NoAttributes::wrap(r).transformed(m), 0, cmds);
            let ft = rec_run(|r| NoAttributes::wrap(r).transformed(m).flattened(tol), 0, cmds);
            o.t("f");
            put_prog(&mut o, &f);
            o.t("t");
            put_prog(&mut o, &t);
            o.t("ft");
            put_prog(&mut o, &ft);
            nested(&mut orc, "builder.flatten", &f);
            check_flat(&mut orc, &mut def, "builder.flatten", Kind::Builder, prog, tol, &id, false, &f);
            check_xf(&mut orc, "builder.transform", &strip_attrs(prog), &m, &t);
            check_flat(&mut orc, &mut def, "builder.flatten", Kind::Builder, prog, tol, &xf, false, &ft);
            // the same three through the INHERENT methods of NoAttributes (`add_rectangle(&rect, winding)`
            // forwards to the wrapped adapter's provided `add_rectangle(.., NO_ATTRIBUTES)`)
            let fi = rec_run_na(|r| NoAttributes::wrap(r).flattened(tol), cmds);
            let ti = rec_run_na(|r| NoAttributes::wrap(r).transformed(m), cmds);
            let fti = rec_run_na(|r| NoAttributes::wrap(r).transformed(m).flattened(tol), cmds);
            o.t("fi");
            put_prog(&mut o, &fi);
            o.t("ti");
            put_prog(&mut o, &ti);
            o.t("fti");
            put_prog(&mut o, &fti);
            nested(&mut orc, "builder.flatten", &fi);
            check_flat(&mut orc, &mut def, "builder.flatten", Kind::Builder, prog, tol, &id, false, &fi);
            check_xf(&mut orc, "builder.transform", &strip_attrs(prog), &m, &ti);
            check_flat(&mut orc, &mut def, "builder.flatten", Kind::Builder, prog, tol, &xf, false, &fti);
        }
        "pb" => {
            // `Path::builder()` is a NoAttributes<_>: its inherent methods (what a user calls)
            let pf = adapter_path(0, cmds, &|p| {
                let mut b = Path::builder().flattened(tol);
                drive_na(&mut b, p);
                b.build()
            });
            let f: Vec<Ev> = pf.iter().map(ev_plain).collect();
            let pt = adapter_path(0, cmds, &|p| {
                let mut b = Path::builder().transformed(m);
                drive_na(&mut b, p);
                b.build()
            });
            let t: Vec<Ev> = pt.iter().map(ev_plain).collect();
            let fa = evs_with_attrs(&adapter_path(n, cmds, &|p| {
                let mut b = Path::builder_with_attributes(n).flattened(tol);
                drive(&mut b, p);
                b.build()
            }));
            let ta = evs_with_attrs(&adapter_path(n, cmds, &|p| {
                let mut b = Path::builder_with_attributes(n).transformed(m);
                drive(&mut b, p);
                b.build()
            }));
            o.t("f");
            put_evs(&mut o, &f);
            o.t("fa");
            put_evs(&mut o, &fa);
            o.t("ta");
            put_evs(&mut o, &ta);
            o.t("t");
            put_evs(&mut o, &t);
            ev_xf(&mut orc, "builder.transform", &strip_attrs(prog), &m, &t);
            ev_flat(&mut orc, &mut def, "builder.flatten", Kind::Builder, prog, tol, &id, false, &f);
            ev_flat(&mut orc, &mut def, "builder.flatten", Kind::Builder, prog, tol, &id, true, &fa);
            ev_xf(&mut orc, "builder.transform", prog, &m, &ta);
        }
        "it" => {
            let path = build_path(n, cmds);
            let f: Vec<Ev> = path.iter().flattened(tol).map(ev_plain).collect();
            let mut a: Vec<Ev> = vec![];
            path.iter_with_attributes().for_each_flattened(tol, &mut |e| a.push(ev_attr(e)));
            o.t("f");
            put_evs(&mut o, &f);
            o.t("a");
            put_evs(&mut o, &a);
            ev_flat(&mut orc, &mut def, "iter.for-each-flattened", Kind::AttrIter, prog, tol, &id, true, &a);
            ev_flat(&mut orc, &mut def, "iter.flatten", Kind::Iter, prog, tol, &id, false, &f);
        }
        "e2e" => {
            let calls = rec_run(|r| Flattened::new(r, tol), n, cmds);
            let path = build_path(n, cmds);
            let f: Vec<Ev> = path.iter().flattened(tol).map(ev_plain).collect();
            let mut a: Vec<Ev> = vec![];
            path.iter_with_attributes().for_each_flattened(tol, &mut |e| a.push(ev_attr(e)));
            o.t("b");
            put_prog(&mut o, &calls);
            o.t("f");
            put_evs(&mut o, &f);
            o.t("a");
            put_evs(&mut o, &a);
            nested(&mut orc, "builder.flatten", &calls);
            check_flat(&mut orc, &mut def, "builder.flatten", Kind::Builder, prog, tol, &id, true, &calls);
            ev_flat(&mut orc, &mut def, "iter.for-each-flattened", Kind::AttrIter, prog, tol, &id, true, &a);
            ev_flat(&mut orc, &mut def, "iter.flatten", Kind::Iter, prog, tol, &id, false, &f);
        }
        "e2ep" => {
            // builder-side Flattened and for_each_flattened where "lyon_geom panics" is a modelled
            // outcome (`none` of flatBuilderC / flatAttrIterC in Model/Path/AdaptersConcrete.lean)
            let r = vh::guarded(|| {
                let calls = rec_run(|r| Flattened::new(r, tol), n, cmds);
                let path = build_path(n, cmds);
                let mut a: Vec<Ev> = vec![];
                path.iter_with_attributes().for_each_flattened(tol, &mut |e| a.push(ev_attr(e)));
                (calls, a)
            });
            match r {
                None => {
                    o.t("panic");
                    orc.skip("lyon_geom panics (count.to_u32().unwrap()) on a curve whose segment count does not fit u32: observation, outside C16's statement");
                }
                Some((calls, a)) => {
                    o.t("b");
                    put_prog(&mut o, &calls);
                    o.t("a");
                    put_evs(&mut o, &a);
                    nested(&mut orc, "builder.flatten", &calls);
                    check_flat(&mut orc, &mut def, "builder.flatten", Kind::Builder, prog, tol, &id, true, &calls);
                    ev_flat(&mut orc, &mut def, "iter.for-each-flattened", Kind::AttrIter, prog, tol, &id, true, &a);
                }
            }
        }
        "ix" => {
            let path = build_path(n, cmds);
            let t: Vec<Ev> = path.iter().transformed(&m).map(ev_plain).collect();
            let stored = path.clone().transformed(&m);
            let s = evs_with_attrs(&stored);
            let sp: Vec<Ev> = stored.iter().map(ev_plain).collect();
            o.t("t");
            put_evs(&mut o, &t);
            o.t("s");
            put_evs(&mut o, &s);
            ev_xf(&mut orc, "iter.transform", &strip_attrs(prog), &m, &t);
            ev_xf(&mut orc, "stored.transform", prog, &m, &s);
            // builder side = iterator side = stored, bit for bit
            let bp = adapter_path(n, cmds, &|p| {
                let mut b = Path::builder_with_attributes(n).transformed(m);
                drive(&mut b, p);
                b.build()
            });
            let bside: Vec<Ev> = bp.iter().map(ev_plain).collect();
            orc.check(bside == t && sp == t, "transform/three-routes-agree", "generic", || format!("builder {:?} iterator {:?} stored {:?}", bside, t, sp));
            orc.check(evs_with_attrs(&bp) == s, "transform/three-routes-agree", "generic", || "builder-side and stored differ in attributes".to_string());
        }
        "in" => {
            let path = build_path(n, cmds);
            let tf: Vec<Ev> = path.iter().transformed(&m).flattened(tol).map(ev_plain).collect();
            let ft: Vec<Ev> = path.iter().flattened(tol).transformed(&m).map(ev_plain).collect();
            o.t("tf");
            put_evs(&mut o, &tf);
            o.t("ft");
            put_evs(&mut o, &ft);
            ev_flat(&mut orc, &mut def, "iter.flatten", Kind::Iter, &xprog, tol, &id, false, &tf);
            ev_flat(&mut orc, &mut def, "iter.flatten", Kind::Iter, prog, tol, &xf, false, &ft);
        }
        _ => unreachable!(),
    }
    // listed findings last, so that they never mask a different violation
    for (clause, class, msg) in def.0 {
        orc.check(false, &clause, &class, || msg);
    }
    CaseOut { imp: o, orcl: orc.verdict }
}

fn emit(ctx: &mut Ctx, fam: &'static str, fixed: Option<Input>) {
    ctx.case(fam, |rng| {
        let mut inp = match fixed {
            Some(i) => i,
            None => gen_input(rng),
        };
        if fam == "sim" {
            inp.m = gen_sim(rng);
            inp.tag = format!("{} similarity", inp.tag);
        }
        let mut args = put_input(&inp);
        put_advice(&mut args, fam, &inp);
        let tag = format!("{} {}", fam, inp.tag);
        (args, tag, move || run_family(fam, &inp))
    });
}

/// family `mir`: a generated program of lines and quadratics (no cubics: the harness classifies the
/// asymmetric case on the quadratics it can see)
fn ctx_mir(ctx: &mut Ctx, mirror: Transform) {
    ctx.case("mir", |rng| {
        let lattice = rng.chance(1, 2);
        let mut co = |rng: &mut Rng| -> f32 {
            if lattice {
                rng.range(-8, 8) as f32
            } else {
                rng.uniform(-10.0, 10.0) as f32
            }
        };
        let n = rng.below(3) as usize;
        let mut prog = vec![Op::B(point(co(rng), co(rng)), gen_attrs(rng, n, lattice))];
        for _ in 0..1 + rng.below(3) {
            if rng.chance(1, 4) {
                prog.push(Op::L(point(co(rng), co(rng)), gen_attrs(rng, n, lattice)));
            } else {
                prog.push(Op::Q(point(co(rng), co(rng)), point(co(rng), co(rng)), gen_attrs(rng, n, lattice)));
            }
        }
        prog.push(Op::E(rng.chance(1, 2)));
        let tol = gen_tol(rng, false);
        let inp = Input::new(n, tol, mirror, prims(&prog), format!("{} lines+quadratics", if lattice { "lattice" } else { "uniform" }));
        let args = put_input(&inp);
        let tag = format!("mir {}", inp.tag);
        (args, tag, move || run_family("mir", &inp))
    });
}

// ---------------------------------------------------------------------------------------------
// family `ip`: the iterator-side adapters on PARTIAL event streams
//
// `iterator::Transformed` / `Flattened` are adapters over ANY `Iterator<Item = PathEvent>`, not
// only over the complete stream of a well-formed path: events may have been taken out of the
// iterator before the adapter is attached (`let mut it = path.iter(); it.next(); it.transformed(..)`),
// or removed upstream of it (`skip`, `filter`, `take`, `chain`).  Their contract on such a stream:
// `Transformed` is a per-event map (`out[i] = in[i].transformed(m)`), `Flattened` replaces each
// curve event by the flattening of THAT event's own `from / ctrl / to` and passes every other
// event through - no state is carried from one event to the next.

#[derive(Clone, Copy, Debug, PartialEq)]
enum Mode {
    Whole,
    /// `let mut it = path.iter(); k x it.next(); it.<adapter>` (also `iter_with_attributes`)
    Resume(usize),
    /// `path.iter().skip(k)`
    Skip(usize),
    /// `path.iter().filter(|e| e.is_edge())`
    Edges,
    /// `path.iter().skip(k).take(j)`
    Range(usize, usize),
    /// `path.iter().skip(k).chain(path.iter().take(j))`
    Chain(usize, usize),
}

impl Mode {
    fn name(&self) -> &'static str {
        match self {
            Mode::Whole => "whole",
            Mode::Resume(_) => "resume-after-next",
            Mode::Skip(_) => "skip",
            Mode::Edges => "edges-only",
            Mode::Range(..) => "sub-range",
            Mode::Chain(..) => "chained",
        }
    }
    /// the indices of the whole stream (length `l`) the partial stream consists of
    fn select(&self, whole: &[Ev]) -> Vec<usize> {
        let l = whole.len();
        match *self {
            Mode::Whole => (0..l).collect(),
            Mode::Resume(k) | Mode::Skip(k) => (k.min(l)..l).collect(),
            Mode::Edges => (0..l).filter(|i| matches!(&whole[*i], Ev::L(..) | Ev::Q(..) | Ev::C(..) | Ev::E(_, _, true))).collect(),
            Mode::Range(k, j) => (k.min(l)..(k + j).min(l)).collect(),
            Mode::Chain(k, j) => (k.min(l)..l).chain(0..j.min(l)).collect(),
        }
    }
}

fn partial<'a>(path: &'a Path, mode: Mode) -> Box<dyn Iterator<Item = PathEvent> + 'a> {
    match mode {
        Mode::Whole => Box::new(path.iter()),
        Mode::Resume(k) => {
            let mut it = path.iter();
            for _ in 0..k {
                it.next();
            }
            Box::new(it)
        }
        Mode::Skip(k) => Box::new(path.iter().skip(k)),
        Mode::Edges => Box::new(path.iter().filter(|e| e.is_edge())),
        Mode::Range(k, j) => Box::new(path.iter().skip(k).take(j)),
        Mode::Chain(k, j) => Box::new(path.iter().skip(k).chain(path.iter().take(j))),
    }
}

fn map_ev(e: &Ev, f: &dyn Fn(Point) -> Point) -> Ev {
    let g = |a: &AP| (f(a.0), a.1.clone());
    match e {
        Ev::B(a) => Ev::B(g(a)),
        Ev::L(a, b) => Ev::L(g(a), g(b)),
        Ev::Q(a, c, b) => Ev::Q(g(a), f(*c), g(b)),
        Ev::C(a, c, d, b) => Ev::C(g(a), f(*c), f(*d), g(b)),
        Ev::E(l, fi, cl) => Ev::E(g(l), g(fi), *cl),
    }
}

fn strip_ev(e: &Ev) -> Ev {
    let z = |a: &AP| (a.0, vec![]);
    match e {
        Ev::B(a) => Ev::B(z(a)),
        Ev::L(a, b) => Ev::L(z(a), z(b)),
        Ev::Q(a, c, b) => Ev::Q(z(a), *c, z(b)),
        Ev::C(a, c, d, b) => Ev::C(z(a), *c, *d, z(b)),
        Ev::E(l, f, cl) => Ev::E(z(l), z(f), *cl),
    }
}

fn ev_curve(e: &Ev) -> Option<Curve> {
    match e {
        Ev::Q(a, c, b) => Some(Curve::Q(a.0, *c, b.0)),
        Ev::C(a, c, d, b) => Some(Curve::C(a.0, *c, *d, b.0)),
        _ => None,
    }
}

/// the contract of `iterator::Flattened` on any (plain) event list
fn flat_ref(evs: &[Ev], tol: f32) -> Vec<Ev> {
    let mut out = vec![];
    for e in evs {
        match ev_curve(e) {
            None => out.push(e.clone()),
            Some(c) => {
                let mut from = c.pts()[0];
                for q in geom_iter(&c, tol) {
                    out.push(Ev::L((from, vec![]), (q, vec![])));
                    from = q;
                }
            }
        }
    }
    out
}

fn cmp_evs(orc: &mut Oracle, clause: &str, what: &str, got: &[Ev], want: &[Ev]) {
    orc.check(got.len() == want.len(), clause, "generic", || format!("{}: {} events out, {} expected", what, got.len(), want.len()));
    for (i, (g, w)) in got.iter().zip(want).enumerate() {
        orc.check(g == w, clause, "generic", || format!("{}: event {}: got {:?}, the adapter's contract on this event gives {:?}", what, i, g, w));
    }
}

fn emit_ip(ctx: &mut Ctx, fixed: Option<(Input, Mode)>) {
    ctx.case("ip", |rng| {
        let (inp, mode) = match fixed {
            Some(x) => x,
            None => {
                let inp = gen_input(rng);
                let l = 2 + inp.prog.len();
                let k = 1 + rng.below(l as u64) as usize;
                let j = rng.below(l as u64 + 2) as usize;
                let mode = match rng.below(12) {
                    0 => Mode::Whole,
                    1..=3 => Mode::Resume(k),
                    4 | 5 => Mode::Skip(k),
                    6 | 7 => Mode::Edges,
                    8 | 9 => Mode::Range(k, j),
                    _ => Mode::Chain(k, j),
                };
                (inp, mode)
            }
        };
        let (n, tol, m) = (inp.n, inp.tol, inp.m);
        let path = vh::guarded(|| build_path(n, &inp.cmds)).unwrap_or_else(|| Path::new());
        let whole = evs_with_attrs(&path);
        let sel = mode.select(&whole);
        let aevs: Vec<Ev> = sel.iter().map(|i| whole[*i].clone()).collect();
        let evs: Vec<Ev> = aevs.iter().map(strip_ev).collect();
        let with_a = matches!(mode, Mode::Resume(_) | Mode::Whole);
        let xf = move |p: Point| m.transform_point(p);
        // CASE: the event list itself (the model takes arbitrary event lists)
        let mut args = Out::new();
        args.u(n as u64).f(tol);
        args.f(m.m11).f(m.m12).f(m.m21).f(m.m22).f(m.m31).f(m.m32);
        args.t(if with_a { "S" } else { "G" });
        put_evs(&mut args, &aevs);
        let curves: Vec<Curve> = evs.iter().filter_map(ev_curve).collect();
        let xcurves: Vec<Curve> = evs.iter().map(|e| map_ev(e, &xf)).filter_map(|e| ev_curve(&e)).collect();
        if with_a {
            for c in &curves {
                args.t("|").t(if c.is_cubic() { "FC" } else { "FQ" });
                for p in c.pts() {
                    args.p(p);
                }
                let segs = vh::guarded(|| geom_cb(c, tol)).unwrap_or_default();
                args.u(segs.len() as u64);
                for s in segs {
                    args.p(s.0).p(s.1).f(s.2);
                }
            }
        }
        for c in curves.iter().chain(xcurves.iter()) {
            args.t("|").t(if c.is_cubic() { "IC" } else { "IQ" });
            for p in c.pts() {
                args.p(p);
            }
            let pts = vh::guarded(|| geom_iter(c, tol)).unwrap_or_default();
            args.u(pts.len() as u64);
            for q in pts {
                args.p(q);
            }
        }
        let has_begin_first = matches!(evs.first(), Some(Ev::B(_)) | None);
        let tag = format!("ip {} {}{} {}", mode.name(), if has_begin_first { "starts-at-begin" } else { "starts-inside-subpath" }, if evs.is_empty() { " trivial empty" } else { "" }, inp.tag);
        (args, tag, move || {
            let mut o = Out::new();
            let mut orc = Oracle::new();
            let real: Vec<Ev> = partial(&path, mode).map(ev_plain).collect();
            orc.check(real == evs, "harness/selection", "generic", || format!("partial stream {:?} differs from the selected events", mode));
            let t: Vec<Ev> = partial(&path, mode).transformed(&m).map(ev_plain).collect();
            let f: Vec<Ev> = partial(&path, mode).flattened(tol).map(ev_plain).collect();
            let tf: Vec<Ev> = partial(&path, mode).transformed(&m).flattened(tol).map(ev_plain).collect();
            let ft: Vec<Ev> = partial(&path, mode).flattened(tol).transformed(&m).map(ev_plain).collect();
            o.t("t");
            put_evs(&mut o, &t);
            o.t("f");
            put_evs(&mut o, &f);
            o.t("tf");
            put_evs(&mut o, &tf);
            o.t("ft");
            put_evs(&mut o, &ft);
            let want_t: Vec<Ev> = evs.iter().map(|e| map_ev(e, &xf)).collect();
            let want_f = flat_ref(&evs, tol);
            cmp_evs(&mut orc, "iter.transform/per-event", "transformed", &t, &want_t);
            cmp_evs(&mut orc, "iter.flatten/per-event", "flattened", &f, &want_f);
            cmp_evs(&mut orc, "iter.nesting/per-event", "transformed then flattened", &tf, &flat_ref(&want_t, tol));
            let want_ft: Vec<Ev> = want_f.iter().map(|e| map_ev(e, &xf)).collect();
            cmp_evs(&mut orc, "iter.nesting/per-event", "flattened then transformed", &ft, &want_ft);
            if with_a {
                // `for_each_flattened` resumed after `k` events were taken out of the iterator
                let mut a: Vec<Ev> = vec![];
                let mut it = path.iter_with_attributes();
                if let Mode::Resume(k) = mode {
                    for _ in 0..k {
                        it.next();
                    }
                }
                it.for_each_flattened(tol, &mut |e| a.push(ev_attr(e)));
                o.t("a");
                put_evs(&mut o, &a);
                // per event: a curve becomes lyon_geom's callback segments, the attributes of the
                // inserted points interpolated between THIS event's endpoints
                let mut k = 0usize;
                for (i, e) in aevs.iter().enumerate() {
                    match ev_curve(e) {
                        None => {
                            orc.check(a.get(k) == Some(e), "iter.for-each-flattened/per-event", "generic", || format!("event {} {:?} must pass through, got {:?}", i, e, a.get(k)));
                            k += 1;
                        }
                        Some(c) => {
                            let (fa, ta) = match e {
                                Ev::Q(x, _, y) | Ev::C(x, _, _, y) => (x.1.clone(), y.1.clone()),
                                _ => unreachable!(),
                            };
                            let segs = geom_cb(&c, tol);
                            let mut prev = fa.clone();
                            for (j, s) in segs.iter().enumerate() {
                                match a.get(k + j) {
                                    Some(Ev::L(x, y)) => {
                                        let ok = x.0 == s.0 && y.0 == s.1 && attrs_eq(&x.1, &prev) && interp_ok(&y.1, &fa, &ta, s.2);
                                        orc.check(ok, "iter.for-each-flattened/per-event", "generic", || format!("event {} ({:?}) segment {}: got {:?} -> {:?}, expected {:?} -> {:?} at t={} between {:?} and {:?}", i, c, j, x, y, s.0, s.1, s.2, fa, ta));
                                        prev = y.1.clone();
                                    }
                                    g => orc.check(false, "iter.for-each-flattened/per-event", "generic", || format!("event {} segment {}: got {:?}", i, j, g)),
                                }
                            }
                            k += segs.len();
                        }
                    }
                    if orc.failed() {
                        break;
                    }
                }
                if !orc.failed() {
                    orc.check(k == a.len(), "iter.for-each-flattened/per-event", "generic", || format!("{} events out, {} expected", a.len(), k));
                }
            }
            CaseOut { imp: o, orcl: orc.verdict }
        })
    });
}

fn main() {
    let mut ctx = Ctx::from_args("C16");
    // witnesses
    let p = |x: f32, y: f32| point(x, y);
    let wit: Vec<(&str, usize, f32, Vec<Op>)> = vec![
        // the witness of the (repaired, babe4617) finding: begin[10] Q … [20]
        ("first-curve-after-begin quad", 1, 0.01, vec![Op::B(p(0., 0.), vec![10.]), Op::Q(p(5., 10.), p(10., 0.), vec![20.]), Op::E(false)]),
        ("first-curve-after-begin cubic", 2, 0.05, vec![Op::B(p(0., 0.), vec![10., -4.]), Op::C(p(0., 10.), p(10., 10.), p(10., 0.), vec![20., 4.]), Op::E(true)]),
        // stale attributes from the previous sub-path
        (
            "first-curve-after-begin stale",
            1,
            0.05,
            vec![Op::B(p(0., 0.), vec![1.]), Op::L(p(4., 0.), vec![7.]), Op::E(false), Op::B(p(0., 5.), vec![100.]), Op::Q(p(5., 15.), p(10., 5.), vec![200.]), Op::E(false)],
        ),
        // not the first edge: interpolation is right
        ("curve-after-line", 1, 0.05, vec![Op::B(p(0., 0.), vec![10.]), Op::L(p(1., 0.), vec![10.]), Op::Q(p(5., 10.), p(10., 0.), vec![20.]), Op::E(false)]),
        // lyon's own test `flattened_custom_attributes`-like: line, quad, cubic
        (
            "mixed",
            3,
            0.1,
            vec![
                Op::B(p(0., 0.), vec![0., 1., 2.]),
                Op::L(p(10., 0.), vec![1., 2., 3.]),
                Op::Q(p(10., 10.), p(0., 10.), vec![2., 3., 4.]),
                Op::C(p(-5., 10.), p(-5., 0.), p(0., 0.), vec![3., 4., 5.]),
                Op::E(true),
            ],
        ),
    ];
    // attribute counts around the stack/heap switch of `for_each_flattened` (`<= 8`: 16-slot stack
    // buffer holding from- and to-attributes side by side)
    let mut wit = wit;
    for n in [5usize, 8, 9, 10] {
        let a = |k: f32| -> Vec<f32> { (0..n).map(|i| k + i as f32).collect() };
        wit.push((
            "attribute-buffer-boundary",
            n,
            0.1,
            vec![Op::B(p(0., 0.), a(1.)), Op::Q(p(5., 10.), p(10., 0.), a(20.)), Op::C(p(12., 4.), p(16., -4.), p(20., 0.), a(-3.)), Op::L(p(0., -5.), a(0.5)), Op::E(true)],
        ));
    }
    for (name, n, tol, prog) in wit {
        for fam in ["wit", "it", "pb"] {
            let inp = Input::new(n, tol, Transform::new(2.0, 1.0, -1.0, 3.0, 5.0, -7.0), prims(&prog), format!("witness {}", name));
            emit(&mut ctx, fam, Some(inp));
        }
    }
    // the panic outcome of lyon_geom's callback flattener (segment count >= 2^32) next to ordinary
    // programs, builder side and for_each_flattened (the iterator route would not terminate)
    let big = 1.0e6f32;
    let pw: Vec<(&str, usize, f32, Vec<Op>)> = vec![
        ("count-overflow quad", 1, 1.0e-14, vec![Op::B(p(0., 0.), vec![1.]), Op::Q(p(0.5 * big, big), p(big, 0.), vec![2.]), Op::E(false)]),
        ("count-overflow cubic", 0, 1.0e-30, vec![Op::B(p(0., 0.), vec![]), Op::C(p(0., big), p(big, big), p(big, 0.), vec![]), Op::E(true)]),
        (
            "count-overflow second curve",
            2,
            1.0e-30,
            vec![Op::B(p(0., 0.), vec![1., 2.]), Op::L(p(1., 0.), vec![3., 4.]), Op::L(p(2., 1.), vec![5., 6.]), Op::Q(p(0.5 * big, big), p(big, 0.), vec![7., 8.]), Op::E(true)],
        ),
        ("no-overflow lines", 1, 1.0e-30, vec![Op::B(p(0., 0.), vec![1.]), Op::L(p(big, 0.), vec![2.]), Op::L(p(big, big), vec![3.]), Op::E(true)]),
        (
            "no-overflow mixed",
            3,
            0.1,
            vec![
                Op::B(p(0., 0.), vec![0., 1., 2.]),
                Op::L(p(10., 0.), vec![1., 2., 3.]),
                Op::Q(p(10., 10.), p(0., 10.), vec![2., 3., 4.]),
                Op::C(p(-5., 10.), p(-5., 0.), p(0., 0.), vec![3., 4., 5.]),
                Op::E(true),
            ],
        ),
        ("no-overflow small tolerance", 1, 1.0e-4, vec![Op::B(p(0., 0.), vec![1.]), Op::Q(p(5., 10.), p(10., 0.), vec![2.]), Op::C(p(12., 4.), p(16., -4.), p(20., 0.), vec![-3.]), Op::E(false)]),
    ];
    for (name, n, tol, prog) in pw {
        let inp = Input::new(n, tol, Transform::identity(), prims(&prog), format!("witness {}", name));
        emit(&mut ctx, "e2ep", Some(inp));
    }
    // the provided methods of PathBuilder sent through the adapters, under maps with rotation /
    // skew / mirroring (an adapter that handles a helper itself instead of letting its default
    // body call the adapter's primitives is right only for special maps)
    let box_ = |x0: f32, y0: f32, x1: f32, y1: f32| (p(x0, y0), p(x1, y1));
    let hw: Vec<(&str, usize, Vec<Cmd>)> = vec![
        ("helpers rectangles", 0, {
            let (a, b) = box_(1., 2., 5., 4.);
            let (c, d) = box_(-4., -8., -1., -6.);
            vec![Cmd::Rect(a, b, true, vec![]), Cmd::Rect(c, d, false, vec![])]
        }),
        ("helpers every provided method", 2, {
            let (a, b) = box_(1., 2., 9., 8.);
            vec![
                Cmd::PathEv(Op::B(p(-3., -1.), vec![1., 2.]), p(9., 9.), p(8., 8.), vec![]),
                Cmd::Ev(Op::L(p(-2., 4.), vec![3., 4.]), (p(7., 7.), vec![-1., -1.]), (p(6., 6.), vec![-2., -2.])),
                Cmd::PathEv(Op::Q(p(0., 6.), p(1., 1.), vec![5., 6.]), p(9., 9.), p(8., 8.), vec![]),
                Cmd::Ev(Op::C(p(2., 0.), p(3., 3.), p(4., 1.), vec![7., 8.]), (p(7., 7.), vec![-1., -1.]), (p(6., 6.), vec![-2., -2.])),
                Cmd::Close,
                Cmd::Rect(a, b, true, vec![10., 20.]),
                Cmd::RRect(a, b, [1.0, 2.0, 0.0, 5.0], false, vec![11., 21.]),
                Cmd::Circle(p(3., -2.), 2.5, true, vec![12., 22.]),
                Cmd::Ellipse(p(-3., 2.), vector(4.0, 1.5), 0.5, false, vec![13., 23.]),
                Cmd::Poly(vec![p(0., 0.), p(4., 0.), p(2., 3.)], true, vec![14., 24.]),
                Cmd::Poly(vec![], true, vec![0., 0.]),
                Cmd::Pt(p(7., 7.), vec![15., 25.]),
                Cmd::Seg(p(7., 0.), p(9., 1.), vec![16., 26.]),
                Cmd::P(Op::B(p(7., 7.), vec![1., 1.])),
                Cmd::P(Op::C(p(8., 9.), p(10., 9.), p(11., 7.), vec![2., 2.])),
                Cmd::PathEv(Op::E(false), p(9., 9.), p(8., 8.), vec![5., 5.]),
            ]
        }),
        ("helpers concatenated", 1, {
            let (a, b) = box_(0., 0., 4., 2.);
            vec![
                Cmd::Circle(p(0., 0.), 3.0, false, vec![1.]),
                Cmd::Cut,
                Cmd::Rect(a, b, false, vec![2.]),
                Cmd::Cut,
                Cmd::P(Op::B(p(1., 1.), vec![3.])),
                Cmd::P(Op::Q(p(2., 5.), p(3., 1.), vec![4.])),
                Cmd::Close,
                Cmd::Cut,
                Cmd::Cut,
                Cmd::Seg(p(5., 5.), p(6., 7.), vec![5.]),
            ]
        }),
    ];
    let maps: Vec<Transform> = vec![
        Transform::new(0.0, 1.0, -1.0, 0.0, 3.0, -2.0),  // quarter turn + translation
        Transform::new(1.0, 0.0, 0.5, 1.0, 0.0, 0.0),    // skew
        Transform::new(-2.0, 0.0, 0.0, 3.0, 1.0, 1.0),   // mirrored non-uniform scale
        Transform::new(0.6, 0.8, -0.8, 0.6, -1.0, 2.0),  // rotation (3-4-5)
    ];
    for (name, n, cmds) in hw {
        for (mi, m) in maps.iter().enumerate() {
            for fam in ["bt", "bn", "na", "pb", "ix", "it", "in", "e2e"] {
                if mi > 0 && matches!(fam, "it" | "e2e") {
                    continue; // no transform in these
                }
                let inp = Input::new(n, 0.05, *m, cmds.clone(), format!("witness {} map{}", name, mi));
                emit(&mut ctx, fam, Some(inp));
            }
        }
    }
    // partial streams: fixed witnesses (the adapter does not see the Begin of the sub-path)
    {
        let prog = vec![
            Op::B(p(1., 2.), vec![1.]),
            Op::L(p(4., 2.), vec![2.]),
            Op::Q(p(6., 6.), p(1., 5.), vec![3.]),
            Op::E(true),
            Op::B(p(-3., 0.), vec![4.]),
            Op::C(p(-3., 4.), p(1., 4.), p(1., 0.), vec![5.]),
            Op::E(false),
        ];
        for mode in [Mode::Resume(1), Mode::Resume(2), Mode::Skip(1), Mode::Skip(5), Mode::Edges, Mode::Range(2, 3), Mode::Chain(5, 3), Mode::Whole] {
            let inp = Input::new(1, 0.05, Transform::new(0.0, 1.0, -1.0, 0.0, 3.0, -2.0), prims(&prog), "witness partial-stream".to_string());
            emit_ip(&mut ctx, Some((inp, mode)));
        }
    }
    // a program and its mirror image through the real builder-side Flattened: the witnesses of the
    // observation C16-obs-flatten-mirror-asymmetry (a quadratic starting at the vertex of its
    // parabola), the same curve at tolerances where the counts agree, and generated programs of
    // lines and quadratics (lattice: many hit parabola parameter 0 exactly; uniform: generic)
    let mirror = Transform::new(1.0, 0.0, 0.0, -1.0, 0.0, 0.0);
    for (k, tol) in [0.0573f32, 0.0572, 0.0571, 0.0254, 0.05, 0.01, 0.2].iter().enumerate() {
        let prog = vec![Op::B(p(0., 0.), vec![1.]), Op::Q(p(1., 0.), p(2., 1.), vec![2.]), Op::E(false)];
        let inp = Input::new(1, *tol, mirror, prims(&prog), format!("witness mirror-asymmetry {}", k));
        emit(&mut ctx, "mir", Some(inp));
    }
    {
        // ends at the vertex (parabola_to = 0), and a closed two-curve path
        let prog = vec![Op::B(p(2., 1.), vec![]), Op::Q(p(1., 0.), p(0., 0.), vec![]), Op::Q(p(-1., 0.), p(-2., 3.), vec![]), Op::E(true)];
        for tol in [0.0573f32, 0.0254, 0.1] {
            let inp = Input::new(0, tol, mirror, prims(&prog), "witness mirror-asymmetry to-vertex".to_string());
            emit(&mut ctx, "mir", Some(inp));
        }
    }
    for _ in 0..ctx.n(400, 4000) {
        ctx_mir(&mut ctx, mirror);
    }
    let k = ctx.n(2000, 25000);
    for _ in 0..k {
        for fam in ["bf", "bt", "bn", "na", "pb", "it", "ix", "in"] {
            emit(&mut ctx, fam, None);
        }
        emit(&mut ctx, "e2e", None);
        emit(&mut ctx, "sim", None);
        emit_ip(&mut ctx, None);
    }
    ctx.finish();
}
