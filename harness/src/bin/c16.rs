//! C16 — flatten / transform adapters commute with building; attributes interpolate in t.
//!
//! One builder program (`begin/line/quad/cubic/end` with `n` = 0..10 custom attributes, a
//! tolerance and an affine map) is pushed through the REAL adapters; which ones depends on the
//! family:
//!
//! | family | routes (label: what is printed) |
//! |---|---|
//! | `wit`/`bf` | `builder::Flattened::new(Rec(n), tol)`: calls received by the recording builder |
//! | `bt` | `builder::Transformed::new(Rec(n), m)` |
//! | `bn` | `ft` `Rec.transformed(m).flattened(tol)` (flatten, then transform) / `tf` `Rec.flattened(tol).transformed(m)` |
//! | `na` | `NoAttributes::wrap(Rec(0))` `.flattened(tol)` (`f`), `.transformed(m)` (`t`), `.transformed(m).flattened(tol)` (`ft`) driven through its `PathBuilder` impl with attributes |
//! | `pb` | real paths: `Path::builder().flattened(tol)` → `iter` (`f`), `Path::builder_with_attributes(n).flattened(tol)` → `iter_with_attributes` (`fa`), `….transformed(m)` (`ta`) |
//! | `it` | stored path: `path.iter().flattened(tol)` (`f`), `iter_with_attributes().for_each_flattened` (`a`) |
//! | `ix` | `path.iter().transformed(&m)` (`t`), `path.clone().transformed(&m).iter_with_attributes()` (`s`) |
//! | `in` | `path.iter().transformed(&m).flattened(tol)` (`tf`), `path.iter().flattened(tol).transformed(&m)` (`ft`) |
//! | `e2e` | `Flattened::new(Rec(n), tol)` (`b`), `path.iter().flattened(tol)` (`f`), `for_each_flattened` (`a`) — no advice: the model side runs the C09 model of lyon_geom's flattener (end-to-end tie) |
//! | `sim` | `m` an EXACT similarity (scale 2^k, quarter-turn rotation, no translation: every float operation of the flattener commutes with it), `s` its scale: `ft` `Rec.transformed(m).flattened(tol)` (flatten at `tol` in the source space, then transform) / `tf` `Rec.flattened(s·tol).transformed(m)` (transform, then flatten at `s·tol` in the target space); model: `flatBuilderC` with the C09 flattener model (no advice); oracle `builder.nesting/similarity`: the two routes agree call for call (theorem `flatten_transform_similarity_concrete`) |
//! | `e2ep` | `e2e` without the iterator route, on fixed programs incl. curves whose segment count does not fit `u32`: lyon_geom panics in `count.to_u32().unwrap()`; the model's `flatBuilderC` / `flatAttrIterC` are `none` there and print `panic` too (the outcome the theorems of `Props/C16b.lean` exclude by `… = some out`) |
//!
//! CASE  `n tol m11 m12 m21 m22 m31 m32 <prog>`; prog = `B x y a*n | L x y a*n | Q cx cy x y a*n |
//!       C c1 c2 x y a*n | E 0/1`, then the ADVICE: for every curve a route will flatten (in the
//!       space where it is flattened) what lyon_geom's flattener returns for it —
//!       `| FQ/FC <control points> k (from to t)*k` (`for_each_flattened_with_t`) and
//!       `| IQ/IC <control points> k (point)*k` (the `Flattened` iterators).  The curve flattener
//!       is a parameter of the C16 model and theorems (its own correctness is property C09).
//! IMPL  calls (`B/L/Q/C/E` + attributes) or events (`b/l/q/c/e`, with attributes where the
//!       route has them), routes separated by their labels.
//! ORCL  on the real outputs: only lines after flattening; well nested / connected; every
//!       original endpoint exactly, in order, with its attributes; the positions emitted for a
//!       curve are bit-for-bit those of lyon_geom's flattener on the true curve (so "within
//!       tolerance" is C09's statement about that flattener) and, for well-conditioned curves,
//!       a direct distance check; inserted points carry (1−t)·a_from + t·a_to for the t the
//!       flattener reported; transforms: builder side = iterator side = stored, bit for bit,
//!       = `transform_point` of every position, attributes untouched.

use lyon_path::builder::{Build, Flattened, NoAttributes, PathBuilder, Transformed};
use lyon_path::geom::{CubicBezierSegment, QuadraticBezierSegment};
use lyon_path::iterator::PathIterator;
use lyon_path::math::{point, Point, Transform};
use lyon_path::{Attributes, EndpointId, Event, Path, PathEvent};
use std::cell::RefCell;
use std::rc::Rc;
use vh::fl::Gen;
use vh::{CaseOut, Ctx, Oracle, Out, Rng};

const EPS: f64 = 1.1920929e-7;
const EXCLUDE_ILL: bool = true;

// ---------------------------------------------------------------------------------------------
// programs

#[derive(Clone, Debug, PartialEq)]
enum Op {
    B(Point, Vec<f32>),
    L(Point, Vec<f32>),
    Q(Point, Point, Vec<f32>),
    C(Point, Point, Point, Vec<f32>),
    E(bool),
}

fn drive<B: PathBuilder>(b: &mut B, prog: &[Op]) {
    for op in prog {
        match op {
            Op::B(p, a) => {
                b.begin(*p, a);
            }
            Op::L(p, a) => {
                b.line_to(*p, a);
            }
            Op::Q(c, p, a) => {
                b.quadratic_bezier_to(*c, *p, a);
            }
            Op::C(c1, c2, p, a) => {
                b.cubic_bezier_to(*c1, *c2, *p, a);
            }
            Op::E(cl) => b.end(*cl),
        }
    }
}

fn map_prog(prog: &[Op], f: &dyn Fn(Point) -> Point) -> Vec<Op> {
    prog.iter()
        .map(|op| match op {
            Op::B(p, a) => Op::B(f(*p), a.clone()),
            Op::L(p, a) => Op::L(f(*p), a.clone()),
            Op::Q(c, p, a) => Op::Q(f(*c), f(*p), a.clone()),
            Op::C(c1, c2, p, a) => Op::C(f(*c1), f(*c2), f(*p), a.clone()),
            Op::E(cl) => Op::E(*cl),
        })
        .collect()
}

fn strip_attrs(prog: &[Op]) -> Vec<Op> {
    prog.iter()
        .map(|op| match op {
            Op::B(p, _) => Op::B(*p, vec![]),
            Op::L(p, _) => Op::L(*p, vec![]),
            Op::Q(c, p, _) => Op::Q(*c, *p, vec![]),
            Op::C(c1, c2, p, _) => Op::C(*c1, *c2, *p, vec![]),
            Op::E(cl) => Op::E(*cl),
        })
        .collect()
}

fn put_attrs(o: &mut Out, a: &[f32]) {
    for x in a {
        o.f(*x);
    }
}

fn put_prog(o: &mut Out, prog: &[Op]) {
    for op in prog {
        match op {
            Op::B(p, a) => {
                o.t("B").p(*p);
                put_attrs(o, a);
            }
            Op::L(p, a) => {
                o.t("L").p(*p);
                put_attrs(o, a);
            }
            Op::Q(c, p, a) => {
                o.t("Q").p(*c).p(*p);
                put_attrs(o, a);
            }
            Op::C(c1, c2, p, a) => {
                o.t("C").p(*c1).p(*c2).p(*p);
                put_attrs(o, a);
            }
            Op::E(cl) => {
                o.t("E").b(*cl);
            }
        }
    }
}

// ---------------------------------------------------------------------------------------------
// recording builder

struct Rec {
    n: usize,
    log: Rc<RefCell<Vec<Op>>>,
}

impl Rec {
    fn new(n: usize) -> (Rec, Rc<RefCell<Vec<Op>>>) {
        let log = Rc::new(RefCell::new(Vec::new()));
        (Rec { n, log: log.clone() }, log)
    }
    fn push(&mut self, op: Op) -> EndpointId {
        let mut l = self.log.borrow_mut();
        l.push(op);
        EndpointId(l.len() as u32)
    }
}

impl PathBuilder for Rec {
    fn num_attributes(&self) -> usize {
        self.n
    }
    fn begin(&mut self, at: Point, a: Attributes) -> EndpointId {
        self.push(Op::B(at, a.to_vec()))
    }
    fn end(&mut self, close: bool) {
        self.push(Op::E(close));
    }
    fn line_to(&mut self, to: Point, a: Attributes) -> EndpointId {
        self.push(Op::L(to, a.to_vec()))
    }
    fn quadratic_bezier_to(&mut self, ctrl: Point, to: Point, a: Attributes) -> EndpointId {
        self.push(Op::Q(ctrl, to, a.to_vec()))
    }
    fn cubic_bezier_to(&mut self, c1: Point, c2: Point, to: Point, a: Attributes) -> EndpointId {
        self.push(Op::C(c1, c2, to, a.to_vec()))
    }
}

impl Build for Rec {
    type PathType = ();
    fn build(self) {}
}

// ---------------------------------------------------------------------------------------------
// events (with attributes) as a plain value

type AP = (Point, Vec<f32>);

#[derive(Clone, Debug, PartialEq)]
enum Ev {
    B(AP),
    L(AP, AP),
    Q(AP, Point, AP),
    C(AP, Point, Point, AP),
    E(AP, AP, bool),
}

fn ev_plain(e: PathEvent) -> Ev {
    let z = |p: Point| (p, vec![]);
    match e {
        Event::Begin { at } => Ev::B(z(at)),
        Event::Line { from, to } => Ev::L(z(from), z(to)),
        Event::Quadratic { from, ctrl, to } => Ev::Q(z(from), ctrl, z(to)),
        Event::Cubic { from, ctrl1, ctrl2, to } => Ev::C(z(from), ctrl1, ctrl2, z(to)),
        Event::End { last, first, close } => Ev::E(z(last), z(first), close),
    }
}

fn ev_attr(e: &Event<(Point, Attributes), Point>) -> Ev {
    let z = |p: &(Point, Attributes)| (p.0, p.1.to_vec());
    match e {
        Event::Begin { at } => Ev::B(z(at)),
        Event::Line { from, to } => Ev::L(z(from), z(to)),
        Event::Quadratic { from, ctrl, to } => Ev::Q(z(from), *ctrl, z(to)),
        Event::Cubic { from, ctrl1, ctrl2, to } => Ev::C(z(from), *ctrl1, *ctrl2, z(to)),
        Event::End { last, first, close } => Ev::E(z(last), z(first), *close),
    }
}

fn put_ap(o: &mut Out, p: &AP) {
    o.p(p.0);
    put_attrs(o, &p.1);
}

fn put_evs(o: &mut Out, evs: &[Ev]) {
    for e in evs {
        match e {
            Ev::B(a) => {
                o.t("b");
                put_ap(o, a);
            }
            Ev::L(a, b) => {
                o.t("l");
                put_ap(o, a);
                put_ap(o, b);
            }
            Ev::Q(a, c, b) => {
                o.t("q");
                put_ap(o, a);
                o.p(*c);
                put_ap(o, b);
            }
            Ev::C(a, c, d, b) => {
                o.t("c");
                put_ap(o, a);
                o.p(*c).p(*d);
                put_ap(o, b);
            }
            Ev::E(l, f, cl) => {
                o.t("e");
                put_ap(o, l);
                put_ap(o, f);
                o.b(*cl);
            }
        }
    }
}

/// The calls an event stream denotes, and the first place (if any) where the stream is not
/// connected: every edge must start where the previous one ended (position and attributes),
/// `End` must name the last and the first point.
fn calls_of_events(evs: &[Ev]) -> (Vec<Op>, Option<String>) {
    let mut out = vec![];
    let mut cur: Option<(AP, AP)> = None; // (first, current)
    let mut breaks: Vec<String> = vec![];
    for (i, e) in evs.iter().enumerate() {
        match e {
            Ev::B(a) => {
                if cur.is_some() {
                    breaks.push(format!("event {}: Begin inside a sub-path", i));
                }
                cur = Some((a.clone(), a.clone()));
                out.push(Op::B(a.0, a.1.clone()));
            }
            Ev::L(a, b) | Ev::Q(a, _, b) | Ev::C(a, _, _, b) => {
                match &mut cur {
                    None => breaks.push(format!("event {}: edge outside a sub-path", i)),
                    Some((_, c)) => {
                        if c.0 != a.0 {
                            breaks.push(format!("event {}: edge starts at {:?}, previous ended at {:?}", i, a.0, c.0));
                        } else if c.1 != a.1 {
                            breaks.push(format!("event {}: edge starts with attributes {:?}, previous ended with {:?}", i, a.1, c.1));
                        }
                        *c = b.clone();
                    }
                }
                out.push(match e {
                    Ev::L(..) => Op::L(b.0, b.1.clone()),
                    Ev::Q(_, c, _) => Op::Q(*c, b.0, b.1.clone()),
                    Ev::C(_, c, d, _) => Op::C(*c, *d, b.0, b.1.clone()),
                    _ => unreachable!(),
                });
            }
            Ev::E(l, f, cl) => {
                match &cur {
                    None => breaks.push(format!("event {}: End outside a sub-path", i)),
                    Some((first, c)) => {
                        if c.0 != l.0 || first.0 != f.0 {
                            breaks.push(format!("event {}: End names last {:?} first {:?}, expected {:?} {:?}", i, l.0, f.0, c.0, first.0));
                        }
                    }
                }
                cur = None;
                out.push(Op::E(*cl));
            }
        }
    }
    if cur.is_some() {
        breaks.push("stream ends inside a sub-path".to_string());
    }
    (out, breaks.into_iter().next())
}

// ---------------------------------------------------------------------------------------------
// lyon_geom's flatteners on one curve

#[derive(Clone, Copy, Debug)]
enum Curve {
    Q(Point, Point, Point),
    C(Point, Point, Point, Point),
}

/// `for_each_flattened_with_t`: (line.from, line.to, t.end)
fn geom_cb(c: &Curve, tol: f32) -> Vec<(Point, Point, f32)> {
    let mut v = vec![];
    match *c {
        Curve::Q(from, ctrl, to) => QuadraticBezierSegment { from, ctrl, to }.for_each_flattened_with_t(tol, &mut |l, t| v.push((l.from, l.to, t.end))),
        Curve::C(from, ctrl1, ctrl2, to) => {
            CubicBezierSegment { from, ctrl1, ctrl2, to }.for_each_flattened_with_t(tol, &mut |l, t| v.push((l.from, l.to, t.end)))
        }
    }
    v
}

/// the `Flattened` iterators
fn geom_iter(c: &Curve, tol: f32) -> Vec<Point> {
    match *c {
        Curve::Q(from, ctrl, to) => QuadraticBezierSegment { from, ctrl, to }.flattened(tol).take(200000).collect(),
        Curve::C(from, ctrl1, ctrl2, to) => CubicBezierSegment { from, ctrl1, ctrl2, to }.flattened(tol).take(200000).collect(),
    }
}

type P2 = (f64, f64);
fn p2(p: Point) -> P2 {
    (p.x as f64, p.y as f64)
}
fn lerp2(a: P2, b: P2, t: f64) -> P2 {
    (a.0 + (b.0 - a.0) * t, a.1 + (b.1 - a.1) * t)
}
fn dist(a: P2, b: P2) -> f64 {
    (a.0 - b.0).hypot(a.1 - b.1)
}
fn d_pt_seg(p: P2, a: P2, b: P2) -> f64 {
    let (vx, vy) = (b.0 - a.0, b.1 - a.1);
    let l2 = vx * vx + vy * vy;
    let t = if l2 > 0.0 { (((p.0 - a.0) * vx + (p.1 - a.1) * vy) / l2).clamp(0.0, 1.0) } else { 0.0 };
    dist(p, (a.0 + vx * t, a.1 + vy * t))
}

impl Curve {
    fn eval(&self, t: f64) -> P2 {
        match *self {
            Curve::Q(a, c, b) => {
                let (a, c, b) = (p2(a), p2(c), p2(b));
                lerp2(lerp2(a, c, t), lerp2(c, b, t), t)
            }
            Curve::C(a, c1, c2, b) => {
                let (a, c1, c2, b) = (p2(a), p2(c1), p2(c2), p2(b));
                let (p, q, r) = (lerp2(a, c1, t), lerp2(c1, c2, t), lerp2(c2, b, t));
                lerp2(lerp2(p, q, t), lerp2(q, r, t), t)
            }
        }
    }
    fn pts(&self) -> Vec<Point> {
        match *self {
            Curve::Q(a, c, b) => vec![a, c, b],
            Curve::C(a, c1, c2, b) => vec![a, c1, c2, b],
        }
    }
    fn mag(&self) -> f64 {
        self.pts().iter().fold(0.0f64, |m, p| m.max(p.x.abs() as f64).max(p.y.abs() as f64))
    }
    fn to(&self) -> Point {
        *self.pts().last().unwrap()
    }
    fn is_cubic(&self) -> bool {
        matches!(self, Curve::C(..))
    }
}

// Witness predicates of the known lyon_geom flattener findings (findings.d/C09.json), evaluated
// on the input in f64 exactly as harness/src/bin/c09.rs does.  A curve matching one of them is
// not "well-conditioned": the direct distance check below is skipped for it (C09 reports it).

fn overshoot_pred(a: P2, c: P2, b: P2, tol: f64) -> bool {
    let v = (b.0 - a.0, b.1 - a.1);
    let w = (c.0 - a.0, c.1 - a.1);
    let l2 = v.0 * v.0 + v.1 * v.1;
    if l2 == 0.0 {
        return w.0 != 0.0 || w.1 != 0.0;
    }
    let cr = v.0 * w.1 - v.1 * w.0;
    let linear = cr * cr / l2 <= tol * tol * 4.0 * (1.0 + 1e-3);
    let pr = (v.0 * w.0 + v.1 * w.1) / l2;
    linear && !(0.0..=1.0).contains(&pr)
}

fn sharp_pred(a: P2, c: P2, b: P2, tol: f64) -> bool {
    let v = (b.0 - a.0, b.1 - a.1);
    let w = (c.0 - a.0, c.1 - a.1);
    let l2 = v.0 * v.0 + v.1 * v.1;
    if l2 == 0.0 {
        return false;
    }
    let cr = v.0 * w.1 - v.1 * w.0;
    if cr * cr / l2 <= tol * tol * 4.0 {
        return false;
    }
    let d = 0.67f64;
    let integ = |x: f64| x / (1.0 - d + (d.powi(4) + 0.25 * x * x).sqrt().sqrt());
    let ddx = 2.0 * c.0 - a.0 - b.0;
    let ddy = 2.0 * c.1 - a.1 - b.1;
    let cross = (b.0 - a.0) * ddy - (b.1 - a.1) * ddx;
    let pf = ((c.0 - a.0) * ddx + (c.1 - a.1) * ddy) / cross;
    let pt = ((b.0 - c.0) * ddx + (b.1 - c.1) * ddy) / cross;
    let scale = cross.abs() / (ddx.hypot(ddy) * (pt - pf).abs());
    let (i0, i1) = (integ(pf), integ(pt));
    let cnt = 0.5 * (i1 - i0).abs() * (scale / tol).sqrt();
    let n = cnt.ceil().max(1.0);
    let astep = (i1 - i0).abs() / n;
    // also treat non-finite intermediate values as ill-conditioned
    !(pf.is_finite() && pt.is_finite() && astep.is_finite()) || (pf * pt < 0.0 && astep > 0.75)
}

fn well_conditioned(c: &Curve, tol: f32) -> bool {
    match *c {
        Curve::Q(a, k, b) => {
            let (a, k, b) = (p2(a), p2(k), p2(b));
            !overshoot_pred(a, k, b, tol as f64) && !sharp_pred(a, k, b, tol as f64)
        }
        Curve::C(from, ctrl1, ctrl2, to) => {
            let mut ok = true;
            let ft = tol as f64 * 0.8;
            CubicBezierSegment { from, ctrl1, ctrl2, to }.for_each_quadratic_bezier(tol * 0.4, &mut |q| {
                let (a, k, b) = (p2(q.from), p2(q.ctrl), p2(q.to));
                if overshoot_pred(a, k, b, ft) || sharp_pred(a, k, b, ft) {
                    ok = false;
                }
            });
            ok
        }
    }
}

/// flattened path within tolerance of the original (well-conditioned curves only): every vertex
/// within the allowance of the curve point at its reported t, every dense curve sample within
/// the allowance of the polyline.  Allowance 1.25·tol + rounding: lyon's segment count rests on
/// closed-form approximations that are accurate to a few percent, and cubics spend 0.4 + 0.8 of
/// the tolerance (both listed under C09).
fn check_tolerance(orc: &mut Oracle, site: &str, c: &Curve, tol: f32, segs: &[(Point, Point, f32)]) {
    if segs.is_empty() || segs.len() > 2000 || (EXCLUDE_ILL && !well_conditioned(c, tol)) {
        return;
    }
    let allow = 1.25 * tol as f64 + 64.0 * EPS * c.mag().max(1e-30);
    let mut poly: Vec<P2> = vec![p2(c.pts()[0])];
    poly.extend(segs.iter().map(|s| p2(s.1)));
    let mut t0 = 0.0f64;
    for (i, s) in segs.iter().enumerate() {
        let t1 = s.2 as f64;
        let dv = dist(p2(s.1), c.eval(t1));
        orc.check(dv <= allow, &format!("{}/tolerance", site), "generic", || {
            format!("vertex {} of {} is {:e} from the curve point at its t={}, allowance {:e} (tol {:e}) curve {:?}", i + 1, segs.len(), dv, t1, allow, tol, c)
        });
        let m = 8;
        for j in 1..m {
            let tt = t0 + (t1 - t0) * j as f64 / m as f64;
            let p = c.eval(tt);
            let mut d = d_pt_seg(p, poly[i], poly[i + 1]);
            if d > allow {
                for k in 0..segs.len() {
                    d = d.min(d_pt_seg(p, poly[k], poly[k + 1]));
                }
            }
            orc.check(d <= allow, &format!("{}/tolerance", site), "generic", || {
                format!("curve point at t={} is {:e} from the polyline ({} segments), allowance {:e} (tol {:e}) curve {:?}", tt, d, segs.len(), allow, tol, c)
            });
        }
        t0 = t1;
    }
}

// ---------------------------------------------------------------------------------------------
// the structural walk: program vs. flattened output

#[derive(Clone, Copy, PartialEq, Debug)]
enum Kind {
    /// builder-side `Flattened` (callback flattener, `prev_attributes` bookkeeping)
    Builder,
    /// `for_each_flattened` (callback flattener, attributes of both ends at hand)
    AttrIter,
    /// `iterator::Flattened` (lyon_geom's `Flattened` iterators, no attributes)
    Iter,
}

fn attrs_eq(a: &[f32], b: &[f32]) -> bool {
    a.len() == b.len() && a.iter().zip(b).all(|(x, y)| x == y)
}

fn interp_ok(got: &[f32], from: &[f32], to: &[f32], t: f32) -> bool {
    got.len() == to.len()
        && from.len() == to.len()
        && (0..got.len()).all(|i| {
            let (f, g, t) = (from[i] as f64, to[i] as f64, t as f64);
            let e = (1.0 - t) * f + t * g;
            (got[i] as f64 - e).abs() <= 8.0 * EPS * (f.abs() + g.abs()) + 1e-37
        })
}

/// Deferred (known-class) failures: registered after all generic clauses so that a listed
/// finding never masks a different violation in the same case.
struct Deferred(Vec<(String, String, String)>);

/// `prog`: the program in the space where flattening happens; `post`: map applied to every
/// position AFTER flattening (`Flattened<Transformed<_>>`), `out`: the calls observed;
/// `with_attr`: the route carries attributes (false under `NoAttributes` / plain iterators).
fn check_flat(orc: &mut Oracle, def: &mut Deferred, site: &str, kind: Kind, prog: &[Op], tol: f32, post: &dyn Fn(Point) -> Point, with_attr: bool, out: &[Op]) {
    let cl = |c: &str| format!("{}/{}", site, c);
    // only lines
    for (i, c) in out.iter().enumerate() {
        orc.check(matches!(c, Op::B(..) | Op::L(..) | Op::E(..)), &cl("only-lines"), "generic", || format!("output call {} is a curve: {:?}", i, c));
    }
    if orc.failed() {
        return;
    }
    let noattr: Vec<f32> = vec![];
    let at = |a: &Vec<f32>| if with_attr { a.clone() } else { noattr.clone() };
    let mut k = 0usize; // index into out
    let mut cur = point(0.0, 0.0);
    let mut cur_attr: Vec<f32> = vec![];
    // what `prev_attributes` held before lyon commit babe4617 (begin did not record the
    // attributes): used only to give a regression of that repaired defect its narrow class
    let n = prog.iter().find_map(|o| match o { Op::B(_, a) => Some(a.len()), _ => None }).unwrap_or(0);
    let mut stale: Vec<f32> = vec![0.0; n];
    let mut after_begin = false;
    for (i, op) in prog.iter().enumerate() {
        match op {
            Op::B(p, a) | Op::L(p, a) => {
                let want = if matches!(op, Op::B(..)) { Op::B(post(*p), at(a)) } else { Op::L(post(*p), at(a)) };
                let got = out.get(k);
                orc.check(got == Some(&want), &cl("endpoint"), "generic", || format!("program call {} {:?}: expected output call {} = {:?}, got {:?}", i, op, k, want, got));
                k += 1;
                cur = *p;
                cur_attr = a.clone();
                if matches!(op, Op::L(..)) {
                    stale = a.clone();
                }
                after_begin = matches!(op, Op::B(..));
            }
            Op::E(c) => {
                let got = out.get(k);
                orc.check(got == Some(&Op::E(*c)), &cl("structure"), "generic", || format!("program call {} end({}): output call {} is {:?}", i, c, k, got));
                k += 1;
                after_begin = false;
            }
            Op::Q(_, p, a) | Op::C(_, _, p, a) => {
                let curve = match op {
                    Op::Q(c, p, _) => Curve::Q(cur, *c, *p),
                    Op::C(c1, c2, p, _) => Curve::C(cur, *c1, *c2, *p),
                    _ => unreachable!(),
                };
                let segs: Vec<(Point, Point, f32)> = match kind {
                    Kind::Iter => {
                        let pts = geom_iter(&curve, tol);
                        let mut v = vec![];
                        let mut f = cur;
                        for q in pts {
                            v.push((f, q, f32::NAN));
                            f = q;
                        }
                        v
                    }
                    _ => geom_cb(&curve, tol),
                };
                let m = segs.len();
                orc.check(m >= 1, &cl("structure"), "generic", || format!("program call {}: lyon_geom's flattener emits no segment for {:?}", i, curve));
                let mut defect_all = after_begin && kind == Kind::Builder && with_attr;
                let mut first_bad: Option<String> = None;
                for (j, s) in segs.iter().enumerate() {
                    let got = out.get(k + j);
                    let (gp, ga) = match got {
                        Some(Op::L(gp, ga)) => (*gp, ga.clone()),
                        _ => {
                            orc.check(false, &cl("structure"), "generic", || format!("program call {} ({:?}): segment {} of {}: output call {} is {:?}", i, curve, j, m, k + j, got));
                            return;
                        }
                    };
                    let last = j + 1 == m;
                    if last {
                        // the original endpoint, exactly, with its attributes
                        let d = dist(p2(gp), p2(post(*p)));
                        let pos_ok = gp == post(*p);
                        if !pos_ok && kind == Kind::Iter && curve.is_cubic() && d <= 8.0 * (16.0 + m as f64) * EPS * curve.mag().max(1e-30) {
                            def.0.push((cl("endpoint"), "cubic-iter-last-point".to_string(), format!("program call {} ({:?}): last flattened point {:?} is {:e} away from the end point {:?}", i, curve, gp, d, post(*p))));
                        } else {
                            orc.check(pos_ok, &cl("endpoint"), "generic", || format!("program call {} ({:?}): last flattened point {:?} != end point {:?} ({:e} away)", i, curve, gp, post(*p), d));
                        }
                        if with_attr {
                            orc.check(attrs_eq(&ga, a), &cl("endpoint"), "generic", || format!("program call {}: endpoint attributes {:?}, expected {:?}", i, ga, a));
                        } else {
                            orc.check(ga.is_empty(), &cl("endpoint"), "generic", || format!("program call {}: attributes {:?} on a route without attributes", i, ga));
                        }
                    } else {
                        // same point as lyon_geom's flattener on the true curve
                        orc.check(gp == post(s.1), &cl("same-as-geom"), "generic", || format!("program call {} ({:?}): point {} of {} is {:?}, lyon_geom's flattener gives {:?}", i, curve, j, m, gp, post(s.1)));
                        if with_attr && kind != Kind::Iter {
                            let ok = interp_ok(&ga, &cur_attr, a, s.2);
                            if !ok {
                                let explained = interp_ok(&ga, &stale, a, s.2);
                                defect_all = defect_all && explained;
                                if first_bad.is_none() {
                                    first_bad = Some(format!(
                                        "program call {} ({:?}): inserted point {} of {} at t={} carries {:?}; endpoints carry {:?} -> {:?} (prev_attributes would be {:?})",
                                        i, curve, j, m, s.2, ga, cur_attr, a, stale
                                    ));
                                }
                            }
                        } else if !with_attr {
                            orc.check(ga.is_empty(), &cl("attr-interp"), "generic", || format!("program call {}: attributes {:?} on a route without attributes", i, ga));
                        }
                    }
                    // for_each_flattened: `from` side of each line
                    let _ = s.0;
                }
                if let Some(msg) = first_bad {
                    if defect_all {
                        def.0.push((cl("attr-interp"), "first-curve-after-begin".to_string(), msg));
                    } else {
                        orc.check(false, &cl("attr-interp"), "generic", || msg);
                    }
                }
                if kind != Kind::Iter {
                    check_tolerance(orc, site, &curve, tol, &segs);
                }
                k += m;
                cur = *p;
                cur_attr = a.clone();
                stale = a.clone();
                after_begin = false;
            }
        }
        if orc.failed() {
            return;
        }
    }
    orc.check(k == out.len(), &cl("structure"), "generic", || format!("{} output calls, {} expected", out.len(), k));
}

/// transform routes: every position is `transform_point` of the original, nothing else changes
fn check_xf(orc: &mut Oracle, site: &str, prog: &[Op], m: &Transform, out: &[Op]) {
    let want = map_prog(prog, &|p| m.transform_point(p));
    orc.check(want.len() == out.len(), &format!("{}/positions", site), "generic", || format!("{} calls out, {} in", out.len(), want.len()));
    for (i, (w, g)) in want.iter().zip(out).enumerate() {
        orc.check(w == g, &format!("{}/positions", site), "generic", || format!("call {}: expected {:?}, got {:?}", i, w, g));
    }
}

fn well_nested(calls: &[Op]) -> bool {
    let mut inside = false;
    for c in calls {
        match c {
            Op::B(..) => {
                if inside {
                    return false;
                }
                inside = true;
            }
            Op::E(_) => {
                if !inside {
                    return false;
                }
                inside = false;
            }
            _ => {
                if !inside {
                    return false;
                }
            }
        }
    }
    !inside
}

// ---------------------------------------------------------------------------------------------
// generators

struct Input {
    n: usize,
    tol: f32,
    m: Transform,
    prog: Vec<Op>,
    tag: String,
}

fn gen_tol(rng: &mut Rng, lattice: bool) -> f32 {
    if lattice || rng.chance(1, 3) {
        *rng.pick(&[0.015625f32, 0.0625, 0.125, 0.25, 0.5, 1.0])
    } else {
        10f64.powf(rng.uniform(-2.0, 0.3)) as f32
    }
}

fn gen_xf(rng: &mut Rng, lattice: bool) -> (Transform, &'static str) {
    match rng.below(if lattice { 4 } else { 7 }) {
        0 => (Transform::new(rng.range(-3, 3) as f32, rng.range(-3, 3) as f32, rng.range(-3, 3) as f32, rng.range(-3, 3) as f32, rng.range(-20, 20) as f32, rng.range(-20, 20) as f32), "int"),
        1 => (Transform::translation(rng.range(-20, 20) as f32 / 4.0, rng.range(-20, 20) as f32 / 4.0), "translate"),
        2 => (Transform::scale(rng.range(-8, 8) as f32 / 4.0, rng.range(1, 8) as f32 / 2.0), "scale"),
        3 => (Transform::identity(), "identity"),
        4 => {
            let a = rng.uniform(-3.2, 3.2) as f32;
            (Transform::new(a.cos(), a.sin(), -a.sin(), a.cos(), rng.uniform(-50.0, 50.0) as f32, rng.uniform(-50.0, 50.0) as f32), "rotation")
        }
        5 => {
            // singular
            let (a, b) = (rng.uniform(-2.0, 2.0) as f32, rng.uniform(-2.0, 2.0) as f32);
            (Transform::new(a, b, 2.0 * a, 2.0 * b, 1.0, -1.0), "singular")
        }
        _ => (
            Transform::new(
                rng.uniform(-3.0, 3.0) as f32,
                rng.uniform(-3.0, 3.0) as f32,
                rng.uniform(-3.0, 3.0) as f32,
                rng.uniform(-3.0, 3.0) as f32,
                rng.uniform(-100.0, 100.0) as f32,
                rng.uniform(-100.0, 100.0) as f32,
            ),
            "affine",
        ),
    }
}

/// an exact similarity: scale 2^k, rotation by a multiple of 90 degrees, no translation -- scaling by
/// a power of two, negating and swapping coordinates commute with every rounding of the flattener
fn gen_sim(rng: &mut Rng) -> Transform {
    let s = [0.25f32, 0.5, 1.0, 2.0, 4.0, 8.0][rng.below(6) as usize];
    match rng.below(4) {
        0 => Transform::new(s, 0.0, 0.0, s, 0.0, 0.0),
        1 => Transform::new(0.0, s, -s, 0.0, 0.0, 0.0),
        2 => Transform::new(-s, 0.0, 0.0, -s, 0.0, 0.0),
        _ => Transform::new(0.0, -s, s, 0.0, 0.0, 0.0),
    }
}

fn gen_attrs(rng: &mut Rng, n: usize, lattice: bool) -> Vec<f32> {
    (0..n)
        .map(|_| match rng.below(8) {
            0 => 0.0,
            1 => rng.range(-4, 4) as f32 * 10.0,
            _ => {
                if lattice {
                    rng.range(-64, 64) as f32 / 4.0
                } else {
                    rng.uniform(-100.0, 100.0) as f32
                }
            }
        })
        .collect()
}

fn gen_input(rng: &mut Rng) -> Input {
    let g = match rng.below(10) {
        0..=2 => Gen::Lattice,
        3..=6 => Gen::Uniform,
        7 => Gen::Wide,
        _ => Gen::Degenerate,
    };
    let lattice = g == Gen::Lattice || g == Gen::Degenerate;
    // 0..=10 custom attributes; 8 is a boundary in the code (`for_each_flattened` switches from a
    // 16-slot stack buffer to a heap buffer at `num_attributes <= 8`), so 5..=9 carry weight
    let n = *rng.pick(&[0usize, 1, 2, 3, 4, 5, 6, 7, 8, 8, 9, 9, 10, 1, 3, 5, 7, 8]);
    let tol = gen_tol(rng, lattice);
    let (m, mname) = gen_xf(rng, lattice);
    let pt = |rng: &mut Rng| -> Point {
        if g == Gen::Wide {
            // keep the segment counts moderate: magnitudes 1e-2 .. 1e3
            point(rng.log_uniform(-2.0, 3.0) as f32, rng.log_uniform(-2.0, 3.0) as f32)
        } else {
            g.point::<f32>(rng)
        }
    };
    let mut prog = vec![];
    let subs = 1 + rng.below(3);
    let mut curves = 0;
    let mut first_curve = false;
    for _ in 0..subs {
        let start = pt(rng);
        prog.push(Op::B(start, gen_attrs(rng, n, lattice)));
        let edges = rng.below(5);
        let mut cur = start;
        for e in 0..edges {
            let a = gen_attrs(rng, n, lattice);
            let kind = rng.below(3);
            let (c1, c2, mut to) = (pt(rng), pt(rng), pt(rng));
            if g == Gen::Degenerate && rng.chance(1, 4) {
                to = cur; // closed curve / zero-length line
            }
            match kind {
                0 => prog.push(Op::L(to, a)),
                1 => {
                    let c = if g == Gen::Degenerate && rng.chance(1, 3) { cur } else { c1 };
                    prog.push(Op::Q(c, to, a));
                }
                _ => {
                    let (k1, k2) = if g == Gen::Degenerate && rng.chance(1, 3) { (cur, to) } else { (c1, c2) };
                    prog.push(Op::C(k1, k2, to, a));
                }
            }
            if kind != 0 {
                curves += 1;
                if e == 0 {
                    first_curve = true;
                }
            }
            cur = to;
        }
        prog.push(Op::E(rng.chance(1, 2)));
    }
    let tag = format!(
        "{} n{} {} subs{} {}{}",
        g.name(),
        n,
        mname,
        subs,
        if curves == 0 { "no-curve trivial" } else { "curves" },
        if first_curve && n > 0 { " first-curve-after-begin" } else { "" }
    );
    Input { n, tol, m, prog, tag }
}

fn put_input(inp: &Input) -> Out {
    let mut a = Out::new();
    a.u(inp.n as u64).f(inp.tol);
    let m = &inp.m;
    a.f(m.m11).f(m.m12).f(m.m21).f(m.m22).f(m.m31).f(m.m32);
    put_prog(&mut a, &inp.prog);
    a
}

// ---------------------------------------------------------------------------------------------
// advice: what lyon_geom's flatteners return for the curves of the program

/// the curves of a program (each from the TRUE current endpoint)
fn curves_of(prog: &[Op]) -> Vec<Curve> {
    let mut cur = point(0.0, 0.0);
    let mut v = vec![];
    for op in prog {
        match op {
            Op::B(p, _) | Op::L(p, _) => cur = *p,
            Op::Q(c, p, _) => {
                v.push(Curve::Q(cur, *c, *p));
                cur = *p;
            }
            Op::C(c1, c2, p, _) => {
                v.push(Curve::C(cur, *c1, *c2, *p));
                cur = *p;
            }
            Op::E(_) => {}
        }
    }
    v
}

/// `| (FQ|FC) <ctrl points> n (fx fy tx ty t)*n` for the callback flattener,
/// `| (IQ|IC) <ctrl points> n (x y)*n` for the iterator.  The curve flattener is a parameter of
/// the C16 model (lyon_geom's flattening is property C09): the model looks the curve up here.
fn put_advice(o: &mut Out, fam: &str, inp: &Input) {
    let m = inp.m;
    let xprog = map_prog(&inp.prog, &|p| m.transform_point(p));
    let (cb_src, cb_xf, it_src, it_xf) = match fam {
        "wit" | "bf" | "na" | "pb" => (true, false, false, false),
        "bn" => (true, true, false, false),
        "it" => (true, false, true, false),
        "in" => (false, false, true, true),
        _ => (false, false, false, false),
    };
    let mut cb: Vec<Curve> = vec![];
    let mut it: Vec<Curve> = vec![];
    if cb_src {
        cb.extend(curves_of(&inp.prog));
    }
    if cb_xf {
        cb.extend(curves_of(&xprog));
    }
    if it_src {
        it.extend(curves_of(&inp.prog));
    }
    if it_xf {
        it.extend(curves_of(&xprog));
    }
    for c in &cb {
        o.t("|").t(if c.is_cubic() { "FC" } else { "FQ" });
        for p in c.pts() {
            o.p(p);
        }
        let segs = vh::guarded(|| geom_cb(c, inp.tol)).unwrap_or_default();
        o.u(segs.len() as u64);
        for s in segs {
            o.p(s.0).p(s.1).f(s.2);
        }
    }
    for c in &it {
        o.t("|").t(if c.is_cubic() { "IC" } else { "IQ" });
        for p in c.pts() {
            o.p(p);
        }
        let pts = vh::guarded(|| geom_iter(c, inp.tol)).unwrap_or_default();
        o.u(pts.len() as u64);
        for q in pts {
            o.p(q);
        }
    }
}

// ---------------------------------------------------------------------------------------------
// routes

fn rec_run<W: PathBuilder>(wrap: impl FnOnce(Rec) -> W, n: usize, prog: &[Op]) -> Vec<Op> {
    let (rec, log) = Rec::new(n);
    let mut b = wrap(rec);
    drive(&mut b, prog);
    drop(b);
    let v = log.borrow().clone();
    v
}

fn build_path(n: usize, prog: &[Op]) -> Path {
    let mut b = Path::builder_with_attributes(n);
    drive(&mut b, prog);
    b.build()
}

fn evs_with_attrs(p: &Path) -> Vec<Ev> {
    p.iter_with_attributes().map(|e| ev_attr(&e)).collect()
}

/// an event route through a flattening adapter: connectivity + the structural walk
fn ev_flat(orc: &mut Oracle, def: &mut Deferred, site: &str, kind: Kind, prog: &[Op], tol: f32, post: &dyn Fn(Point) -> Point, with_attr: bool, evs: &[Ev]) {
    let (calls, brk) = calls_of_events(evs);
    let before = def.0.len();
    check_flat(orc, def, site, kind, prog, tol, post, with_attr, &calls);
    if let Some(msg) = brk {
        // a break right behind a cubic whose flattening iterator missed its end point is that
        // same listed finding; anything else is reported
        let explained = def.0[before..].iter().any(|d| d.1 == "cubic-iter-last-point");
        if !explained {
            orc.check(false, &format!("{}/connected", site), "generic", || msg);
        }
    }
}

/// an event route through a transforming adapter
fn ev_xf(orc: &mut Oracle, site: &str, prog: &[Op], m: &Transform, evs: &[Ev]) {
    let (calls, brk) = calls_of_events(evs);
    check_xf(orc, site, prog, m, &calls);
    if let Some(msg) = brk {
        orc.check(false, &format!("{}/connected", site), "generic", || msg);
    }
}

fn run_family(fam: &str, inp: &Input) -> CaseOut {
    let (n, tol, m, prog) = (inp.n, inp.tol, inp.m, &inp.prog[..]);
    let mut o = Out::new();
    let mut orc = Oracle::new();
    let mut def = Deferred(vec![]);
    let id = |p: Point| p;
    let xf = move |p: Point| m.transform_point(p);
    let xprog = map_prog(prog, &xf);
    let nested = |orc: &mut Oracle, site: &str, calls: &[Op]| {
        orc.check(well_nested(calls), &format!("{}/well-nested", site), "generic", || format!("calls not (begin edge* end)*: {:?}", calls));
    };
    match fam {
        "wit" | "bf" => {
            let calls = rec_run(|r| Flattened::new(r, tol), n, prog);
            put_prog(&mut o, &calls);
            nested(&mut orc, "builder.flatten", &calls);
            check_flat(&mut orc, &mut def, "builder.flatten", Kind::Builder, prog, tol, &id, true, &calls);
        }
        "bt" => {
            let calls = rec_run(|r| Transformed::new(r, m), n, prog);
            put_prog(&mut o, &calls);
            nested(&mut orc, "builder.transform", &calls);
            check_xf(&mut orc, "builder.transform", prog, &m, &calls);
        }
        "bn" => {
            let ft = rec_run(|r| r.transformed(m).flattened(tol), n, prog);
            let tf = rec_run(|r| r.flattened(tol).transformed(m), n, prog);
            o.t("ft");
            put_prog(&mut o, &ft);
            o.t("tf");
            put_prog(&mut o, &tf);
            nested(&mut orc, "builder.flatten", &ft);
            nested(&mut orc, "builder.flatten", &tf);
            check_flat(&mut orc, &mut def, "builder.flatten", Kind::Builder, prog, tol, &xf, true, &ft);
            check_flat(&mut orc, &mut def, "builder.flatten", Kind::Builder, &xprog, tol, &id, true, &tf);
        }
        "sim" => {
            // m is an exact similarity of scale s (see gen_sim): flattening in the target space at
            // s*tol must give the transformed flattening of the source space at tol, call for call
            let s = m.m11.abs() + m.m12.abs();
            let ft = rec_run(|r| r.transformed(m).flattened(tol), n, prog);
            let tf = rec_run(|r| r.flattened(s * tol).transformed(m), n, prog);
            o.t("ft");
            put_prog(&mut o, &ft);
            o.t("tf");
            put_prog(&mut o, &tf);
            nested(&mut orc, "builder.flatten", &ft);
            nested(&mut orc, "builder.flatten", &tf);
            check_flat(&mut orc, &mut def, "builder.flatten", Kind::Builder, prog, tol, &xf, true, &ft);
            check_flat(&mut orc, &mut def, "builder.flatten", Kind::Builder, &xprog, s * tol, &id, true, &tf);
            orc.check(ft.len() == tf.len(), "builder.nesting/similarity", "generic", || format!("scale {}: flatten-then-transform emits {} calls, transform-then-flatten at s*tol {}", s, ft.len(), tf.len()));
            if ft.len() == tf.len() {
                for (i, (a, b)) in ft.iter().zip(tf.iter()).enumerate() {
                    orc.check(a == b, "builder.nesting/similarity", "generic", || format!("scale {}: call {}: flatten-then-transform {:?}, transform-then-flatten at s*tol {:?}", s, i, a, b));
                }
            }
        }
        "na" => {
            let f = rec_run(|r| NoAttributes::wrap(r).flattened(tol), 0, prog);
            let t = rec_run(|r| NoAttributes::wrap(r).transformed(m), 0, prog);
            let ft = rec_run(|r| NoAttributes::wrap(r).transformed(m).flattened(tol), 0, prog);
            o.t("f");
            put_prog(&mut o, &f);
            o.t("t");
            put_prog(&mut o, &t);
            o.t("ft");
            put_prog(&mut o, &ft);
            nested(&mut orc, "builder.flatten", &f);
            check_flat(&mut orc, &mut def, "builder.flatten", Kind::Builder, prog, tol, &id, false, &f);
            check_xf(&mut orc, "builder.transform", &strip_attrs(prog), &m, &t);
            check_flat(&mut orc, &mut def, "builder.flatten", Kind::Builder, prog, tol, &xf, false, &ft);
        }
        "pb" => {
            let mut b = Path::builder().flattened(tol);
            drive(&mut b, prog);
            let pf: Path = b.build();
            let f: Vec<Ev> = pf.iter().map(ev_plain).collect();
            let mut b = Path::builder_with_attributes(n).flattened(tol);
            drive(&mut b, prog);
            let fa = evs_with_attrs(&b.build());
            let mut b = Path::builder_with_attributes(n).transformed(m);
            drive(&mut b, prog);
            let ta = evs_with_attrs(&b.build());
            o.t("f");
            put_evs(&mut o, &f);
            o.t("fa");
            put_evs(&mut o, &fa);
            o.t("ta");
            put_evs(&mut o, &ta);
            ev_flat(&mut orc, &mut def, "builder.flatten", Kind::Builder, prog, tol, &id, false, &f);
            ev_flat(&mut orc, &mut def, "builder.flatten", Kind::Builder, prog, tol, &id, true, &fa);
            ev_xf(&mut orc, "builder.transform", prog, &m, &ta);
        }
        "it" => {
            let path = build_path(n, prog);
            let f: Vec<Ev> = path.iter().flattened(tol).map(ev_plain).collect();
            let mut a: Vec<Ev> = vec![];
            path.iter_with_attributes().for_each_flattened(tol, &mut |e| a.push(ev_attr(e)));
            o.t("f");
            put_evs(&mut o, &f);
            o.t("a");
            put_evs(&mut o, &a);
            ev_flat(&mut orc, &mut def, "iter.for-each-flattened", Kind::AttrIter, prog, tol, &id, true, &a);
            ev_flat(&mut orc, &mut def, "iter.flatten", Kind::Iter, prog, tol, &id, false, &f);
        }
        "e2e" => {
            let calls = rec_run(|r| Flattened::new(r, tol), n, prog);
            let path = build_path(n, prog);
            let f: Vec<Ev> = path.iter().flattened(tol).map(ev_plain).collect();
            let mut a: Vec<Ev> = vec![];
            path.iter_with_attributes().for_each_flattened(tol, &mut |e| a.push(ev_attr(e)));
            o.t("b");
            put_prog(&mut o, &calls);
            o.t("f");
            put_evs(&mut o, &f);
            o.t("a");
            put_evs(&mut o, &a);
            nested(&mut orc, "builder.flatten", &calls);
            check_flat(&mut orc, &mut def, "builder.flatten", Kind::Builder, prog, tol, &id, true, &calls);
            ev_flat(&mut orc, &mut def, "iter.for-each-flattened", Kind::AttrIter, prog, tol, &id, true, &a);
            ev_flat(&mut orc, &mut def, "iter.flatten", Kind::Iter, prog, tol, &id, false, &f);
        }
        "e2ep" => {
            // builder-side Flattened and for_each_flattened where "lyon_geom panics" is a modelled
            // outcome (`none` of flatBuilderC / flatAttrIterC in Model/Path/AdaptersConcrete.lean)
            let r = vh::guarded(|| {
                let calls = rec_run(|r| Flattened::new(r, tol), n, prog);
                let path = build_path(n, prog);
                let mut a: Vec<Ev> = vec![];
                path.iter_with_attributes().for_each_flattened(tol, &mut |e| a.push(ev_attr(e)));
                (calls, a)
            });
            match r {
                None => {
                    o.t("panic");
                    orc.skip("lyon_geom panics (count.to_u32().unwrap()) on a curve whose segment count does not fit u32: observation, outside C16's statement");
                }
                Some((calls, a)) => {
                    o.t("b");
                    put_prog(&mut o, &calls);
                    o.t("a");
                    put_evs(&mut o, &a);
                    nested(&mut orc, "builder.flatten", &calls);
                    check_flat(&mut orc, &mut def, "builder.flatten", Kind::Builder, prog, tol, &id, true, &calls);
                    ev_flat(&mut orc, &mut def, "iter.for-each-flattened", Kind::AttrIter, prog, tol, &id, true, &a);
                }
            }
        }
        "ix" => {
            let path = build_path(n, prog);
            let t: Vec<Ev> = path.iter().transformed(&m).map(ev_plain).collect();
            let stored = path.clone().transformed(&m);
            let s = evs_with_attrs(&stored);
            let sp: Vec<Ev> = stored.iter().map(ev_plain).collect();
            o.t("t");
            put_evs(&mut o, &t);
            o.t("s");
            put_evs(&mut o, &s);
            ev_xf(&mut orc, "iter.transform", &strip_attrs(prog), &m, &t);
            ev_xf(&mut orc, "stored.transform", prog, &m, &s);
            // builder side = iterator side = stored, bit for bit
            let mut b = Path::builder_with_attributes(n).transformed(m);
            drive(&mut b, prog);
            let bp = b.build();
            let bside: Vec<Ev> = bp.iter().map(ev_plain).collect();
            orc.check(bside == t && sp == t, "transform/three-routes-agree", "generic", || format!("builder {:?} iterator {:?} stored {:?}", bside, t, sp));
            orc.check(evs_with_attrs(&bp) == s, "transform/three-routes-agree", "generic", || "builder-side and stored differ in attributes".to_string());
        }
        "in" => {
            let path = build_path(n, prog);
            let tf: Vec<Ev> = path.iter().transformed(&m).flattened(tol).map(ev_plain).collect();
            let ft: Vec<Ev> = path.iter().flattened(tol).transformed(&m).map(ev_plain).collect();
            o.t("tf");
            put_evs(&mut o, &tf);
            o.t("ft");
            put_evs(&mut o, &ft);
            ev_flat(&mut orc, &mut def, "iter.flatten", Kind::Iter, &xprog, tol, &id, false, &tf);
            ev_flat(&mut orc, &mut def, "iter.flatten", Kind::Iter, prog, tol, &xf, false, &ft);
        }
        _ => unreachable!(),
    }
    // listed findings last, so that they never mask a different violation
    for (clause, class, msg) in def.0 {
        orc.check(false, &clause, &class, || msg);
    }
    CaseOut { imp: o, orcl: orc.verdict }
}

fn emit(ctx: &mut Ctx, fam: &'static str, fixed: Option<Input>) {
    ctx.case(fam, |rng| {
        let mut inp = match fixed {
            Some(i) => i,
            None => gen_input(rng),
        };
        if fam == "sim" {
            inp.m = gen_sim(rng);
            inp.tag = format!("{} similarity", inp.tag);
        }
        let mut args = put_input(&inp);
        put_advice(&mut args, fam, &inp);
        let tag = format!("{} {}", fam, inp.tag);
        (args, tag, move || run_family(fam, &inp))
    });
}

fn main() {
    let mut ctx = Ctx::from_args("C16");
    // witnesses
    let p = |x: f32, y: f32| point(x, y);
    let wit: Vec<(&str, usize, f32, Vec<Op>)> = vec![
        // the witness of the (repaired, babe4617) finding: begin[10] Q … [20]
        ("first-curve-after-begin quad", 1, 0.01, vec![Op::B(p(0., 0.), vec![10.]), Op::Q(p(5., 10.), p(10., 0.), vec![20.]), Op::E(false)]),
        ("first-curve-after-begin cubic", 2, 0.05, vec![Op::B(p(0., 0.), vec![10., -4.]), Op::C(p(0., 10.), p(10., 10.), p(10., 0.), vec![20., 4.]), Op::E(true)]),
        // stale attributes from the previous sub-path
        (
            "first-curve-after-begin stale",
            1,
            0.05,
            vec![Op::B(p(0., 0.), vec![1.]), Op::L(p(4., 0.), vec![7.]), Op::E(false), Op::B(p(0., 5.), vec![100.]), Op::Q(p(5., 15.), p(10., 5.), vec![200.]), Op::E(false)],
        ),
        // not the first edge: interpolation is right
        ("curve-after-line", 1, 0.05, vec![Op::B(p(0., 0.), vec![10.]), Op::L(p(1., 0.), vec![10.]), Op::Q(p(5., 10.), p(10., 0.), vec![20.]), Op::E(false)]),
        // lyon's own test `flattened_custom_attributes`-like: line, quad, cubic
        (
            "mixed",
            3,
            0.1,
            vec![
                Op::B(p(0., 0.), vec![0., 1., 2.]),
                Op::L(p(10., 0.), vec![1., 2., 3.]),
                Op::Q(p(10., 10.), p(0., 10.), vec![2., 3., 4.]),
                Op::C(p(-5., 10.), p(-5., 0.), p(0., 0.), vec![3., 4., 5.]),
                Op::E(true),
            ],
        ),
    ];
    // attribute counts around the stack/heap switch of `for_each_flattened` (`<= 8`: 16-slot stack
    // buffer holding from- and to-attributes side by side)
    let mut wit = wit;
    for n in [5usize, 8, 9, 10] {
        let a = |k: f32| -> Vec<f32> { (0..n).map(|i| k + i as f32).collect() };
        wit.push((
            "attribute-buffer-boundary",
            n,
            0.1,
            vec![Op::B(p(0., 0.), a(1.)), Op::Q(p(5., 10.), p(10., 0.), a(20.)), Op::C(p(12., 4.), p(16., -4.), p(20., 0.), a(-3.)), Op::L(p(0., -5.), a(0.5)), Op::E(true)],
        ));
    }
    for (name, n, tol, prog) in wit {
        for fam in ["wit", "it", "pb"] {
            let inp = Input { n, tol, m: Transform::new(2.0, 1.0, -1.0, 3.0, 5.0, -7.0), prog: prog.clone(), tag: format!("witness {}", name) };
            emit(&mut ctx, fam, Some(inp));
        }
    }
    // the panic outcome of lyon_geom's callback flattener (segment count >= 2^32) next to ordinary
    // programs, builder side and for_each_flattened (the iterator route would not terminate)
    let big = 1.0e6f32;
    let pw: Vec<(&str, usize, f32, Vec<Op>)> = vec![
        ("count-overflow quad", 1, 1.0e-14, vec![Op::B(p(0., 0.), vec![1.]), Op::Q(p(0.5 * big, big), p(big, 0.), vec![2.]), Op::E(false)]),
        ("count-overflow cubic", 0, 1.0e-30, vec![Op::B(p(0., 0.), vec![]), Op::C(p(0., big), p(big, big), p(big, 0.), vec![]), Op::E(true)]),
        (
            "count-overflow second curve",
            2,
            1.0e-30,
            vec![Op::B(p(0., 0.), vec![1., 2.]), Op::L(p(1., 0.), vec![3., 4.]), Op::L(p(2., 1.), vec![5., 6.]), Op::Q(p(0.5 * big, big), p(big, 0.), vec![7., 8.]), Op::E(true)],
        ),
        ("no-overflow lines", 1, 1.0e-30, vec![Op::B(p(0., 0.), vec![1.]), Op::L(p(big, 0.), vec![2.]), Op::L(p(big, big), vec![3.]), Op::E(true)]),
        (
            "no-overflow mixed",
            3,
            0.1,
            vec![
                Op::B(p(0., 0.), vec![0., 1., 2.]),
                Op::L(p(10., 0.), vec![1., 2., 3.]),
                Op::Q(p(10., 10.), p(0., 10.), vec![2., 3., 4.]),
                Op::C(p(-5., 10.), p(-5., 0.), p(0., 0.), vec![3., 4., 5.]),
                Op::E(true),
            ],
        ),
        ("no-overflow small tolerance", 1, 1.0e-4, vec![Op::B(p(0., 0.), vec![1.]), Op::Q(p(5., 10.), p(10., 0.), vec![2.]), Op::C(p(12., 4.), p(16., -4.), p(20., 0.), vec![-3.]), Op::E(false)]),
    ];
    for (name, n, tol, prog) in pw {
        let inp = Input { n, tol, m: Transform::identity(), prog, tag: format!("witness {}", name) };
        emit(&mut ctx, "e2ep", Some(inp));
    }
    let k = ctx.n(2000, 25000);
    for _ in 0..k {
        for fam in ["bf", "bt", "bn", "na", "pb", "it", "ix", "in"] {
            emit(&mut ctx, fam, None);
        }
        emit(&mut ctx, "e2e", None);
        emit(&mut ctx, "sim", None);
    }
    ctx.finish();
}
