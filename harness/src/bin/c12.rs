//! C12 — intersection queries are exact for segments and sound for curves.
//!
//! Families (f32 and f64 unless noted):
//!   segseg    LineSegment::{intersection_t, intersection, intersects} (both argument orders)
//!             – exhaustive 4×4 integer lattice stream (tag `lattice4`) + structured random
//!   segline   LineSegment::{line_intersection_t, line_intersection, intersects_line,
//!             horizontal_line_intersection_t, vertical_line_intersection_t}
//!   lineline  Line::{intersection, equation}
//!   quadline  QuadraticBezierSegment::{line_intersections_t, line_intersections}
//!   quadseg   QuadraticBezierSegment::line_segment_intersections_t
//!   polyroots utils::cubic_polynomial_roots
//!   cubicline CubicBezierSegment::{line_intersections_t, line_intersections}
//!             + planted stream `cubicline3` (appended after all other ids): distance polynomial with
//!               constructed roots (three / pair / double / quad2 / lin1), tagged with lyon's branch
//!   cubicseg  CubicBezierSegment::line_segment_intersections_t
//!   tri       Triangle::{contains_point, intersects, intersects_line_segment}
//!   cubiccubic CubicBezierSegment::{cubic_intersections_t (both argument orders), cubic_intersections}
//!             – random / planted pairs + a structured stream (point-like, line-like, overlapping,
//!               loops, tangencies, shared endpoints, 9 crossings, magnitudes, closed, near-coincident)
//!
//! ORCL is the property evaluated on lyon's own outputs:
//!   * segments: on integer inputs an independent exact (i128) straddle decision of "cross at a
//!     single point that is not a shared endpoint", exact rational parameters, re-sampling on both
//!     segments; elsewhere a margin decision in f64 plus re-sampling;
//!   * curves: every returned parameter is in [0,1] and re-sampled on both primitives within a
//!     stated envelope; transversal, well-separated crossings found by an independent
//!     sign-change search in f64 (and the planted ones) must be reported.

use lyon_geom::utils::cubic_polynomial_roots;
use lyon_geom::{point, vector, CubicBezierSegment, Line, LineSegment, Point, QuadraticBezierSegment, Triangle, Vector};
use vh::fl::{maxabs, Gen};
use vh::{CaseOut, Ctx, Fl, Oracle, Out, Rng};

// ---------------------------------------------------------------------------------------------
// small helpers

type V2 = (f64, f64);

fn p64<S: Fl>(p: Point<S>) -> V2 {
    (p.x.f(), p.y.f())
}
fn v64<S: Fl>(p: Vector<S>) -> V2 {
    (p.x.f(), p.y.f())
}
fn sub(a: V2, b: V2) -> V2 {
    (a.0 - b.0, a.1 - b.1)
}
fn cross(a: V2, b: V2) -> f64 {
    a.0 * b.1 - a.1 * b.0
}
fn norm(a: V2) -> f64 {
    a.0.hypot(a.1)
}
fn lerp(a: V2, b: V2, t: f64) -> V2 {
    (a.0 + (b.0 - a.0) * t, a.1 + (b.1 - a.1) * t)
}
/// de Casteljau in f64 (independent of lyon's `sample`)
fn bez(ctrl: &[V2], t: f64) -> V2 {
    let mut v = ctrl.to_vec();
    while v.len() > 1 {
        v = v.windows(2).map(|w| lerp(w[0], w[1], t)).collect();
    }
    v[0]
}
fn polygon_len(ctrl: &[V2]) -> f64 {
    ctrl.windows(2).map(|w| norm(sub(w[1], w[0]))).sum()
}

fn put_opt_pair<S: Fl>(o: &mut Out, x: Option<(S, S)>) {
    match x {
        None => {
            o.t("none");
        }
        Some((t, u)) => {
            o.t("some").f(t).f(u);
        }
    }
}
fn put_opt_point<S: Fl>(o: &mut Out, x: Option<Point<S>>) {
    match x {
        None => {
            o.t("none");
        }
        Some(p) => {
            o.t("some").p(p);
        }
    }
}

fn is_small_int(x: f64) -> bool {
    x.fract() == 0.0 && x.abs() <= 1048576.0
}

fn coord<S: Fl>(g: Gen, rng: &mut Rng) -> S {
    S::of(g.coord(rng))
}

// ---------------------------------------------------------------------------------------------
// segment × segment

#[derive(Clone, Copy, PartialEq, Debug)]
enum Expect {
    Some,
    None,
    Unknown,
}

/// Exact decision on integer inputs: do the segments cross at a single point that is not a
/// shared endpoint?  Orientation (straddle) formulation – not the formula lyon uses.
/// Returns (expected, exact t numerator, exact u numerator, denominator) for the Some case.
fn exact_segseg(a0: (i128, i128), a1: (i128, i128), b0: (i128, i128), b1: (i128, i128)) -> (Expect, &'static str, i128, i128, i128) {
    let orient = |p: (i128, i128), q: (i128, i128), r: (i128, i128)| (q.0 - p.0) * (r.1 - p.1) - (q.1 - p.1) * (r.0 - p.0);
    if a0 == a1 || b0 == b1 {
        // a point is not a segment: nothing to cross
        return (Expect::None, "degenerate", 0, 0, 1);
    }
    let d = (a1.0 - a0.0) * (b1.1 - b0.1) - (a1.1 - a0.1) * (b1.0 - b0.0);
    if d == 0 {
        // parallel (disjoint, touching end to end, or overlapping): none
        return (Expect::None, "parallel", 0, 0, 1);
    }
    if a0 == b0 || a0 == b1 || a1 == b0 || a1 == b1 {
        // not parallel and sharing an endpoint: the only common point is that endpoint
        return (Expect::None, "shared-endpoint", 0, 0, 1);
    }
    let o1 = orient(a0, a1, b0);
    let o2 = orient(a0, a1, b1);
    let o3 = orient(b0, b1, a0);
    let o4 = orient(b0, b1, a1);
    let straddle = |x: i128, y: i128| (x <= 0 && y >= 0) || (x >= 0 && y <= 0);
    if straddle(o1, o2) && straddle(o3, o4) {
        // t along a = o3 / (o3 - o4), u along b = o1 / (o1 - o2)
        let kind = if o1 == 0 || o2 == 0 || o3 == 0 || o4 == 0 { "t-junction" } else { "proper" };
        // common denominator: o3 - o4 = -d' ; express both over |d|
        // t = o3/(o3-o4), u = o1/(o1-o2); (o3-o4) = d·(-1)·… keep them separate: return t as
        // (o3, o3-o4) and u via second pair folded into (tn, un, den) with den = (o3-o4)*(o1-o2)
        let tn = o3 * (o1 - o2);
        let un = o1 * (o3 - o4);
        let den = (o3 - o4) * (o1 - o2);
        (Expect::Some, kind, tn, un, den)
    } else {
        (Expect::None, "apart", 0, 0, 1)
    }
}

fn segseg_body<S: Fl>(s: LineSegment<S>, o: LineSegment<S>) -> CaseOut {
    let mut out = Out::new();
    let it = s.intersection_t(&o);
    let ix = s.intersection(&o);
    let b = s.intersects(&o);
    let rev = o.intersection_t(&s);
    out.t("it");
    put_opt_pair(&mut out, it);
    out.t("ix");
    put_opt_point(&mut out, ix);
    out.t("b").b(b);
    out.t("rev");
    put_opt_pair(&mut out, rev);

    let mut orc = Oracle::new();
    let (a0, a1, b0, b1) = (p64(s.from), p64(s.to), p64(o.from), p64(o.to));
    let m = maxabs(&[s.from, s.to, o.from, o.to]).max(1e-30);
    let v1 = sub(a1, a0);
    let v2 = sub(b1, b0);
    let d = cross(v1, v2);
    let finite = [a0, a1, b0, b1].iter().all(|p| p.0.is_finite() && p.1.is_finite());
    if !finite {
        orc.skip("non-finite-input");
        return CaseOut { imp: out, orcl: orc.verdict };
    }
    // the three views agree
    orc.check(b == it.is_some(), "seg.intersects/eq-intersection_t", "generic", || format!("intersects={} it={:?}", b, it));
    orc.check(ix.is_some() == it.is_some(), "seg.intersection/eq-intersection_t", "generic", || format!("ix={:?} it={:?}", ix, it));
    // argument order: (t,u) of (s,o) is (u,t) of (o,s) – exactly, also in floats (negation and
    // commutation of products are exact)
    let sym = match (it, rev) {
        (None, None) => true,
        (Some((t, u)), Some((u2, t2))) => t == t2 && u == u2,
        _ => false,
    };
    orc.check(sym, "seg.intersection_t/symmetric", "generic", || format!("s×o={:?} o×s={:?}", it, rev));

    let all_int = [a0, a1, b0, b1].iter().all(|p| is_small_int(p.0) && is_small_int(p.1));
    let expect;
    if all_int {
        let i = |p: V2| (p.0 as i128, p.1 as i128);
        let (e, kind, tn, un, den) = exact_segseg(i(a0), i(a1), i(b0), i(b1));
        expect = e;
        match e {
            Expect::None => orc.check(it.is_none(), "seg.intersection_t/exact-none", kind, || format!("expected none ({}), lyon reports {:?}", kind, it)),
            Expect::Some => {
                orc.check(it.is_some(), "seg.intersection_t/exact-some", kind, || format!("expected a crossing ({}), lyon reports none", kind));
                if let Some((t, u)) = it {
                    let te = tn as f64 / den as f64;
                    let ue = un as f64 / den as f64;
                    let tol = 4.0 * S::EPS;
                    orc.check((t.f() - te).abs() <= tol && (u.f() - ue).abs() <= tol, "seg.intersection_t/exact-params", kind, || {
                        format!("t={} u={} exact t={} u={}", t.f(), u.f(), te, ue)
                    });
                }
            }
            Expect::Unknown => {}
        }
    } else {
        // margin decision in f64
        let n1 = norm(v1);
        let n2 = norm(v2);
        let shared = a0 == b0 || a0 == b1 || a1 == b0 || a1 == b1;
        if n1 == 0.0 || n2 == 0.0 || shared {
            expect = Expect::None;
            orc.check(it.is_none(), "seg.intersection_t/margin-none", if shared { "shared-endpoint" } else { "degenerate" }, || format!("lyon reports {:?}", it));
        } else if d.abs() < 1e-3 * n1 * n2 {
            expect = Expect::Unknown; // near parallel: no demand either way
        } else {
            let v3 = sub(b0, a0);
            let t = cross(v3, v2) / d;
            let u = cross(v3, v1) / d;
            let delta = if S::BITS == 32 { 1e-3 } else { 1e-9 } * (1.0 + m / n1.min(n2));
            if t > delta && t < 1.0 - delta && u > delta && u < 1.0 - delta {
                expect = Expect::Some;
                orc.check(it.is_some(), "seg.intersection_t/margin-some", "generic", || format!("clear crossing at t={} u={}, lyon reports none", t, u));
            } else if t < -delta || t > 1.0 + delta || u < -delta || u > 1.0 + delta {
                expect = Expect::None;
                orc.check(it.is_none(), "seg.intersection_t/margin-none", "generic", || format!("clearly apart (t={} u={}), lyon reports {:?}", t, u, it));
            } else {
                expect = Expect::Unknown;
            }
        }
    }
    let _ = expect;
    // whatever is reported locates one point on both segments, inside both
    if let Some((t, u)) = it {
        let (t, u) = (t.f(), u.f());
        orc.check((0.0..=1.0).contains(&t) && (0.0..=1.0).contains(&u), "seg.intersection_t/range", "generic", || format!("t={} u={}", t, u));
        let cond = (norm(v1) * norm(v2) / d.abs()).max(1.0);
        let tol = 64.0 * S::EPS * m * cond;
        let pa = lerp(a0, a1, t);
        let pb = lerp(b0, b1, u);
        let e = norm(sub(pa, pb));
        orc.check(e <= tol, "seg.intersection_t/resample", "generic", || format!("s(t)=({},{}) o(u)=({},{}) err={:e} tol={:e}", pa.0, pa.1, pb.0, pb.1, e, tol));
        if let Some(p) = ix {
            let e = norm(sub(p64(p), pa));
            orc.check(e <= tol, "seg.intersection/point", "generic", || format!("err={:e} tol={:e}", e, tol));
        }
    }
    CaseOut { imp: out, orcl: orc.verdict }
}

fn put_seg<S: Fl>(o: &mut Out, s: &LineSegment<S>) {
    o.p(s.from).p(s.to);
}

/// exhaustive stream: index -> four points of the 4×4 lattice {0..3}²
fn segseg_lattice_case<S: Fl>(ctx: &mut Ctx, idx: u32) {
    ctx.case(&format!("segseg:{}", S::BITS), |_rng| {
        let c = |k: u32| S::of(((idx >> (2 * k)) & 3) as f64);
        let s = LineSegment { from: point(c(0), c(1)), to: point(c(2), c(3)) };
        let o = LineSegment { from: point(c(4), c(5)), to: point(c(6), c(7)) };
        let mut args = Out::new();
        put_seg(&mut args, &s);
        put_seg(&mut args, &o);
        let i = |p: Point<S>| (p.x.f() as i128, p.y.f() as i128);
        let (_, kind, _, _, _) = exact_segseg(i(s.from), i(s.to), i(o.from), i(o.to));
        let tag = format!("segseg {} lattice4 {}{}", S::BITS, kind, if kind == "degenerate" { " trivial" } else { "" });
        (args, tag, move || segseg_body(s, o))
    });
}

fn segseg_random_case<S: Fl>(ctx: &mut Ctx) {
    ctx.case(&format!("segseg:{}", S::BITS), |rng| {
        let g = Gen::pick(rng);
        let pts: Vec<Point<S>> = (0..4).map(|_| g.point(rng)).collect();
        let mut s = LineSegment { from: pts[0], to: pts[1] };
        let mut o = LineSegment { from: pts[2], to: pts[3] };
        let lat = g == Gen::Lattice || g == Gen::Degenerate;
        let kind;
        match rng.below(if g == Gen::Degenerate { 8 } else { 14 }) {
            0 => {
                kind = "shared-endpoint";
                match rng.below(4) {
                    0 => o.from = s.from,
                    1 => o.to = s.to,
                    2 => o.from = s.to,
                    _ => o.to = s.from,
                }
            }
            1 => {
                kind = "parallel";
                let k = if lat { rng.range(-3, 3) as f64 } else { rng.uniform(-2.0, 2.0) };
                let v = s.to - s.from;
                o.to = o.from + vector(S::of(v.x.f() * k), S::of(v.y.f() * k));
            }
            2 => {
                kind = "collinear-overlap";
                let v = s.to - s.from;
                let (k0, k1) = if lat { (rng.range(-2, 2) as f64 * 0.5, rng.range(1, 4) as f64 * 0.5) } else { (rng.uniform(-1.0, 1.0), rng.uniform(0.1, 2.0)) };
                o.from = s.from + vector(S::of(v.x.f() * k0), S::of(v.y.f() * k0));
                o.to = s.from + vector(S::of(v.x.f() * (k0 + k1)), S::of(v.y.f() * (k0 + k1)));
            }
            3 => {
                kind = "t-junction";
                // an endpoint of `o` in the interior of `s` (exact on the lattice: midpoint)
                let k = if lat { 0.5 } else { rng.uniform(0.1, 0.9) };
                let v = s.to - s.from;
                let p = s.from + vector(S::of(v.x.f() * k), S::of(v.y.f() * k));
                if rng.chance(1, 2) {
                    o.from = p
                } else {
                    o.to = p
                }
            }
            4 => {
                kind = "point";
                if rng.chance(1, 2) {
                    s.to = s.from
                } else {
                    o.to = o.from
                }
            }
            5 => {
                kind = "near-parallel";
                let v = s.to - s.from;
                let e = if lat { 0.25 } else { rng.uniform(-1e-3, 1e-3) * v.x.f().abs().max(1.0) };
                o.from = s.from + vector(S::of(0.0), S::of(e));
                o.to = s.to + vector(S::of(0.0), S::of(-e));
            }
            6 => {
                kind = "int-grid";
                // integer coordinates of moderate size: exact decision applies, crossings frequent
                let r = *rng.pick(&[3i64, 8, 50, 1000]);
                let q = |rng: &mut Rng| point(S::of(rng.range(-r, r) as f64), S::of(rng.range(-r, r) as f64));
                s = LineSegment { from: q(rng), to: q(rng) };
                o = LineSegment { from: q(rng), to: q(rng) };
            }
            _ => {
                kind = "generic";
            }
        }
        let mut args = Out::new();
        put_seg(&mut args, &s);
        put_seg(&mut args, &o);
        let tag = format!("segseg {} {} {}{}", S::BITS, g.name(), kind, if kind == "point" { " trivial" } else { "" });
        (args, tag, move || segseg_body(s, o))
    });
}

// ---------------------------------------------------------------------------------------------
// segment × line, axis-aligned queries

fn gen_line<S: Fl>(g: Gen, rng: &mut Rng) -> Line<S> {
    let p: Point<S> = g.point(rng);
    let q: Point<S> = g.point(rng);
    let mut v = q - p;
    match rng.below(12) {
        0 => v = vector(S::of(0.0), v.y),
        1 => v = vector(v.x, S::of(0.0)),
        2 if g == Gen::Degenerate => v = vector(S::of(0.0), S::of(0.0)),
        _ => {}
    }
    Line { point: p, vector: v }
}

fn put_line<S: Fl>(o: &mut Out, l: &Line<S>) {
    o.p(l.point).v(l.vector);
}

fn segline_case<S: Fl>(ctx: &mut Ctx) {
    ctx.case(&format!("segline:{}", S::BITS), |rng| {
        let g = Gen::pick(rng);
        let s = LineSegment { from: g.point::<S>(rng), to: g.point::<S>(rng) };
        let mut l: Line<S> = gen_line(g, rng);
        let mut kind = "generic";
        match rng.below(10) {
            0 => {
                kind = "parallel";
                l.vector = s.to - s.from;
            }
            1 => {
                kind = "through-endpoint";
                l.point = if rng.chance(1, 2) { s.from } else { s.to };
            }
            2 => {
                kind = "through-interior";
                l.point = s.sample(S::of(0.5));
            }
            _ => {}
        }
        // axis-aligned queries: a coordinate inside / at the ends / outside the segment's range
        let pickc = |rng: &mut Rng, a: S, b: S| -> S {
            match rng.below(6) {
                0 => a,
                1 => b,
                2 => coord::<S>(g, rng),
                _ => S::of(a.f() + (b.f() - a.f()) * if g == Gen::Lattice || g == Gen::Degenerate { rng.range(0, 8) as f64 / 8.0 } else { rng.unit() }),
            }
        };
        let y = pickc(rng, s.from.y, s.to.y);
        let x = pickc(rng, s.from.x, s.to.x);
        let mut args = Out::new();
        put_seg(&mut args, &s);
        put_line(&mut args, &l);
        args.f(x).f(y);
        let tag = format!("segline {} {} {}", S::BITS, g.name(), kind);
        (args, tag, move || {
            let mut out = Out::new();
            let lt = s.line_intersection_t(&l);
            let lp = s.line_intersection(&l);
            let il = s.intersects_line(&l);
            let h = s.horizontal_line_intersection_t(y);
            let v = s.vertical_line_intersection_t(x);
            out.t("lt").opt_f(lt);
            out.t("lp");
            put_opt_point(&mut out, lp);
            out.t("il").b(il);
            out.t("h").opt_f(h);
            out.t("v").opt_f(v);

            let mut orc = Oracle::new();
            let (a0, a1) = (p64(s.from), p64(s.to));
            let (lp0, lv) = (p64(l.point), v64(l.vector));
            let m = maxabs(&[s.from, s.to, l.point]).max(lv.0.abs()).max(lv.1.abs()).max(1e-30);
            let v1 = sub(a1, a0);
            let d = cross(v1, lv);
            orc.check(il == lt.is_some() && lp.is_some() == lt.is_some(), "seg.line_intersection/views-agree", "generic", || format!("{:?} {:?} {}", lt, lp, il));
            let nl = norm(lv);
            let n1 = norm(v1);
            if let Some(t) = lt {
                let t = t.f();
                orc.check((0.0..=1.0).contains(&t), "seg.line_intersection_t/range", "generic", || format!("t={}", t));
                // the sampled point lies on the line
                let cond = (n1 * nl / d.abs()).max(1.0);
                let tol = 64.0 * S::EPS * m * cond;
                let e = cross(lv, sub(lerp(a0, a1, t), lp0)).abs() / nl;
                orc.check(e <= tol, "seg.line_intersection_t/on-line", "generic", || format!("distance to line {:e} tol {:e}", e, tol));
            }
            if nl > 0.0 && n1 > 0.0 && d.abs() >= 1e-3 * n1 * nl {
                // the line meets the carrier of the segment at t*
                let ts = cross(sub(lp0, a0), lv) / d;
                let delta = if S::BITS == 32 { 1e-3 } else { 1e-9 } * (1.0 + m / n1);
                if ts > delta && ts < 1.0 - delta {
                    orc.check(lt.is_some(), "seg.line_intersection_t/complete", "generic", || format!("line crosses at t={}, lyon reports none", ts));
                } else if ts < -delta || ts > 1.0 + delta {
                    orc.check(lt.is_none(), "seg.line_intersection_t/none-outside", "generic", || format!("line misses (t={}), lyon reports {:?}", ts, lt));
                }
            } else if d == 0.0 && v1.0.abs() <= 1e6 && lv.0.abs() <= 1e6 && v1.1.abs() <= 1e6 && lv.1.abs() <= 1e6 && [v1.0, v1.1, lv.0, lv.1].iter().all(|x| (x * 4.0).fract() == 0.0) {
                // exactly parallel on a lattice
                orc.check(lt.is_none(), "seg.line_intersection_t/parallel-none", "generic", || format!("parallel, lyon reports {:?}", lt));
            }
            // axis-aligned
            for (name, r, lo, hi, q) in [("horizontal", h, a0.1, a1.1, y.f()), ("vertical", v, a0.0, a1.0, x.f())] {
                let (mn, mx) = if lo < hi { (lo, hi) } else { (hi, lo) };
                if let Some(t) = r {
                    let t = t.f();
                    orc.check((0.0..=1.0).contains(&t), &format!("seg.{}_line_intersection_t/range", name), "generic", || format!("t={}", t));
                    let e = (lo + (hi - lo) * t - q).abs();
                    let tol = 16.0 * S::EPS * m;
                    orc.check(e <= tol, &format!("seg.{}_line_intersection_t/on-line", name), "generic", || format!("err={:e} tol={:e}", e, tol));
                }
                let w = mx - mn;
                if w > 0.0 && q > mn + 1e-3 * w && q < mx - 1e-3 * w {
                    orc.check(r.is_some(), &format!("seg.{}_line_intersection_t/complete", name), "generic", || format!("q={} in ({},{})", q, mn, mx));
                }
                // outside the range by more than the rounding of `(v - a) / d`
                let slack = 16.0 * S::EPS * m;
                if q < mn - slack || q > mx + slack || w == 0.0 {
                    orc.check(r.is_none(), &format!("seg.{}_line_intersection_t/none-outside", name), "generic", || format!("q={} range [{},{}] got {:?}", q, mn, mx, r));
                }
            }
            CaseOut { imp: out, orcl: orc.verdict }
        })
    });
}

fn lineline_case<S: Fl>(ctx: &mut Ctx) {
    ctx.case(&format!("lineline:{}", S::BITS), |rng| {
        let g = Gen::pick(rng);
        let l: Line<S> = gen_line(g, rng);
        let mut o: Line<S> = gen_line(g, rng);
        let mut kind = "generic";
        if rng.chance(1, 10) {
            kind = "parallel";
            o.vector = l.vector;
        }
        let mut args = Out::new();
        put_line(&mut args, &l);
        put_line(&mut args, &o);
        let zero_vec = l.vector.x.f() == 0.0 && l.vector.y.f() == 0.0;
        let tag = format!("lineline {} {} {}{}", S::BITS, g.name(), kind, if zero_vec { " zero-vector trivial" } else { "" });
        (args, tag, move || {
            let mut out = Out::new();
            let ix = l.intersection(&o);
            out.t("ix");
            put_opt_point(&mut out, ix);
            let e = l.equation();
            out.t("eq").f(e.a()).f(e.b()).f(e.c());
            let mut orc = Oracle::new();
            let (p1, v1, p2, v2) = (p64(l.point), v64(l.vector), p64(o.point), v64(o.vector));
            let d = cross(v1, v2);
            let (n1, n2) = (norm(v1), norm(v2));
            if let Some(p) = ix {
                let p = p64(p);
                let m = maxabs(&[l.point, o.point]).max(n1).max(n2).max(p.0.abs()).max(p.1.abs());
                let cond = (n1 * n2 / d.abs()).max(1.0);
                // lyon forms `point + vector` before the cross product: the direction is only
                // known to relative precision eps·m/|vector| afterwards
                let amp = 1.0 + m / n1 + m / n2;
                let tol = 256.0 * S::EPS * m * cond * cond * amp;
                let e1 = cross(v1, sub(p, p1)).abs() / n1;
                let e2 = cross(v2, sub(p, p2)).abs() / n2;
                orc.check(e1 <= tol && e2 <= tol, "line.intersection/on-both", "generic", || format!("dist to self {:e}, to other {:e}, tol {:e}", e1, e2, tol));
            } else if n1 > 0.0 && n2 > 0.0 && d.abs() >= 0.05 * n1 * n2 && d.abs() > 1e-3 {
                orc.check(false, "line.intersection/complete", "generic", || format!("clearly crossing lines (det {}), lyon reports none", d));
            }
            // equation: normalised and vanishing on the line's points
            if !zero_vec {
                let (a, b, c) = (e.a().f(), e.b().f(), e.c().f());
                let m = maxabs(&[l.point]).max(1.0);
                let tol = 64.0 * S::EPS;
                orc.check(((a * a + b * b) - 1.0).abs() <= tol, "line.equation/normalised", "generic", || format!("a²+b²={}", a * a + b * b));
                let r0 = a * p1.0 + b * p1.1 + c;
                let r1 = a * (p1.0 + v1.0) + b * (p1.1 + v1.1) + c;
                orc.check(r0.abs() <= tol * m * 4.0 && r1.abs() <= tol * (m + n1) * 4.0, "line.equation/vanishes-on-line", "generic", || format!("{:e} {:e}", r0, r1));
            }
            CaseOut { imp: out, orcl: orc.verdict }
        })
    });
}

// ---------------------------------------------------------------------------------------------
// curves × line / segment

/// Independent reference: parameters in (0,1) where the signed distance `f` changes sign, found
/// by sampling + bisection in f64; returns (t, |f'(t)|).
fn ref_crossings(f: &dyn Fn(f64) -> f64) -> Vec<(f64, f64)> {
    let n = 512;
    let mut res = Vec::new();
    let mut prev_t = 0.0;
    let mut prev = f(0.0);
    for i in 1..=n {
        let t = i as f64 / n as f64;
        let v = f(t);
        if (prev < 0.0 && v > 0.0) || (prev > 0.0 && v < 0.0) {
            let (mut lo, mut hi, mut flo) = (prev_t, t, prev);
            for _ in 0..60 {
                let mid = 0.5 * (lo + hi);
                let fm = f(mid);
                if (fm < 0.0) == (flo < 0.0) {
                    lo = mid;
                    flo = fm;
                } else {
                    hi = mid;
                }
            }
            let r = 0.5 * (lo + hi);
            let h = 1e-5;
            let slope = ((f(r + h) - f(r - h)) / (2.0 * h)).abs();
            res.push((r, slope));
        }
        prev = v;
        prev_t = t;
    }
    res
}

/// Soundness + completeness of a list of curve parameters against a line, shared by the
/// quadratic and cubic families.  `site` is e.g. `quad.line_intersections_t`.
#[allow(clippy::too_many_arguments)]
fn curve_line_oracle<S: Fl>(
    orc: &mut Oracle,
    site: &str,
    class: &str,
    ctrl: &[V2],
    lp: V2,
    lv: V2,
    ts: &[f64],
    // when the query is against a segment: its endpoints (crossings must be well inside)
    seg: Option<(V2, V2)>,
    // absolute distance allowed between a reported point and the line ("within rounding")
    sound_tol: f64,
    param_tol: f64,
) {
    let nl = norm(lv);
    if nl == 0.0 {
        orc.check(ts.is_empty(), &format!("{}/zero-line-none", site), class, || format!("zero line vector, got {:?}", ts));
        return;
    }
    let f = |t: f64| cross(lv, sub(bez(ctrl, t), lp)) / nl;
    let plen = polygon_len(ctrl).max(1e-30);
    // soundness: in range and on the line (and within the segment)
    for &t in ts {
        orc.check((0.0..=1.0).contains(&t), &format!("{}/range", site), class, || format!("t={}", t));
        let e = f(t).abs();
        let tol = sound_tol;
        if std::env::var("C12_STATS").is_ok() {
            eprintln!("STAT {} {} {:e}", site, class, e / tol);
        }
        orc.check(e <= tol, &format!("{}/on-line", site), class, || format!("t={} distance to line {:e} tol {:e}", t, e, tol));
        if let Some((s0, s1)) = seg {
            let p = bez(ctrl, t);
            let sl = norm(sub(s1, s0));
            let along = ((p.0 - s0.0) * (s1.0 - s0.0) + (p.1 - s0.1) * (s1.1 - s0.1)) / (sl * sl);
            let slack = tol / sl + 1e-3;
            orc.check(along >= -slack && along <= 1.0 + slack, &format!("{}/within-segment", site), class, || format!("t={} lies at {} along the segment", t, along));
        }
    }
    // completeness: transversal, well-separated crossings must be reported
    let roots = ref_crossings(&f);
    for (k, &(r, slope)) in roots.iter().enumerate() {
        let sep = roots.iter().enumerate().filter(|(j, _)| *j != k).map(|(_, (q, _))| (q - r).abs()).fold(f64::INFINITY, f64::min);
        let transversal = slope >= 0.2 * plen;
        let mut well = r > 0.05 && r < 0.95 && sep > 0.1 && transversal;
        if let Some((s0, s1)) = seg {
            let p = bez(ctrl, r);
            let sl = norm(sub(s1, s0));
            let along = ((p.0 - s0.0) * (s1.0 - s0.0) + (p.1 - s0.1) * (s1.1 - s0.1)) / (sl * sl);
            // well inside the segment, by more than the rounding of evaluating the curve
            well = well && along > 0.05 && along < 0.95 && along * sl > 4.0 * sound_tol && (1.0 - along) * sl > 4.0 * sound_tol;
        }
        if well {
            let hit = ts.iter().any(|t| (t - r).abs() <= param_tol);
            orc.check(hit, &format!("{}/complete", site), class, || format!("transversal crossing at t={} (slope {:.3e}) not reported; got {:?}", r, slope, ts));
        }
    }
}

/// A line for a curve query: random, or planted through one/two curve points.
fn gen_curve_line<S: Fl>(g: Gen, rng: &mut Rng, sample: &dyn Fn(S) -> Point<S>) -> (Line<S>, &'static str) {
    let lat = g == Gen::Lattice || g == Gen::Degenerate;
    let par = |rng: &mut Rng| S::of(if lat { rng.range(1, 7) as f64 / 8.0 } else { rng.uniform(0.08, 0.92) });
    match rng.below(8) {
        0..=2 => {
            let a = sample(par(rng));
            let b = sample(par(rng));
            (Line { point: a, vector: b - a }, "chord")
        }
        3..=4 => {
            let a = sample(par(rng));
            let d: Point<S> = g.point(rng);
            (Line { point: a, vector: d.to_vector() }, "through-point")
        }
        5 => {
            let a = sample(par(rng));
            let v = if rng.chance(1, 2) { vector(S::of(0.0), S::of(1.0)) } else { vector(S::of(1.0), S::of(0.0)) };
            (Line { point: a, vector: v }, "axis-through-point")
        }
        _ => (gen_line(g, rng), "random"),
    }
}

/// the guard of lyon's linear branch (`a == 0`), recomputed with the same expressions, and the
/// magnitude bound `R` of the roots of the quadratic
fn quad_line_info<S: Fl>(q: &QuadraticBezierSegment<S>, l: &Line<S>) -> (bool, f64) {
    let e = l.equation();
    let i = e.a() * q.from.x + e.b() * q.from.y;
    let j = e.a() * q.ctrl.x + e.b() * q.ctrl.y;
    let k = e.a() * q.to.x + e.b() * q.to.y;
    let a = i - j - j + k;
    let b = j + j - i - i;
    let c = i + e.c();
    let r = if a == S::of(0.0) { (c.f() / b.f()).abs() } else { (b.f() / a.f()).abs().max((c.f() / a.f()).abs().sqrt()) };
    (a == S::of(0.0), if r.is_finite() { r } else { 0.0 })
}

fn gen_quad<S: Fl>(g: Gen, rng: &mut Rng) -> (QuadraticBezierSegment<S>, &'static str) {
    let pts: Vec<Point<S>> = g.points(rng, 3);
    let mut q = QuadraticBezierSegment { from: pts[0], ctrl: pts[1], to: pts[2] };
    let mut kind = "any";
    if rng.chance(1, 8) {
        // symmetric parabola: x is linear in t (a == 0 for vertical lines)
        kind = "x-linear";
        q.ctrl.x = S::of((q.from.x.f() + q.to.x.f()) * 0.5);
    }
    (q, kind)
}

fn quadline_case<S: Fl>(ctx: &mut Ctx) {
    ctx.case(&format!("quadline:{}", S::BITS), |rng| {
        let g = Gen::pick(rng);
        let (q, qk) = gen_quad::<S>(g, rng);
        let (l, lk) = gen_curve_line(g, rng, &|t| q.sample(t));
        let mut args = Out::new();
        args.p(q.from).p(q.ctrl).p(q.to);
        put_line(&mut args, &l);
        let (a0, rr) = quad_line_info(&q, &l);
        let tag = format!("quadline {} {} {} {}{}", S::BITS, g.name(), qk, lk, if a0 { " a=0" } else { "" });
        (args, tag, move || {
            let mut out = Out::new();
            let ts = q.line_intersections_t(&l);
            let ps = q.line_intersections(&l);
            out.t("n").u(ts.len() as u64);
            for t in &ts {
                out.f(*t);
            }
            out.t("pts").u(ps.len() as u64);
            for p in &ps {
                out.p(*p);
            }
            let mut orc = Oracle::new();
            let ctrl = [p64(q.from), p64(q.ctrl), p64(q.to)];
            let class = if a0 { "quad-linear-branch" } else { "generic" };
            let tsf: Vec<f64> = ts.iter().map(|t| t.f()).collect();
            let finite = ctrl.iter().all(|p| p.0.is_finite() && p.1.is_finite());
            if finite {
                curve_line_oracle::<S>(&mut orc, "quad.line_intersections_t", class, &ctrl, p64(l.point), v64(l.vector), &tsf, None, curve_tol::<S>(&ctrl, p64(l.point), rr), if S::BITS == 32 { 2e-3 } else { 1e-7 });
                orc.check(ps.len() == ts.len(), "quad.line_intersections/count", "generic", || format!("{} vs {}", ps.len(), ts.len()));
            } else {
                orc.skip("non-finite-input");
            }
            CaseOut { imp: out, orcl: orc.verdict }
        })
    });
}

/// a segment for curve×segment queries: random, or a chord through curve points extended a bit
fn gen_curve_seg<S: Fl>(g: Gen, rng: &mut Rng, sample: &dyn Fn(S) -> Point<S>) -> (LineSegment<S>, &'static str) {
    let lat = g == Gen::Lattice || g == Gen::Degenerate;
    match rng.below(13) {
        8..=12 => {
            // Axis-aligned stream: an exactly (or nearly) vertical / horizontal segment whose
            // carrier line passes through a point of the curve (off-origin: the coordinates are
            // those of the curve), with the segment either containing that point ("cross") or
            // lying beside it on the same line ("miss").  Only the long axis of such a segment
            // can tell whether a root of the line query is inside the segment.
            let t = S::of(if lat { rng.range(1, 7) as f64 / 8.0 } else { rng.uniform(0.08, 0.92) });
            let a = sample(t);
            let (mut ax, mut ay) = (a.x.f(), a.y.f());
            if lat && rng.chance(1, 2) {
                // integer carrier line, in general not through a sampled point
                ax = ax.round();
                ay = ay.round();
            }
            let scale = ax.abs().max(ay.abs()).max(1.0);
            let len = if lat { rng.range(1, 12) as f64 } else { scale * rng.uniform(0.05, 1.0) };
            let vertical = rng.chance(1, 2);
            let (lo, hi, miss) = match rng.below(4) {
                0 | 1 => {
                    let (u1, u2) = if lat { (rng.range(1, 4) as f64 / 4.0, rng.range(1, 4) as f64 / 4.0) } else { (rng.uniform(0.15, 1.0), rng.uniform(0.15, 1.0)) };
                    (-len * u1, len * u2, false)
                }
                2 => (len * 0.25, len * 1.25, true),
                _ => (-len * 1.25, -len * 0.25, true),
            };
            let near = !lat && rng.chance(1, 3);
            let tilt = if near { len * 1e-3 * rng.uniform(-1.0, 1.0) } else { 0.0 };
            let (mut from, mut to) = if vertical {
                (point(S::of(ax), S::of(ay + lo)), point(S::of(ax + tilt), S::of(ay + hi)))
            } else {
                (point(S::of(ax + lo), S::of(ay)), point(S::of(ax + hi), S::of(ay + tilt)))
            };
            if rng.chance(1, 2) {
                std::mem::swap(&mut from, &mut to);
            }
            let kind = match (vertical, miss, near) {
                (true, false, false) => "axis-vertical-cross",
                (true, true, false) => "axis-vertical-miss",
                (false, false, false) => "axis-horizontal-cross",
                (false, true, false) => "axis-horizontal-miss",
                (true, false, true) => "near-vertical-cross",
                (true, true, true) => "near-vertical-miss",
                (false, false, true) => "near-horizontal-cross",
                (false, true, true) => "near-horizontal-miss",
            };
            (LineSegment { from, to }, kind)
        }
        0..=3 => {
            let t = S::of(if lat { rng.range(1, 7) as f64 / 8.0 } else { rng.uniform(0.08, 0.92) });
            let a = sample(t);
            let d: Vector<S> = g.point::<S>(rng).to_vector();
            let k0 = S::of(if lat { rng.range(1, 4) as f64 / 4.0 } else { rng.uniform(0.1, 1.0) });
            let k1 = S::of(if lat { rng.range(1, 4) as f64 / 4.0 } else { rng.uniform(0.1, 1.0) });
            (LineSegment { from: a - d * k0, to: a + d * k1 }, "through-point")
        }
        4 => {
            let a = sample(S::of(0.25));
            let b = sample(S::of(0.75));
            let d = b - a;
            (LineSegment { from: a - d * S::of(0.5), to: b + d * S::of(0.5) }, "chord")
        }
        5 if g == Gen::Degenerate => {
            let a: Point<S> = g.point(rng);
            (LineSegment { from: a, to: a }, "point")
        }
        _ => (LineSegment { from: g.point(rng), to: g.point(rng) }, "random"),
    }
}

fn put_pairs<S: Fl>(out: &mut Out, v: &[(S, S)]) {
    out.t("n").u(v.len() as u64);
    for (t, u) in v {
        out.f(*t).f(*u);
    }
}

/// soundness of the segment parameter `u` returned next to a curve parameter `t`
fn seg_param_oracle<S: Fl>(orc: &mut Oracle, site: &str, class: &str, ctrl: &[V2], s: &LineSegment<S>, pairs: &[(f64, f64)], tol: f64) {
    let (s0, s1) = (p64(s.from), p64(s.to));
    let tol = tol + 64.0 * S::EPS * maxabs(&[s.from, s.to]);
    for &(t, u) in pairs {
        let pc = bez(ctrl, t);
        let ps = lerp(s0, s1, u);
        let e = norm(sub(pc, ps));
        orc.check(e <= tol, &format!("{}/resample-both", site), class, || format!("curve({})=({},{}) seg({})=({},{}) err={:e} tol={:e}", t, pc.0, pc.1, u, ps.0, ps.1, e, tol));
    }
}

fn quadseg_case<S: Fl>(ctx: &mut Ctx) {
    ctx.case(&format!("quadseg:{}", S::BITS), |rng| {
        let g = Gen::pick(rng);
        let (q, qk) = gen_quad::<S>(g, rng);
        let (s, sk) = gen_curve_seg(g, rng, &|t| q.sample(t));
        let mut args = Out::new();
        args.p(q.from).p(q.ctrl).p(q.to);
        put_seg(&mut args, &s);
        let (a0, rr) = quad_line_info(&q, &s.to_line());
        let degenerate = s.from == s.to;
        let tag = format!("quadseg {} {} {} {}{}{}", S::BITS, g.name(), qk, sk, if a0 { " a=0" } else { "" }, if degenerate { " trivial" } else { "" });
        (args, tag, move || {
            let mut out = Out::new();
            let r = q.line_segment_intersections_t(&s);
            put_pairs(&mut out, &r);
            let mut orc = Oracle::new();
            let ctrl = [p64(q.from), p64(q.ctrl), p64(q.to)];
            let class = if a0 { "quad-linear-branch" } else { "generic" };
            let tsf: Vec<f64> = r.iter().map(|t| t.0.f()).collect();
            let pairs: Vec<(f64, f64)> = r.iter().map(|t| (t.0.f(), t.1.f())).collect();
            let l = s.to_line();
            if degenerate {
                orc.check(r.is_empty(), "quad.line_segment_intersections_t/point-segment-none", "generic", || format!("{:?}", pairs));
            } else {
                let st = curve_tol::<S>(&ctrl, p64(l.point), rr);
                curve_line_oracle::<S>(&mut orc, "quad.line_segment_intersections_t", class, &ctrl, p64(l.point), v64(l.vector), &tsf, Some((p64(s.from), p64(s.to))), st, if S::BITS == 32 { 2e-3 } else { 1e-7 });
                seg_param_oracle(&mut orc, "quad.line_segment_intersections_t", class, &ctrl, &s, &pairs, st * 4.0);
            }
            CaseOut { imp: out, orcl: orc.verdict }
        })
    });
}

fn gen_cubic<S: Fl>(g: Gen, rng: &mut Rng) -> CubicBezierSegment<S> {
    let pts: Vec<Point<S>> = g.points(rng, 4);
    CubicBezierSegment { from: pts[0], ctrl1: pts[1], ctrl2: pts[2], to: pts[3] }
}

/// lyon's `Scalar::epsilon_for`, re-stated (table of crates/geom/src/lib.rs)
fn lyon_eps_for(m: f64, bits: u32) -> f64 {
    let n = m.abs().trunc();
    if bits == 32 {
        if n <= 7.0 {
            1e-5
        } else if n <= 1023.0 {
            1e-3
        } else if n <= 4095.0 {
            1e-2
        } else if (4096.0..=65535.0).contains(&n) {
            1e-1
        } else if (65536.0..=8_388_607.0).contains(&n) {
            0.5
        } else {
            1.0
        }
    } else if n <= 65535.0 {
        1e-8
    } else if n <= 8_388_607.0 {
        1e-5
    } else if n <= 4_294_967_295.0 {
        1e-3
    } else {
        1e-1
    }
}

/// Witness class of a cubic polynomial (computed from the input coefficients only) and a bound
/// `R` on the magnitude of the quantities Cardano's formulas go through (the absolute error of a
/// computed root is a few ulps of `R`).
///  * `cardano-double-root-eps`: one real root (discriminant clearly positive) but the
///    "repeated root" test `|s - t| < epsilon` passes because `epsilon` is taken from the
///    magnitude of the raw coefficients while `s`, `t` belong to the normalised polynomial;
///  * `quadratic-negative-delta-eps`: quadratic branch, the discriminant is clearly negative
///    (relative to its terms) but `|delta| < epsilon` holds because `epsilon` is absolute;
///  * `cardano-cancellation`: one real root and `|delta0|³ ≤ delta1²/100`, so that
///    `delta1 - sqrt(delta0³ + delta1²)` (or `+`) cancels and its cube root carries an error of
///    the order of the cube root of the machine epsilon;
///  * `near-degenerate`: `R > 100` (leading coefficient small against the others but not below
///    `epsilon`): a nearly quadratic "cubic"; normalising by the leading coefficient is
///    ill-conditioned there.  NOT a defect class: the oracle makes no demand on such inputs
///    (reported as `skip near-degenerate-leading-coefficient`);
fn cubic_class(co: [f64; 4], bits: u32) -> (&'static str, f64) {
    let [a, b, c, d] = co;
    let m = a.abs().max(b.abs()).max(c.abs()).max(d.abs());
    let eps = lyon_eps_for(m, bits);
    // (before fix b6989654 the f32 table had no arm for 4096..=5095 and yielded 1.0 there;
    // the class `eps-table-gap` that marked those inputs is retired with the fix)
    let base = "generic";
    if a.abs() < eps {
        if b.abs() < eps {
            if c.abs() < eps {
                return (base, 0.0);
            }
            return (base, (d / c).abs());
        }
        let delta = c * c - 4.0 * b * d;
        let r = (c / b).abs().max((d / b).abs().sqrt());
        if delta < 0.0 && delta.abs() < eps && delta.abs() > 1e-3 * (c * c).max((4.0 * b * d).abs()) {
            // clearly negative discriminant accepted as "zero" by the absolute epsilon
            return ("quadratic-negative-delta-eps", r);
        }
        return (base, r);
    }
    let (bn, cn, dn) = (b / a, c / a, d / a);
    let r = bn.abs().max(cn.abs().sqrt()).max(dn.abs().cbrt());
    let d0 = (3.0 * cn - bn * bn) / 9.0;
    let d1 = (9.0 * bn * cn - 27.0 * dn - 2.0 * bn * bn * bn) / 54.0;
    let d01 = d0 * d0 * d0 + d1 * d1;
    if d01 >= 0.0 {
        let s = (d1 + d01.sqrt()).cbrt();
        let t = (d1 - d01.sqrt()).cbrt();
        if (s - t).abs() < eps && (s + t).abs() >= eps && (s - t).abs() > 1e-3 * (s.abs() + t.abs()) {
            return ("cardano-double-root-eps", r);
        }
        if d1 != 0.0 && d1 * d1 >= 100.0 * d0.abs().powi(3) {
            return ("cardano-cancellation", r);
        }
    }
    if r > 100.0 {
        return ("near-degenerate", r);
    }
    (base, r)
}

fn co64<S: Fl>(co: &[S; 4]) -> [f64; 4] {
    [co[0].f(), co[1].f(), co[2].f(), co[3].f()]
}

/// class of a cubic × line query: lyon (since fix ba950a71) first replaces the line's vector by
/// the unit direction; the polynomial handed to the root finder is recomputed here the same way
fn cubicline_class<S: Fl>(c: &CubicBezierSegment<S>, l: &Line<S>) -> (&'static str, f64) {
    let len = l.vector.length();
    if len == S::of(0.0) || !len.f().is_finite() {
        return ("generic", 0.0);
    }
    let unit = Line { point: l.point, vector: l.vector / len };
    cubic_class(co64(&cubic_line_coeffs(c, &unit)), S::BITS)
}

/// "within rounding" for a root-finder based query: 512 ulps of the quantities involved
fn curve_tol<S: Fl>(ctrl: &[V2], lp: V2, r: f64) -> f64 {
    let m = ctrl.iter().fold(0.0f64, |m, p| m.max(p.0.abs()).max(p.1.abs())).max(lp.0.abs()).max(lp.1.abs());
    512.0 * S::EPS * ((1.0 + r) * polygon_len(ctrl) + m)
}

fn cubic_line_coeffs<S: Fl>(c: &CubicBezierSegment<S>, l: &Line<S>) -> [S; 4] {
    let from = c.from.to_vector();
    let ctrl1 = c.ctrl1.to_vector();
    let ctrl2 = c.ctrl2.to_vector();
    let to = c.to.to_vector();
    let three = S::of(3.0);
    let two = S::of(2.0);
    let p1 = to - from + (ctrl1 - ctrl2) * three;
    let p2 = from * three + (ctrl2 - ctrl1 * two) * three;
    let p3 = (ctrl1 - from) * three;
    let p4 = from;
    let cc = l.point.y * l.vector.x - l.point.x * l.vector.y;
    [
        l.vector.y * p1.x - l.vector.x * p1.y,
        l.vector.y * p2.x - l.vector.x * p2.y,
        l.vector.y * p3.x - l.vector.x * p3.y,
        l.vector.y * p4.x - l.vector.x * p4.y + cc,
    ]
}

fn cubicline_case<S: Fl>(ctx: &mut Ctx) {
    ctx.case(&format!("cubicline:{}", S::BITS), |rng| {
        let g = Gen::pick(rng);
        let c = gen_cubic::<S>(g, rng);
        let (l, lk) = gen_curve_line(g, rng, &|t| c.sample(t));
        let mut args = Out::new();
        args.p(c.from).p(c.ctrl1).p(c.ctrl2).p(c.to);
        put_line(&mut args, &l);
        let (class, rr) = cubicline_class(&c, &l);
        let tag = format!("cubicline {} {} {} {}", S::BITS, g.name(), lk, class);
        (args, tag, move || {
            let mut out = Out::new();
            let ts = c.line_intersections_t(&l);
            let ps = c.line_intersections(&l);
            out.t("n").u(ts.len() as u64);
            for t in &ts {
                out.f(*t);
            }
            out.t("pts").u(ps.len() as u64);
            for p in &ps {
                out.p(*p);
            }
            let mut orc = Oracle::new();
            let ctrl = [p64(c.from), p64(c.ctrl1), p64(c.ctrl2), p64(c.to)];
            let tsf: Vec<f64> = ts.iter().map(|t| t.f()).collect();
            let finite = ctrl.iter().all(|p| p.0.is_finite() && p.1.is_finite());
            if class == "near-degenerate" {
                orc.check(tsf.iter().all(|t| (0.0..=1.0).contains(t)), "cubic.line_intersections_t/range", "generic", || format!("{:?}", tsf));
                orc.skip("near-degenerate-leading-coefficient");
            } else if finite {
                curve_line_oracle::<S>(&mut orc, "cubic.line_intersections_t", class, &ctrl, p64(l.point), v64(l.vector), &tsf, None, curve_tol::<S>(&ctrl, p64(l.point), rr), (if S::BITS == 32 { 1e-2 } else { 1e-5 }) + 1024.0 * S::EPS * rr);
            } else {
                orc.skip("non-finite-input");
            }
            CaseOut { imp: out, orcl: orc.verdict }
        })
    });
}

/// The branch `utils::cubic_polynomial_roots` takes, recomputed with lyon's own expressions in the
/// same scalar type (so the decision is bit-for-bit the one lyon makes): `linear`, `quadratic`
/// (two roots) / `quadratic-double` / `quadratic-none`, `cardano` (one value), `repeated` (the
/// optional second value is pushed), `trig` (three values), `none`.
fn roots_branch<S: Fl>(a: S, b: S, c: S, d: S) -> &'static str {
    let m = a.abs().max(b.abs()).max(c.abs()).max(d.abs());
    let epsilon = S::epsilon_for(m);
    if S::abs(a) < epsilon {
        if S::abs(b) < epsilon {
            if S::abs(c) < epsilon {
                return "none";
            }
            return "linear";
        }
        let delta = c * c - S::FOUR * b * d;
        return if delta > S::ZERO {
            "quadratic"
        } else if S::abs(delta) < epsilon {
            "quadratic-double"
        } else {
            "quadratic-none"
        };
    }
    let frac_1_3 = S::ONE / S::THREE;
    let bn = b / a;
    let cn = c / a;
    let dn = d / a;
    let delta0 = (S::THREE * cn - bn * bn) / S::NINE;
    let delta1 = (S::NINE * bn * cn - S::value(27.0) * dn - S::TWO * bn * bn * bn) / S::value(54.0);
    let delta_01 = delta0 * delta0 * delta0 + delta1 * delta1;
    if delta_01 >= S::ZERO {
        let sqrt_delta_01 = S::sqrt(delta_01);
        let (s, t) = if delta1 >= S::ZERO {
            let p = delta1 + sqrt_delta_01;
            let s = p.signum() * S::abs(p).powf(frac_1_3);
            (s, if s == S::ZERO { S::ZERO } else { -delta0 / s })
        } else {
            let m = delta1 - sqrt_delta_01;
            let t = m.signum() * S::abs(m).powf(frac_1_3);
            (if t == S::ZERO { S::ZERO } else { -delta0 / t }, t)
        };
        let epsilon = S::epsilon_for(bn.abs().max(cn.abs()).max(dn.abs()));
        if S::abs(s - t) < epsilon && S::abs(s + t) >= epsilon {
            "repeated"
        } else {
            "cardano"
        }
    } else {
        "trig"
    }
}

/// Planted stream for the completeness theorems of `Props/C12d.lean` / `Props/C12Real.lean`
/// (`cubic_line_crossings_reported`, `cubic_line_crossings_order_real`,
/// `cubic_roots_simple_complete_exact_degree`): a cubic whose signed distance to a chosen line is,
/// BY CONSTRUCTION, a polynomial with known roots on the lattice `k/8` or `k/16` of `(0,1)`:
///   three   h (t-t1)(t-t2)(t-t3), t1 < t2 < t3 at least 1/8 apart          -> trigonometric branch
///   pair    h (t-t1)((t-c)^2 + e^2)                                         -> one-real-root branch
///   double  h (t-t1)(t-t2)^2                                                -> discriminant 0 (any branch)
///   quad2   h (t-t1)(t-t2)  (degree-elevated parabola: leading coefficient exactly 0)
///   lin1    h (t-t1)
/// The Bernstein coefficients of 3x the integer polynomial are integers; control point i is
/// `P + along_i * v + n_i * perp(v)`, so that `cross(v, curve(t) - P) = |v|^2 * n(t)` exactly in the
/// integer frames (`axis`, `lattice`, `scaled` by powers of two); the `rotated` frame rounds.
/// Same CASE/IMPL format as `cubicline` (the model family is `cubicline`).  ORCL: range, on-line,
/// every constructed simple crossing reported within the stated parameter envelope, the number of
/// values (three / two / one), and in the trigonometric branch the order [t3, t1, t2].  Demanded when
/// lyon's branch is the constructed polynomial's (the regime of the theorems) or the crossing is
/// transversal in the generic stream's sense; otherwise `skip outside-exact-degree-regime` (tiny or
/// rounded curves whose distance coefficients pass / fail lyon's absolute epsilon test by noise).
fn cubicline3_case<S: Fl>(ctx: &mut Ctx) {
    ctx.case(&format!("cubicline:{}", S::BITS), |rng| {
        let k = rng.below(10);
        let kind = if k < 6 { "three" } else if k < 7 { "pair" } else if k < 8 { "double" } else if k < 9 { "quad2" } else { "lin1" };
        let den: i64 = if rng.chance(1, 2) { 8 } else { 16 };
        let gap = den / 8;
        // three increasing lattice parameters with gaps >= 1/8
        let (k1, k2, k3) = loop {
            let mut ks = [rng.range(1, den - 1), rng.range(1, den - 1), rng.range(1, den - 1)];
            ks.sort();
            if ks[1] - ks[0] >= gap && ks[2] - ks[1] >= gap {
                break (ks[0], ks[1], ks[2]);
            }
        };
        // integer power-basis coefficients a3 t^3 + a2 t^2 + a1 t + a0 and the expected crossings
        let (a3, a2, a1, a0, expect, extra): (i64, i64, i64, i64, Vec<f64>, Vec<f64>) = match kind {
            "three" => (
                den * den * den,
                -den * den * (k1 + k2 + k3),
                den * (k1 * k2 + k1 * k3 + k2 * k3),
                -k1 * k2 * k3,
                vec![k1 as f64 / den as f64, k2 as f64 / den as f64, k3 as f64 / den as f64],
                vec![],
            ),
            "pair" => {
                let kc = rng.range(1, den - 1);
                let ke = rng.range(1, den * den / 4);
                (
                    den * den * den,
                    -2 * den * den * kc - den * den * k1,
                    den * (kc * kc + ke) + 2 * den * kc * k1,
                    -k1 * (kc * kc + ke),
                    vec![k1 as f64 / den as f64],
                    vec![kc as f64 / den as f64],
                )
            }
            "double" => (
                den * den * den,
                -den * den * (k1 + k3 + k3),
                den * (k1 * k3 + k1 * k3 + k3 * k3),
                -k1 * k3 * k3,
                vec![k1 as f64 / den as f64],
                vec![k3 as f64 / den as f64],
            ),
            "quad2" => (0, den * den, -den * (k1 + k3), k1 * k3, vec![k1 as f64 / den as f64, k3 as f64 / den as f64], vec![]),
            _ => (0, 0, den, -k2, vec![k2 as f64 / den as f64], vec![]),
        };
        let h = (if rng.chance(1, 2) { 1 } else { -1 }) * rng.range(1, 3);
        // Bernstein coefficients of 3 h q(t)
        let n = [h * 3 * a0, h * (3 * a0 + a1), h * (3 * a0 + 2 * a1 + a2), h * 3 * (a0 + a1 + a2 + a3)];
        let sa = *rng.pick(&[1i64, 64, 4096]);
        let along = [rng.range(-8, 8) * sa, rng.range(-8, 8) * sa, rng.range(-8, 8) * sa, rng.range(-8, 8) * sa];
        let fk = rng.below(4);
        let frame = ["axis", "lattice", "scaled", "rotated"][fk as usize];
        let (px, py) = (rng.range(-16, 16) as f64, rng.range(-16, 16) as f64);
        let (mut vx, mut vy) = match fk {
            0 => *rng.pick(&[(1.0, 0.0), (0.0, 1.0), (-1.0, 0.0), (0.0, -1.0)]),
            _ => loop {
                let v = (rng.range(-4, 4) as f64, rng.range(-4, 4) as f64);
                if v != (0.0, 0.0) {
                    break v;
                }
            },
        };
        let mut scale = 1.0f64;
        let mut vscale = 1.0f64;
        if fk == 2 {
            scale = (2.0f64).powi(rng.range(-12, 12) as i32);
            vscale = (2.0f64).powi(rng.range(-6, 6) as i32);
        } else if fk == 3 {
            let th = rng.uniform(0.0, std::f64::consts::TAU);
            vx = th.cos();
            vy = th.sin();
            scale = rng.log_uniform(-3.0, 3.0) / 4096.0;
            vscale = rng.log_uniform(-2.0, 2.0);
        }
        let ctl = |i: usize| -> Point<S> {
            let x = px + vx * along[i] as f64 + (-vy) * n[i] as f64;
            let y = py + vy * along[i] as f64 + vx * n[i] as f64;
            point(S::of(x * scale), S::of(y * scale))
        };
        let c = CubicBezierSegment { from: ctl(0), ctrl1: ctl(1), ctrl2: ctl(2), to: ctl(3) };
        let l: Line<S> = Line { point: point(S::of(px * scale), S::of(py * scale)), vector: vector(S::of(vx * vscale), S::of(vy * vscale)) };
        let mut args = Out::new();
        args.p(c.from).p(c.ctrl1).p(c.ctrl2).p(c.to);
        put_line(&mut args, &l);
        let (class, rr) = cubicline_class(&c, &l);
        let len = l.vector.length();
        let unit = Line { point: l.point, vector: l.vector / len };
        let co = cubic_line_coeffs(&c, &unit);
        let branch = roots_branch(co[0], co[1], co[2], co[3]);
        let tag = format!("cubicline3 {} {} {}", S::BITS, kind, branch);
        (args, tag, move || {
            let mut out = Out::new();
            let ts = c.line_intersections_t(&l);
            let ps = c.line_intersections(&l);
            out.t("n").u(ts.len() as u64);
            for t in &ts {
                out.f(*t);
            }
            out.t("pts").u(ps.len() as u64);
            for p in &ps {
                out.p(*p);
            }
            let mut orc = Oracle::new();
            let site = "cubic.line_intersections_t";
            let ctrl = [p64(c.from), p64(c.ctrl1), p64(c.ctrl2), p64(c.to)];
            let tsf: Vec<f64> = ts.iter().map(|t| t.f()).collect();
            orc.check(tsf.iter().all(|t| (0.0..=1.0).contains(t)), &format!("{}/range", site), "generic", || format!("{:?}", tsf));
            // The demands below are made in the regime of the theorems: lyon's degree / branch decision
            // is the one of the constructed polynomial (`ExactDegree`; outside it the whole curve is
            // within epsilon_for of the line: Lyon.C12d.cubic_line_outside_regime_flat) - or the
            // crossing is transversal in the sense of the generic stream (slope >= 0.2 x polygon length).
            let consistent = match kind {
                "three" => branch == "trig",
                "pair" => branch == "cardano" || branch == "repeated",
                "double" => branch == "trig" || branch == "cardano" || branch == "repeated",
                "quad2" => branch == "quadratic",
                _ => branch == "linear",
            };
            let (lp, lv) = (p64(l.point), v64(l.vector));
            let nl = norm(lv);
            let fd = |t: f64| cross(lv, sub(bez(&ctrl, t), lp)) / nl;
            let plen = polygon_len(&ctrl).max(1e-300);
            let classic = expect.iter().any(|&r| ((fd(r + 1e-6) - fd(r - 1e-6)) / 2e-6).abs() >= 0.2 * plen);
            if class == "near-degenerate" {
                orc.skip("near-degenerate-leading-coefficient");
            } else if !consistent && !classic {
                orc.skip("outside-exact-degree-regime");
            } else {
                let sound_tol = curve_tol::<S>(&ctrl, p64(l.point), rr);
                let param_tol = (if S::BITS == 32 { 1e-2 } else { 1e-5 }) + 1024.0 * S::EPS * rr;
                for &t in &tsf {
                    let e = (cross(lv, sub(bez(&ctrl, t), lp)) / nl).abs();
                    orc.check(e <= sound_tol, &format!("{}/on-line", site), class, || format!("planted {}: t={} distance to line {:e} tol {:e}", kind, t, e, sound_tol));
                    // every value is one of the constructed roots (simple, double, or the real part of the pair
                    // only in the branch that pushes the optional value)
                    let near = expect.iter().chain(extra.iter()).any(|r| (t - r).abs() <= param_tol.max(if kind == "double" { 64.0 * S::EPS.sqrt() } else { 0.0 }));
                    orc.check(near, &format!("{}/planted-sound", site), class, || format!("planted {} {:?}+{:?}: value {} is no constructed root (tol {:e})", kind, expect, extra, t, param_tol));
                }
                for r in &expect {
                    let hit = tsf.iter().any(|t| (t - r).abs() <= param_tol);
                    if std::env::var("C12_STATS").is_ok() {
                        let e = tsf.iter().map(|t| (t - r).abs()).fold(f64::INFINITY, f64::min);
                        eprintln!("STAT planted-param {} {} {} {:e} {:e}", S::BITS, kind, frame, e / S::EPS, e / param_tol);
                    }
                    orc.check(hit, &format!("{}/planted-complete", site), class, || format!("planted {} ({}): constructed transversal crossing at t={} not reported; got {:?}", kind, branch, r, tsf));
                }
                let want = match kind {
                    "three" => Some(3),
                    "quad2" => Some(2),
                    "lin1" => Some(1),
                    "pair" => Some(if branch == "repeated" { 2 } else { 1 }),
                    _ => None,
                };
                if let Some(w) = want {
                    orc.check(tsf.len() == w, &format!("{}/planted-count", site), class, || format!("planted {} ({}): expected {} values, got {:?}", kind, branch, w, tsf));
                }
                if kind == "three" && branch == "trig" && tsf.len() == 3 {
                    let ok = (tsf[0] - expect[2]).abs() <= param_tol && (tsf[1] - expect[0]).abs() <= param_tol && (tsf[2] - expect[1]).abs() <= param_tol;
                    orc.check(ok, &format!("{}/planted-order", site), class, || format!("trigonometric branch: expected order [t3, t1, t2] = [{}, {}, {}], got {:?}", expect[2], expect[0], expect[1], tsf));
                }
            }
            CaseOut { imp: out, orcl: orc.verdict }
        })
    });
}

fn cubicseg_case<S: Fl>(ctx: &mut Ctx) {
    ctx.case(&format!("cubicseg:{}", S::BITS), |rng| {
        let g = Gen::pick(rng);
        let c = gen_cubic::<S>(g, rng);
        let (s, sk) = gen_curve_seg(g, rng, &|t| c.sample(t));
        let mut args = Out::new();
        args.p(c.from).p(c.ctrl1).p(c.ctrl2).p(c.to);
        put_seg(&mut args, &s);
        let l = s.to_line();
        let (class, rr) = cubicline_class(&c, &l);
        let degenerate = s.from == s.to;
        let tag = format!("cubicseg {} {} {} {}{}", S::BITS, g.name(), sk, class, if degenerate { " trivial" } else { "" });
        (args, tag, move || {
            let mut out = Out::new();
            let r = c.line_segment_intersections_t(&s);
            put_pairs(&mut out, &r);
            let mut orc = Oracle::new();
            let ctrl = [p64(c.from), p64(c.ctrl1), p64(c.ctrl2), p64(c.to)];
            let tsf: Vec<f64> = r.iter().map(|t| t.0.f()).collect();
            let pairs: Vec<(f64, f64)> = r.iter().map(|t| (t.0.f(), t.1.f())).collect();
            if degenerate {
                orc.check(r.is_empty(), "cubic.line_segment_intersections_t/point-segment-none", "generic", || format!("{:?}", pairs));
            } else if class == "near-degenerate" {
                orc.check(tsf.iter().all(|t| (0.0..=1.0).contains(t)), "cubic.line_segment_intersections_t/range", "generic", || format!("{:?}", tsf));
                orc.skip("near-degenerate-leading-coefficient");
            } else {
                let st = curve_tol::<S>(&ctrl, p64(l.point), rr);
                curve_line_oracle::<S>(&mut orc, "cubic.line_segment_intersections_t", class, &ctrl, p64(l.point), v64(l.vector), &tsf, Some((p64(s.from), p64(s.to))), st, (if S::BITS == 32 { 1e-2 } else { 1e-5 }) + 1024.0 * S::EPS * rr);
                seg_param_oracle(&mut orc, "cubic.line_segment_intersections_t", class, &ctrl, &s, &pairs, st * 4.0);
            }
            CaseOut { imp: out, orcl: orc.verdict }
        })
    });
}

fn polyroots_case<S: Fl>(ctx: &mut Ctx) {
    ctx.case(&format!("polyroots:{}", S::BITS), |rng| {
        let g = Gen::pick(rng);
        let lat = g == Gen::Lattice || g == Gen::Degenerate;
        let mut co: Vec<S> = (0..4).map(|_| coord::<S>(g, rng)).collect();
        let mut kind = "random";
        match rng.below(10) {
            0 => {
                kind = "a=0";
                co[0] = S::of(0.0);
            }
            1 => {
                kind = "a=b=0";
                co[0] = S::of(0.0);
                co[1] = S::of(0.0);
            }
            2..=5 => {
                // planted real roots: a (x-r1)(x-r2)(x-r3)
                kind = "three-real";
                let r = |rng: &mut Rng| if lat { rng.range(-8, 8) as f64 / 4.0 } else { rng.uniform(-2.0, 2.0) };
                let (r1, r2, r3) = (r(rng), r(rng), r(rng));
                let a = if lat { rng.range(1, 4) as f64 } else { rng.uniform(0.5, 4.0) };
                co = vec![S::of(a), S::of(-a * (r1 + r2 + r3)), S::of(a * (r1 * r2 + r1 * r3 + r2 * r3)), S::of(-a * r1 * r2 * r3)];
            }
            6 => {
                kind = "tiny-a";
                co[0] = S::of(co[0].f() * 1e-6);
            }
            _ => {}
        }
        let (a, b, c, d) = (co[0], co[1], co[2], co[3]);
        let mut args = Out::new();
        args.f(a).f(b).f(c).f(d);
        let (class, rr) = cubic_class([a.f(), b.f(), c.f(), d.f()], S::BITS);
        let tag = format!("polyroots {} {} {} {}", S::BITS, g.name(), kind, class);
        (args, tag, move || {
            let mut out = Out::new();
            let r = cubic_polynomial_roots(a, b, c, d);
            out.t("n").u(r.len() as u64);
            for x in &r {
                out.f(*x);
            }
            let mut orc = Oracle::new();
            let (a, b, c, d) = (a.f(), b.f(), c.f(), d.f());
            if class == "near-degenerate" {
                orc.skip("near-degenerate-leading-coefficient");
            }
            for x in &r {
                if class == "near-degenerate" {
                    break;
                }
                let x = x.f();
                if !x.is_finite() {
                    continue;
                }
                // normwise backward error: x is an exact root of a polynomial whose coefficients
                // differ from the given ones by at most tol_rel·max|coef|
                let res = (((a * x + b) * x + c) * x + d).abs();
                let mm = a.abs().max(b.abs()).max(c.abs()).max(d.abs());
                let ax = x.abs();
                let scale = mm * (1.0 + ax + ax * ax + ax * ax * ax);
                let tol = 512.0 * S::EPS * (1.0 + rr) * (1.0 + rr) * scale + lyon_eps_for(mm, S::BITS) * ax * ax * ax.max(1.0);
                if std::env::var("C12_STATS").is_ok() {
                    eprintln!("STAT polyroots {} {:e}", class, res / tol);
                }
                orc.check(res <= tol, "utils.cubic_polynomial_roots/residual", class, || format!("x={} |p(x)|={:e} tol={:e}", x, res, tol));
            }
            CaseOut { imp: out, orcl: orc.verdict }
        })
    });
}

// ---------------------------------------------------------------------------------------------
// triangle

fn tri_case<S: Fl>(ctx: &mut Ctx) {
    ctx.case(&format!("tri:{}", S::BITS), |rng| {
        let g = Gen::pick(rng);
        let tp: Vec<Point<S>> = g.points(rng, 3);
        let t = Triangle { a: tp[0], b: tp[1], c: tp[2] };
        let mut kind = "random";
        let p: Point<S> = match rng.below(6) {
            0 => {
                kind = "vertex";
                t.a
            }
            1 => {
                kind = "edge";
                t.ab().sample(S::of(0.5))
            }
            2 | 3 => {
                kind = "inside";
                let (u, v) = if g == Gen::Lattice || g == Gen::Degenerate { (0.25, 0.25) } else { (rng.uniform(0.05, 0.45), rng.uniform(0.05, 0.45)) };
                point(
                    S::of(t.a.x.f() * (1.0 - u - v) + t.b.x.f() * u + t.c.x.f() * v),
                    S::of(t.a.y.f() * (1.0 - u - v) + t.b.y.f() * u + t.c.y.f() * v),
                )
            }
            _ => g.point(rng),
        };
        let op: Vec<Point<S>> = g.points(rng, 3);
        let mut o = Triangle { a: op[0], b: op[1], c: op[2] };
        if rng.chance(1, 12) {
            o = t;
        }
        let s = LineSegment { from: if rng.chance(1, 3) { p } else { g.point(rng) }, to: g.point(rng) };
        let mut args = Out::new();
        args.p(t.a).p(t.b).p(t.c).p(p).p(o.a).p(o.b).p(o.c);
        put_seg(&mut args, &s);
        let tag = format!("tri {} {} {}", S::BITS, g.name(), kind);
        (args, tag, move || {
            let mut out = Out::new();
            let cp = t.contains_point(p);
            let ti = t.intersects(&o);
            let ts = t.intersects_line_segment(&s);
            out.t("c").b(cp).t("i").b(ti).t("s").b(ts);
            let mut orc = Oracle::new();
            // barycentric reference in f64 with margin
            let (a, b, c, q) = (p64(t.a), p64(t.b), p64(t.c), p64(p));
            let det = cross(sub(b, a), sub(c, a));
            let m = maxabs(&[t.a, t.b, t.c, p]).max(1e-30);
            let big = norm(sub(b, a)) * norm(sub(c, a));
            if det.abs() > 1e-3 * big && big > 0.0 {
                let w_c = cross(sub(b, a), sub(q, a)) / det;
                let w_b = cross(sub(q, a), sub(c, a)) / det;
                let w_a = 1.0 - w_b - w_c;
                let lo = w_a.min(w_b).min(w_c);
                let delta = if S::BITS == 32 { 1e-3 } else { 1e-9 } * (1.0 + m * m / det.abs());
                if lo > delta {
                    orc.check(cp, "triangle.contains_point/inside", "generic", || format!("weights {} {} {}", w_a, w_b, w_c));
                } else if lo < -delta {
                    orc.check(!cp, "triangle.contains_point/outside", "generic", || format!("weights {} {} {}", w_a, w_b, w_c));
                }
            } else if det == 0.0 && [a, b, c, q].iter().all(|p| (p.0 * 4.0).fract() == 0.0 && (p.1 * 4.0).fract() == 0.0 && p.0.abs() < 1e5 && p.1.abs() < 1e5) {
                orc.check(!cp, "triangle.contains_point/degenerate-none", "generic", || "degenerate triangle contains a point".to_string());
            }
            // consequences inside the API
            if t.contains_point(o.a) || o.contains_point(t.a) {
                orc.check(ti, "triangle.intersects/contains-vertex", "generic", || "a vertex of one triangle is inside the other but intersects() is false".to_string());
            }
            let boxes_apart = |xs: &[V2], ys: &[V2]| {
                let mm = |v: &[V2], f: &dyn Fn(&V2) -> f64| (v.iter().map(|p| f(p)).fold(f64::INFINITY, f64::min), v.iter().map(|p| f(p)).fold(f64::NEG_INFINITY, f64::max));
                let (x0, x1) = mm(xs, &|p| p.0);
                let (y0, y1) = mm(xs, &|p| p.1);
                let (u0, u1) = mm(ys, &|p| p.0);
                let (v0, v1) = mm(ys, &|p| p.1);
                // apart by more than the rounding of the cross products (64 ulp of the magnitude)
                let mag = xs.iter().chain(ys.iter()).fold(0.0f64, |m, p| m.max(p.0.abs()).max(p.1.abs()));
                let gap = 64.0 * S::EPS * mag;
                x1 + gap < u0 || u1 + gap < x0 || y1 + gap < v0 || v1 + gap < y0
            };
            // (slivers are excluded: the barycentric test is ill-conditioned there)
            let fat = |a: V2, b: V2, c: V2| cross(sub(b, a), sub(c, a)).abs() > 1e-3 * norm(sub(b, a)) * norm(sub(c, a));
            let both_fat = fat(a, b, c) && fat(p64(o.a), p64(o.b), p64(o.c));
            if both_fat && boxes_apart(&[a, b, c], &[p64(o.a), p64(o.b), p64(o.c)]) {
                orc.check(!ti, "triangle.intersects/disjoint-boxes", "generic", || "bounding boxes are disjoint but intersects() is true".to_string());
            }
            if fat(a, b, c) && boxes_apart(&[a, b, c], &[p64(s.from), p64(s.to)]) {
                orc.check(!ts, "triangle.intersects_line_segment/disjoint-boxes", "generic", || "bounding boxes are disjoint but intersects_line_segment() is true".to_string());
            }
            CaseOut { imp: out, orcl: orc.verdict }
        })
    });
}

// ---------------------------------------------------------------------------------------------
// cubic × cubic

/// brute-force reference: crossings of two 128-segment polylines, as (t, u)
fn polyline_crossings(a: &[V2], b: &[V2]) -> Vec<(f64, f64)> {
    let n = 128;
    let pa: Vec<V2> = (0..=n).map(|i| bez(a, i as f64 / n as f64)).collect();
    let pb: Vec<V2> = (0..=n).map(|i| bez(b, i as f64 / n as f64)).collect();
    let mut res = Vec::new();
    for i in 0..n {
        let (a0, a1) = (pa[i], pa[i + 1]);
        let (ax0, ax1) = (a0.0.min(a1.0), a0.0.max(a1.0));
        let (ay0, ay1) = (a0.1.min(a1.1), a0.1.max(a1.1));
        for j in 0..n {
            let (b0, b1) = (pb[j], pb[j + 1]);
            if b0.0.max(b1.0) < ax0 || b0.0.min(b1.0) > ax1 || b0.1.max(b1.1) < ay0 || b0.1.min(b1.1) > ay1 {
                continue;
            }
            let v1 = sub(a1, a0);
            let v2 = sub(b1, b0);
            let d = cross(v1, v2);
            if d == 0.0 {
                continue;
            }
            let v3 = sub(b0, a0);
            let t = cross(v3, v2) / d;
            let u = cross(v3, v1) / d;
            if (0.0..1.0).contains(&t) && (0.0..1.0).contains(&u) {
                res.push(((i as f64 + t) / n as f64, (j as f64 + u) / n as f64));
            }
        }
    }
    res
}

/// harness-side classification of the dispatch of `cubic_bezier_intersections_t` (for the TAG
/// line only): which top-level branch the pair takes
fn cc_branch<S: Fl>(a: &CubicBezierSegment<S>, b: &CubicBezierSegment<S>) -> &'static str {
    let is_pt = |c: &CubicBezierSegment<S>| {
        let e2 = S::EPSILON * S::EPSILON;
        (c.from - c.to).square_length() <= e2 && (c.from - c.ctrl1).square_length() <= e2 && (c.to - c.ctrl2).square_length() <= e2
    };
    if !a.fast_bounding_box().intersects(&b.fast_bounding_box()) {
        return "br-boxes-apart";
    }
    if a == b || (a.from == b.to && a.ctrl1 == b.ctrl2 && a.ctrl2 == b.ctrl1 && a.to == b.from) {
        return "br-same-curve";
    }
    match (is_pt(a), is_pt(b)) {
        (true, true) => return "br-point-point",
        (true, false) | (false, true) => return "br-point-curve",
        _ => {}
    }
    match (a.is_linear(S::EPSILON), b.is_linear(S::EPSILON)) {
        (true, true) => "br-line-line",
        (true, false) | (false, true) => "br-line-curve",
        _ => "br-clip",
    }
}

fn cc_mk<S: Fl>(c: [V2; 4]) -> CubicBezierSegment<S> {
    let p = |v: V2| point(S::of(v.0), S::of(v.1));
    CubicBezierSegment { from: p(c[0]), ctrl1: p(c[1]), ctrl2: p(c[2]), to: p(c[3]) }
}

fn cc_ctrl<S: Fl>(c: &CubicBezierSegment<S>) -> [V2; 4] {
    [p64(c.from), p64(c.ctrl1), p64(c.ctrl2), p64(c.to)]
}

/// lyon call + oracle for one pair of cubics
fn cubiccubic_body<S: Fl>(a: CubicBezierSegment<S>, b: CubicBezierSegment<S>) -> CaseOut {
    let mut out = Out::new();
    let mut orc = Oracle::new();
    let ca = cc_ctrl(&a);
    let cb = cc_ctrl(&b);
    let m = ca.iter().chain(cb.iter()).fold(0.0f64, |m, p| m.max(p.0.abs()).max(p.1.abs())).max(1e-30);
    // `epsilon_for_point` casts a coordinate magnitude to i32 (f32) / i64 (f64) and unwraps: inputs
    // with a coordinate beyond that range are run guarded, a panic is the modelled outcome `panic`
    let int_limit = if S::BITS == 32 { 2147483648.0 } else { 9223372036854775808.0 };
    let beyond_int = m >= 0.99 * int_limit;
    let run = || (a.cubic_intersections_t(&b), b.cubic_intersections_t(&a), a.cubic_intersections(&b));
    let (r, rv, pts) = if beyond_int {
        match vh::guarded(run) {
            Some(x) => x,
            None => {
                out.t("panic");
                // C12 states what reported parameters mean; it does not promise a result for coordinates
                // beyond the integer range.  The panic is a modelled outcome (the tie demands that the model
                // predicts it exactly) and is recorded as an observation, not as a failure of the property.
                let _ = m;
                orc.skip("panic-coordinate-beyond-int-range");
                return CaseOut { imp: out, orcl: orc.verdict };
            }
        }
    } else {
        run()
    };
    put_pairs(&mut out, &r);
    // the same query with the curves swapped, and the point version (sorted, de-duplicated)
    out.t("rev");
    put_pairs(&mut out, &rv);
    out.t("pts").u(pts.len() as u64);
    for p in &pts {
        out.p(*p);
    }
    if !m.is_finite() || m > 1e15 {
        orc.skip("magnitude");
        return CaseOut { imp: out, orcl: orc.verdict };
    }
    // relative envelope + an absolute floor of 4 x S::EPSILON (lyon's own point / linearity tolerance,
    // which is absolute: it dominates for coordinates below 0.2 in f32)
    let tol = if S::BITS == 32 { 2e-3 } else { 1e-6 } * m + 4.0 * S::EPSILON.f();
    // failures are collected and the `generic` ones registered first, so that a listed witness
    // class cannot mask a different violation in the same case
    let mut fails: Vec<(&'static str, &'static str, String)> = Vec::new();
    let mut misses: Vec<&'static str> = Vec::new();
    let branch = cc_branch(&a, &b);
    let e2 = S::EPSILON.f() * S::EPSILON.f();
    let is_pt = |c: &[V2; 4]| {
        let d2 = |p: V2, q: V2| (p.0 - q.0) * (p.0 - q.0) + (p.1 - q.1) * (p.1 - q.1);
        d2(c[0], c[3]) <= e2 && d2(c[0], c[1]) <= e2 && d2(c[3], c[2]) <= e2
    };
    let (a_pt, b_pt) = (is_pt(&ca), is_pt(&cb));
    let mut skip_root = false;
    for (t, u) in &r {
        let (t, u) = (t.f(), u.f());
        if !((0.0..=1.0).contains(&t) && (0.0..=1.0).contains(&u)) {
            fails.push(("cubic.cubic_intersections_t/range", "generic", format!("t={} u={}", t, u)));
        }
        let (pa, pb) = (bez(&ca, t), bez(&cb, u));
        let e = norm(sub(pa, pb));
        if !(e <= tol) {
            // the line x curve branch goes through the cubic root finder twice (curve x baseline
            // line, then the line-like curve's own coordinate polynomial): same envelope and same
            // "no demand on nearly quadratic cubics" rule as the cubic x line oracle
            if branch == "br-line-curve" {
                let a_lin = a.is_linear(S::EPSILON);
                let (lin, cur, lc, cc, tl) = if a_lin { (&a, &b, &ca, &cb, t) } else { (&b, &a, &cb, &ca, u) };
                let base = lin.baseline().to_line();
                let (c1, r1) = cubicline_class(cur, &base);
                let vertical = (lin.from.y - lin.to.y).abs() >= (lin.from.x - lin.to.x).abs();
                let co = |p0: f64, p1: f64, p2: f64, p3: f64, v: f64| [-p0 + 3.0 * p1 - 3.0 * p2 + p3, 3.0 * p0 - 6.0 * p1 + 3.0 * p2, -3.0 * p0 + 3.0 * p1, p0 - v];
                let pl = bez(lc, tl);
                let (c2, r2) = if vertical { cubic_class(co(lc[0].1, lc[1].1, lc[2].1, lc[3].1, pl.1), S::BITS) } else { cubic_class(co(lc[0].0, lc[1].0, lc[2].0, lc[3].0, pl.0), S::BITS) };
                if c1 == "near-degenerate" || c2 == "near-degenerate" {
                    skip_root = true;
                    continue;
                }
                let envelope = tol + curve_tol::<S>(cc, p64(base.point), r1) + curve_tol::<S>(lc, p64(base.point), r2);
                if e <= envelope {
                    continue;
                }
            }
            // witness class: acceptance tests that compare a SQUARED distance with an epsilon meant
            // as a distance: `point_curve_intersections` with `S::EPSILON` in the point x curve
            // branch (anything within sqrt(EPSILON) = 1e-2 (f32) / 1e-4 (f64) is reported) and
            // `add_point_curve_intersection` with `epsilon_for_point` in the clipping branch
            // (f32: 0.001 below 10, 0.01 below 100, ... i.e. distances up to 0.0316, 0.1, ...)
            let pm = pa.0.abs().max(pa.1.abs()).max(pb.0.abs()).max(pb.1.abs());
            let efp = if S::BITS == 32 {
                if pm < 10.0 { 0.001 } else if pm < 100.0 { 0.01 } else if pm < 1e3 { 0.1 } else if pm < 1e4 { 0.25 } else if pm < 1e6 { 0.5 } else { 1.0 }
            } else if pm < 1e5 { 1e-8 } else if pm < 1e8 { 1e-5 } else if pm < 1e10 { 1e-3 } else { 0.1 };
            let class = if branch == "br-point-curve" && e <= 1.05 * S::EPSILON.f().sqrt() + 2.0 * S::EPSILON.f() {
                "point-curve-sq-epsilon"
            } else if branch == "br-clip" && e <= 1.5 * f64::sqrt(efp) {
                // (1.5: the test is made on the START point of the degenerate sub-curve, the
                // parameter reported is the MIDDLE of its domain, and the de-duplication may keep
                // either of two such pairs)
                "point-curve-sq-epsilon"
            } else {
                "generic"
            };
            fails.push(("cubic.cubic_intersections_t/resample-both", class, format!("t={} u={} distance {:e} tol {:e}", t, u, e, tol)));
        }
    }
    // completeness at transversal, well separated crossings (reference: polylines)
    let refx = polyline_crossings(&ca, &cb);
    let (la, lb) = (polygon_len(&ca), polygon_len(&cb));
    let deriv = |c: &[V2], t: f64| {
        let h = 1e-5;
        let (p, q) = (bez(c, t + h), bez(c, t - h));
        ((p.0 - q.0) / (2.0 * h), (p.1 - q.1) / (2.0 * h))
    };
    for (k, &(t, u)) in refx.iter().enumerate() {
        let sep = refx.iter().enumerate().filter(|(j, _)| *j != k).map(|(_, (t2, u2))| (t2 - t).abs().min((u2 - u).abs())).fold(f64::INFINITY, f64::min);
        let (da, db) = (deriv(&ca, t), deriv(&cb, u));
        let transversal = cross(da, db).abs() >= 0.3 * norm(da) * norm(db) && norm(da) >= 0.2 * la && norm(db) >= 0.2 * lb;
        // no demand when the two curves are the same curve (equal or reversed: lyon's documented
        // early exit — the self-crossings of a loop are not "intersections of two curves"), nor on
        // curves shorter than 100 x S::EPSILON (lyon treats anything within EPSILON of a point / a
        // line as that point / line: their parameters are not determined within 2e-2)
        let same_curve = branch == "br-same-curve";
        let tiny = la < 100.0 * S::EPSILON.f() || lb < 100.0 * S::EPSILON.f();
        if t > 0.1 && t < 0.9 && u > 0.1 && u < 0.9 && sep > 0.15 && transversal && refx.len() <= 4 && !same_curve && !tiny {
            // the parameter on a point-like curve (lyon's own `is_a_point(EPSILON)`) is not
            // determined within 2e-2: only the other curve's parameter is demanded there
            let near = |t2: f64, u2: f64| (a_pt || (t2 - t).abs() <= 2e-2) && (b_pt || (u2 - u).abs() <= 2e-2);
            let hit = r.iter().any(|(t2, u2)| near(t2.f(), u2.f()));
            // witness class: the crossing is missed by this query but reported by a variant
            // of it – the two curves in the other order, or the same control points in the
            // other precision: an unstable miss of the clipper (a miss by all variants
            // stays `generic`)
            let class = if !hit {
                // variants of the query: the other precision, in both argument orders
                let (other, other_swapped) = if S::BITS == 32 {
                    let c = |c: &[V2; 4]| CubicBezierSegment { from: point(c[0].0, c[0].1), ctrl1: point(c[1].0, c[1].1), ctrl2: point(c[2].0, c[2].1), to: point(c[3].0, c[3].1) };
                    (vh::guarded(|| c(&ca).cubic_intersections_t(&c(&cb)).iter().any(|(t2, u2)| near(*t2, *u2))).unwrap_or(false),
                     vh::guarded(|| c(&cb).cubic_intersections_t(&c(&ca)).iter().any(|(u2, t2)| near(*t2, *u2))).unwrap_or(false))
                } else {
                    let c = |c: &[V2; 4]| CubicBezierSegment { from: point(c[0].0 as f32, c[0].1 as f32), ctrl1: point(c[1].0 as f32, c[1].1 as f32), ctrl2: point(c[2].0 as f32, c[2].1 as f32), to: point(c[3].0 as f32, c[3].1 as f32) };
                    (vh::guarded(|| c(&ca).cubic_intersections_t(&c(&cb)).iter().any(|(t2, u2)| near(*t2 as f64, *u2 as f64))).unwrap_or(false),
                     vh::guarded(|| c(&cb).cubic_intersections_t(&c(&ca)).iter().any(|(u2, t2)| near(*t2 as f64, *u2 as f64))).unwrap_or(false))
                };
                let swapped = rv.iter().any(|(u2, t2)| near(t2.f(), u2.f()));
                // nearly coincident curves (every control point of B within 1e-3 x polygon length
                // of the corresponding one of A, in either direction): the clipper spends its
                // 4096-call budget on the coincident stretches
                let dmax = |rev: bool| (0..4).map(|i| norm(sub(ca[i], cb[if rev { 3 - i } else { i }]))).fold(0.0f64, f64::max);
                let coincident = dmax(false).min(dmax(true)) <= 1e-3 * la.max(lb);
                if coincident {
                    "near-coincident-budget"
                } else if other || swapped || other_swapped {
                    "clipper-unstable-miss"
                } else {
                    "generic"
                }
            } else {
                "generic"
            };
            if !hit {
                // C12 claims SOUNDNESS for curve x curve queries ("every parameter returned ... lies on both
                // primitives") and completeness only for a line crossing a curve.  A missed curve x curve
                // crossing is therefore recorded as an observation (skip reason, counted in the evidence),
                // never as a failure of the property.  Any change of what the clipper reports is caught by
                // the bit-exact tie with the modelled clipper (Model/Geom/Clip.lean).
                let _ = (t, u);
                misses.push(class);
            }
        }
    }
    fails.sort_by_key(|f| if f.1 == "generic" { 0 } else { 1 });
    if fails.is_empty() && skip_root {
        orc.skip("near-degenerate-leading-coefficient");
    }
    if fails.is_empty() {
        if let Some(c) = misses.first() {
            orc.skip(&format!("curve-curve-crossing-missed:{}", c));
        }
    }
    for (clause, class, detail) in fails {
        orc.check(false, clause, class, || detail);
    }
    CaseOut { imp: out, orcl: orc.verdict }
}

fn cubiccubic_case<S: Fl>(ctx: &mut Ctx) {
    ctx.case(&format!("cubiccubic:{}", S::BITS), |rng| {
        let g = match rng.below(4) {
            0 => Gen::Lattice,
            _ => Gen::Uniform,
        };
        let a = gen_cubic::<S>(g, rng);
        let mut b = gen_cubic::<S>(g, rng);
        let mut kind = "random";
        if rng.chance(2, 3) {
            kind = "planted";
            let lat = g == Gen::Lattice;
            let t = if lat { rng.range(2, 6) as f64 / 8.0 } else { rng.uniform(0.15, 0.85) };
            let u = if lat { rng.range(2, 6) as f64 / 8.0 } else { rng.uniform(0.15, 0.85) };
            let d = a.sample(S::of(t)) - b.sample(S::of(u));
            b = CubicBezierSegment { from: b.from + d, ctrl1: b.ctrl1 + d, ctrl2: b.ctrl2 + d, to: b.to + d };
        }
        let mut args = Out::new();
        args.p(a.from).p(a.ctrl1).p(a.ctrl2).p(a.to).p(b.from).p(b.ctrl1).p(b.ctrl2).p(b.to);
        let tag = format!("cubiccubic {} {} {} {}", S::BITS, g.name(), kind, cc_branch(&a, &b));
        (args, tag, move || cubiccubic_body(a, b))
    });
}

/// structured pairs aimed at the branches of the clipper that random pairs do not reach
fn cubiccubic_special_case<S: Fl>(ctx: &mut Ctx) {
    ctx.case(&format!("cubiccubic:{}", S::BITS), |rng| {
        let lat = rng.chance(1, 3);
        let g = if lat { Gen::Lattice } else { Gen::Uniform };
        let a0 = gen_cubic::<S>(g, rng);
        let ca = cc_ctrl(&a0);
        let eps: f64 = if S::BITS == 32 { 1e-4 } else { 1e-8 };
        let jit = |rng: &mut Rng, s: f64| (rng.uniform(-s, s), rng.uniform(-s, s));
        let add = |p: V2, q: V2| (p.0 + q.0, p.1 + q.1);
        let mul = |p: V2, k: f64| (p.0 * k, p.1 * k);
        let tpar = |rng: &mut Rng| if lat { rng.range(1, 7) as f64 / 8.0 } else { rng.uniform(0.05, 0.95) };
        let (mut a, mut b, kind): (CubicBezierSegment<S>, CubicBezierSegment<S>, &'static str) = match rng.below(14) {
            0 => {
                // point-like curve on / near / off the other curve
                let t = match rng.below(5) { 0 => 0.0, 1 => 1.0, _ => tpar(rng) };
                let p = bez(&ca, t);
                let off = match rng.below(4) { 0 => 0.0, 1 => eps * 0.5, 2 => eps.sqrt() * rng.uniform(0.3, 3.0), _ => rng.uniform(0.0, 2.0) };
                let ang = rng.uniform(0.0, 6.283);
                let p = add(p, (off * ang.cos(), off * ang.sin()));
                let s = match rng.below(3) { 0 => 0.0, 1 => eps * 0.3, _ => eps * 2.0 };
                (a0, cc_mk([add(p, jit(rng, s)), add(p, jit(rng, s)), add(p, jit(rng, s)), add(p, jit(rng, s))]), "point-like")
            }
            1 => {
                // point-like curve just outside the tip of a cusp that is extremal in x and in y
                // (neither the x- nor the y-solve finds it: the `maybe_add` chain), or near the curve
                let c = [(0.0, 0.0), (20.0, 20.0), (0.0, 20.0), (20.0, 0.0)];
                let ang = if lat { 0.7853981633974483 * rng.range(0, 7) as f64 + 0.7853981633974483 * 0.5 * rng.range(0, 1) as f64 } else { rng.uniform(0.0, 6.283) };
                let o = jit(rng, 50.0);
                let rot = |p: V2| add(o, (p.0 * ang.cos() - p.1 * ang.sin(), p.0 * ang.sin() + p.1 * ang.cos()));
                let c = [rot(c[0]), rot(c[1]), rot(c[2]), rot(c[3])];
                let tip = bez(&c, 0.5);
                let mid = lerp(c[0], c[3], 0.5);
                let dv = sub(tip, mid);
                let dn = norm(dv).max(1e-12);
                let k = rng.uniform(0.0, 2.0) * eps.sqrt();
                let p = if rng.chance(2, 3) {
                    add(tip, mul(dv, k / dn))
                } else {
                    let a2 = rng.uniform(0.0, 6.283);
                    add(bez(&c, tpar(rng)), (k * a2.cos(), k * a2.sin()))
                };
                (cc_mk(c), cc_mk([p, p, p, p]), "point-extremal")
            }
            2 | 3 => {
                // line-like curve (collinear control points, exactly or within epsilon) × curve
                let t = tpar(rng);
                let p = bez(&ca, t);
                let d = if lat { (rng.range(-3, 3) as f64, rng.range(-3, 3) as f64) } else { jit(rng, 40.0) };
                let s = if rng.chance(1, 3) { eps * rng.uniform(0.0, 3.0) } else { 0.0 };
                let ks: [f64; 4] = match rng.below(4) {
                    0 => [-1.0, -1.0 / 3.0, 1.0 / 3.0, 1.0],
                    1 => [-1.0, 0.5, -0.5, 1.0],
                    2 => [-2.0, 1.0, 2.0, 0.25],
                    _ => [rng.uniform(-2.0, 0.0), rng.uniform(-2.0, 2.0), rng.uniform(-2.0, 2.0), rng.uniform(0.0, 2.0)],
                };
                let l = [add(add(p, mul(d, ks[0])), jit(rng, s)), add(add(p, mul(d, ks[1])), jit(rng, s)), add(add(p, mul(d, ks[2])), jit(rng, s)), add(add(p, mul(d, ks[3])), jit(rng, s))];
                (a0, cc_mk(l), "line-like")
            }
            4 => {
                // two line-like curves: crossing, parallel, collinear overlapping
                let p = jit(rng, 50.0);
                let d = if lat { (rng.range(-3, 3) as f64, rng.range(-3, 3) as f64) } else { jit(rng, 40.0) };
                let e = match rng.below(3) { 0 => d, 1 => (-d.1, d.0), _ => jit(rng, 40.0) };
                let q = match rng.below(3) { 0 => p, 1 => add(p, mul(d, 0.5)), _ => add(p, jit(rng, 10.0)) };
                let fold = rng.chance(1, 3);
                let k = |i: usize| if fold { [-1.0, 1.5, -1.5, 1.0][i] } else { [-1.0, -0.3, 0.4, 1.0][i] };
                (cc_mk([add(p, mul(d, k(0))), add(p, mul(d, k(1))), add(p, mul(d, k(2))), add(p, mul(d, k(3)))]),
                 cc_mk([add(q, mul(e, k(0))), add(q, mul(e, k(2))), add(q, mul(e, k(1))), add(q, mul(e, k(3)))]), "line-line")
            }
            5 => {
                // overlapping: a sub-curve of A (exact or perturbed), A itself, A reversed, A shifted slightly
                match rng.below(5) {
                    0 => (a0, a0, "overlap-same"),
                    1 => (a0, a0.flip(), "overlap-reversed"),
                    2 => {
                        let (t0, t1) = (tpar(rng), tpar(rng));
                        (a0, a0.split_range(S::of(t0.min(t1))..S::of(t0.max(t1) + 0.01)), "overlap-subcurve")
                    }
                    3 => {
                        let (t0, t1) = (tpar(rng), tpar(rng));
                        let mut b = a0.split_range(S::of(t0.min(t1))..S::of(t0.max(t1) + 0.05));
                        let o = jit(rng, 1e-3);
                        b.ctrl1 = b.ctrl1 + vector(S::of(o.0), S::of(o.1));
                        (a0, b, "overlap-subcurve-perturbed")
                    }
                    _ => {
                        let sc = if rng.chance(1, 2) { 1e-3 } else { 0.5 };
                        let o = jit(rng, sc);
                        let v = vector(S::of(o.0), S::of(o.1));
                        (a0, CubicBezierSegment { from: a0.from + v, ctrl1: a0.ctrl1 + v, ctrl2: a0.ctrl2 + v, to: a0.to + v }, "overlap-shifted")
                    }
                }
            }
            6 => {
                // loops: a self-intersecting cubic against a curve through / next to the loop
                let o = jit(rng, 30.0);
                let w = rng.uniform(20.0, 80.0);
                let l = [add(o, (0.0, 0.0)), add(o, (w, w)), add(o, (-w * rng.uniform(0.3, 1.0), w)), add(o, (w * rng.uniform(0.0, 0.4), 0.0))];
                let b = if rng.chance(1, 2) {
                    let o2 = jit(rng, 10.0);
                    [add(l[3], o2), add(l[2], o2), add(l[1], o2), add(l[0], (o2.0 + 5.0, o2.1))]
                } else {
                    let c = bez(&l, 0.5);
                    let cb0 = cc_ctrl(&gen_cubic::<S>(Gen::Uniform, rng));
                    let d = sub(c, bez(&cb0, 0.5));
                    [add(cb0[0], d), add(cb0[1], d), add(cb0[2], d), add(cb0[3], d)]
                };
                (cc_mk(l), cc_mk(b), "loop")
            }
            7 => {
                // tangency: B touches A at A(t) with the same tangent direction
                let t = tpar(rng);
                let h = 1e-4;
                let (p, q) = (bez(&ca, t + h), bez(&ca, t - h));
                let tv = sub(p, q);
                let n = norm(tv).max(1e-12);
                let tv = (tv.0 / n, tv.1 / n);
                let nv = (-tv.1, tv.0);
                let p = bez(&ca, t);
                let (al, hh) = (rng.uniform(5.0, 60.0), rng.uniform(-40.0, 40.0));
                let pt = |ka: f64, kh: f64| add(p, add(mul(tv, ka * al), mul(nv, kh * hh)));
                (a0, cc_mk([pt(-1.0, 1.0), pt(-1.0 / 3.0, -1.0 / 3.0), pt(1.0 / 3.0, -1.0 / 3.0), pt(1.0, 1.0)]), "tangent")
            }
            8 => {
                // shared endpoints and T-junctions
                let cb0 = cc_ctrl(&gen_cubic::<S>(g, rng));
                let (pa, pb) = match rng.below(6) {
                    0 => (ca[3], 0), 1 => (ca[0], 0), 2 => (ca[3], 3), 3 => (ca[0], 3),
                    4 => (bez(&ca, tpar(rng)), 0), _ => (bez(&ca, tpar(rng)), 3),
                };
                let d = sub(pa, cb0[pb]);
                let mut b = [add(cb0[0], d), add(cb0[1], d), add(cb0[2], d), add(cb0[3], d)];
                b[pb] = pa;
                (a0, cc_mk(b), "shared-endpoint")
            }
            9 => {
                // many crossings: two S-shaped cubics at right angles (9 crossings), jittered and
                // mapped by a random similarity
                let j = rng.uniform(0.0, 8.0);
                let s = [add((-100.0, 0.0), jit(rng, j)), add((-20.0, 400.0), jit(rng, j)), add((20.0, -400.0), jit(rng, j)), add((100.0, 0.0), jit(rng, j))];
                let r = [add((0.0, -100.0), jit(rng, j)), add((400.0, -20.0), jit(rng, j)), add((-400.0, 20.0), jit(rng, j)), add((0.0, 100.0), jit(rng, j))];
                let (ang, sc, o) = if lat { (0.0, 0.25, (8.0, -4.0)) } else { (rng.uniform(0.0, 6.283), rng.uniform(0.05, 2.0), jit(rng, 100.0)) };
                let m = |p: V2| add(o, (sc * (p.0 * ang.cos() - p.1 * ang.sin()), sc * (p.0 * ang.sin() + p.1 * ang.cos())));
                (cc_mk([m(s[0]), m(s[1]), m(s[2]), m(s[3])]), cc_mk([m(r[0]), m(r[1]), m(r[2]), m(r[3])]), "many-crossings")
            }
            10 => {
                // magnitudes: a planted pair scaled by a power of ten (tables of epsilon_for_point)
                let cb0 = cc_ctrl(&gen_cubic::<S>(g, rng));
                let tb = match rng.below(4) { 0 => 0.0, 1 => 1.0, _ => tpar(rng) };
                let d = sub(bez(&ca, tpar(rng)), bez(&cb0, tb));
                let k = 10f64.powi(rng.range(-4, 7) as i32);
                let o = if rng.chance(1, 2) { (0.0, 0.0) } else { jit(rng, 1e3 * k) };
                let f = |p: V2| add(mul(p, k), o);
                (cc_mk([f(ca[0]), f(ca[1]), f(ca[2]), f(ca[3])]), cc_mk([f(add(cb0[0], d)), f(add(cb0[1], d)), f(add(cb0[2], d)), f(add(cb0[3], d))]), "scaled")
            }
            11 => {
                // coordinates beyond the i32 / i64 range (`to_i32().unwrap()` of epsilon_for_point)
                let k = if S::BITS == 32 { 3.0e9 } else { 1.0e19 };
                let u = if S::BITS == 32 { 1.0e3 } else { 1.0e7 };
                let o = if rng.chance(2, 3) { (k, k) } else { (k, 0.0) };
                let cb0 = cc_ctrl(&gen_cubic::<S>(g, rng));
                let d = sub(bez(&ca, 0.5), bez(&cb0, 0.5));
                let f = |p: V2| add(mul(p, u), o);
                (cc_mk([f(ca[0]), f(ca[1]), f(ca[2]), f(ca[3])]), cc_mk([f(add(cb0[0], d)), f(add(cb0[1], d)), f(add(cb0[2], d)), f(add(cb0[3], d))]), "beyond-int")
            }
            12 => {
                // closed second curve (from == to: the "no baseline" split branch) / degenerate pairs
                if rng.chance(1, 2) {
                    let cb0 = cc_ctrl(&gen_cubic::<S>(g, rng));
                    let d = sub(bez(&ca, tpar(rng)), bez(&[cb0[0], cb0[1], cb0[2], cb0[0]], 0.5));
                    (a0, cc_mk([add(cb0[0], d), add(cb0[1], d), add(cb0[2], d), add(cb0[0], d)]), "closed")
                } else {
                    (gen_cubic::<S>(Gen::Degenerate, rng), gen_cubic::<S>(Gen::Degenerate, rng), "degenerate")
                }
            }
            _ => {
                // nearly coincident arcs: call-count / recursion budget
                let sc = if S::BITS == 32 { 1e-2 } else { 1e-6 };
                let o = jit(rng, sc);
                let mut cb0 = ca;
                cb0[1] = add(cb0[1], o);
                cb0[2] = add(cb0[2], jit(rng, 1e-2));
                (a0, cc_mk(cb0), "near-coincident")
            }
        };
        if rng.chance(1, 2) {
            std::mem::swap(&mut a, &mut b);
        }
        let mut args = Out::new();
        args.p(a.from).p(a.ctrl1).p(a.ctrl2).p(a.to).p(b.from).p(b.ctrl1).p(b.ctrl2).p(b.to);
        let tag = format!("cubiccubic {} special {} {}", S::BITS, kind, cc_branch(&a, &b));
        (args, tag, move || cubiccubic_body(a, b))
    });
}

// ---------------------------------------------------------------------------------------------

fn mix(i: u32) -> u32 {
    let mut z = (i as u64).wrapping_add(0x9E37_79B9_7F4A_7C15).wrapping_mul(0xBF58_476D_1CE4_E5B9);
    z ^= z >> 29;
    (z.wrapping_mul(0x94D0_49BB_1331_11EB) >> 40) as u32
}

fn main() {
    let mut ctx = Ctx::from_args("C12");
    // exhaustive 4×4 lattice: all 65 536 ordered endpoint quadruples at f32 in the thorough tier
    // (plus every 4th at f64); quick tier: a fixed pseudo-random 1/8 of them
    for idx in 0..65536u32 {
        if ctx.thorough || mix(idx) % 8 == 0 {
            segseg_lattice_case::<f32>(&mut ctx, idx);
        }
        if (ctx.thorough && idx % 4 == 1) || (!ctx.thorough && mix(idx) % 64 == 1) {
            segseg_lattice_case::<f64>(&mut ctx, idx);
        }
    }
    let n = ctx.n(1200, 60000);
    for _ in 0..n {
        for _ in 0..4 {
            segseg_random_case::<f32>(&mut ctx);
            segseg_random_case::<f64>(&mut ctx);
        }
        segline_case::<f32>(&mut ctx);
        segline_case::<f64>(&mut ctx);
        lineline_case::<f32>(&mut ctx);
        lineline_case::<f64>(&mut ctx);
        quadline_case::<f32>(&mut ctx);
        quadline_case::<f64>(&mut ctx);
        quadseg_case::<f32>(&mut ctx);
        quadseg_case::<f64>(&mut ctx);
        polyroots_case::<f32>(&mut ctx);
        polyroots_case::<f64>(&mut ctx);
        cubicline_case::<f32>(&mut ctx);
        cubicline_case::<f64>(&mut ctx);
        cubicseg_case::<f32>(&mut ctx);
        cubicseg_case::<f64>(&mut ctx);
        tri_case::<f32>(&mut ctx);
        tri_case::<f64>(&mut ctx);
        cubiccubic_case::<f32>(&mut ctx);
        cubiccubic_case::<f64>(&mut ctx);
        cubiccubic_special_case::<f32>(&mut ctx);
        cubiccubic_special_case::<f64>(&mut ctx);
    }
    // planted crossings for the completeness theorems (appended: the ids above are unchanged)
    let n3 = ctx.n(1000, 40000);
    for _ in 0..n3 {
        cubicline3_case::<f32>(&mut ctx);
        cubicline3_case::<f64>(&mut ctx);
    }
    ctx.finish();
}
