//! C09 — flattening yields a connected polyline from start to end within the tolerance.
//!
//! Families (f32 and f64): `quad`, `cubic`, `arc` — every geom entry point
//! (`for_each_flattened`, `for_each_flattened_with_t`, `Segment::for_each_flattened_with_t`,
//! `flattened()`, `flattened_t()`, `for_each_quadratic_bezier_with_t`, `num_quadratics`);
//! f32 only: `pquad`, `pcubic` — the lyon_path iterator adapter (`PathIterator::flattened`) and the
//! builder adapter (`Path::builder().flattened(tol)`, i.e. `private::flatten_*`);
//! (`SvgArc::for_each_flattened(_with_t)` = `Arc::from_svg_arc` (property C13) + the `Arc` code covered here.)
//!
//! IMPL prints counts, every point and every t of every entry point (compared bit for bit with
//! the Lean model). ORCL evaluates the property on lyon's own output in f64:
//!   start / end exact, connectivity exact, t-ranges abut from 0 to exactly 1 and strictly
//!   increase, every vertex within the allowance of the curve, every curve point within the
//!   allowance of the polyline (exact chord-deviation certificate, then dense sampling).
//! allowance = tolerance·(1+SLACK) + ROUND·eps·magnitude.
//!
//! Family `chk_flat` (case ids after all others): PROOF-GRADE verdicts. The segments emitted by the
//! real `for_each_flattened_with_t` (quadratic; cubic: lyon's own quadratic pieces and the segments of
//! each, checked to be bit for bit what the cubic entry point emits) go, as IEEE bit patterns, to the
//! verified exact checker `Lyon.FlatChk` (rationals; Props/C09c.lean `chk_flat_sound_rat`,
//! `chk_flat_cubic_sound_rat`, `chk_flat_violation_sound_rat`). `ok` = every curve point PROVED within
//! 1·tol + eps of the polyline; `skip chk_flat:<kind>:k<=…` = only a weaker factor proved, no
//! violation proved; `fail <kind>.flatten/certified-tolerance` = a concrete curve point PROVED farther
//! than tol + eps from every segment; inputs the chord certificate leaves open go through the
//! convex-hull certificate (`chkHull`: control points of `split_range` sub-ranges near one emitted
//! segment; cubics directly on the cubic). The same verdict is computed here in exact dyadic arithmetic
//! (`data/c09_exact.rs`) for the TAG/ORCL lines; the Lean checker answers MISMATCH if it disagrees.
//! Family `chk_arc`: the same for `Arc::for_each_flattened_with_t`, trigonometry-free (`Lyon.ArcChk`,
//! `chk_arc_sound_rat`). TAG tokens carry the verdict statistics (kind, precision, proved factor /
//! violation, `tol-exact` = the eps-free convex-hull verdict where it was evaluated).

use lyon_geom::euclid::Angle;
use lyon_geom::{point, vector, Arc, CubicBezierSegment, LineSegment, Point, QuadraticBezierSegment, Segment};
use lyon_path::iterator::PathIterator;
use lyon_path::{Path, PathEvent};
use std::ops::Range;
use vh::fl::Gen;
use vh::{CaseOut, Ctx, Fl, Oracle, Out, Rng};

#[path = "../data/c09_exact.rs"]
mod exact;

type P2 = (f64, f64);

/// relative slack on the tolerance (the flattening count is an approximation, DESIGN.md C09 "L")
const SLACK: f64 = 0.10;
/// rounding allowance in units of eps·magnitude
const ROUND: f64 = 32.0;

// ---------------------------------------------------------------------------------------------
// f64 reference curves

trait C64 {
    fn eval(&self, t: f64) -> P2;
    fn mag(&self) -> f64;
    /// upper bound of |dC/dt| on [0,1]
    fn speed(&self) -> f64;
}

struct Q64 {
    a: P2,
    c: P2,
    b: P2,
}
struct K64 {
    a: P2,
    c1: P2,
    c2: P2,
    b: P2,
}
struct A64 {
    c: P2,
    r: P2,
    start: f64,
    sweep: f64,
    rot: f64,
}

fn p2<S: Fl>(p: Point<S>) -> P2 {
    (p.x.f(), p.y.f())
}
fn lerp(a: P2, b: P2, t: f64) -> P2 {
    (a.0 + (b.0 - a.0) * t, a.1 + (b.1 - a.1) * t)
}
fn dist(a: P2, b: P2) -> f64 {
    (a.0 - b.0).hypot(a.1 - b.1)
}
fn mx(ps: &[P2]) -> f64 {
    ps.iter().fold(0.0f64, |m, p| m.max(p.0.abs()).max(p.1.abs()))
}

impl C64 for Q64 {
    fn eval(&self, t: f64) -> P2 {
        lerp(lerp(self.a, self.c, t), lerp(self.c, self.b, t), t)
    }
    fn mag(&self) -> f64 {
        mx(&[self.a, self.c, self.b])
    }
    fn speed(&self) -> f64 {
        2.0 * dist(self.a, self.c).max(dist(self.c, self.b))
    }
}
impl C64 for K64 {
    fn eval(&self, t: f64) -> P2 {
        let (p, q, r) = (lerp(self.a, self.c1, t), lerp(self.c1, self.c2, t), lerp(self.c2, self.b, t));
        lerp(lerp(p, q, t), lerp(q, r, t), t)
    }
    fn mag(&self) -> f64 {
        mx(&[self.a, self.c1, self.c2, self.b])
    }
    fn speed(&self) -> f64 {
        3.0 * dist(self.a, self.c1).max(dist(self.c1, self.c2)).max(dist(self.c2, self.b))
    }
}
impl C64 for A64 {
    fn eval(&self, t: f64) -> P2 {
        let ang = self.start + self.sweep * t;
        let (ex, ey) = (self.r.0 * ang.cos(), self.r.1 * ang.sin());
        let (s, c) = self.rot.sin_cos();
        (self.c.0 + ex * c - ey * s, self.c.1 + ey * c + ex * s)
    }
    fn mag(&self) -> f64 {
        // rounding of the angle (up to |start|+|sweep|) is amplified by the radius
        (mx(&[self.c]) + self.r.0.abs().max(self.r.1.abs())) * (1.0 + self.start.abs() + self.sweep.abs())
    }
    fn speed(&self) -> f64 {
        self.r.0.abs().max(self.r.1.abs()) * self.sweep.abs()
    }
}

fn q64<S: Fl>(q: &QuadraticBezierSegment<S>) -> Q64 {
    Q64 { a: p2(q.from), c: p2(q.ctrl), b: p2(q.to) }
}
fn k64<S: Fl>(c: &CubicBezierSegment<S>) -> K64 {
    K64 { a: p2(c.from), c1: p2(c.ctrl1), c2: p2(c.ctrl2), b: p2(c.to) }
}
fn a64<S: Fl>(a: &Arc<S>) -> A64 {
    A64 {
        c: p2(a.center),
        r: (a.radii.x.f(), a.radii.y.f()),
        start: a.start_angle.radians.f(),
        sweep: a.sweep_angle.radians.f(),
        rot: a.x_rotation.radians.f(),
    }
}

// ---------------------------------------------------------------------------------------------
// distances

fn d_pt_seg(p: P2, a: P2, b: P2) -> f64 {
    let (vx, vy) = (b.0 - a.0, b.1 - a.1);
    let l2 = vx * vx + vy * vy;
    let t = if l2 > 0.0 { (((p.0 - a.0) * vx + (p.1 - a.1) * vy) / l2).clamp(0.0, 1.0) } else { 0.0 };
    dist(p, (a.0 + vx * t, a.1 + vy * t))
}

/// distance from `p` to the polyline; searched around `hint` first, everywhere if that is not
/// good enough (`good`), so that the result is either ≤ good or the true minimum.
fn d_pt_poly(p: P2, poly: &[P2], hint: usize, good: f64) -> f64 {
    let n = poly.len() - 1; // segments
    if n == 0 {
        return dist(p, poly[0]);
    }
    let lo = hint.saturating_sub(2);
    let hi = (hint + 3).min(n);
    let mut d = f64::INFINITY;
    for j in lo..hi {
        d = d.min(d_pt_seg(p, poly[j], poly[j + 1]));
    }
    if d <= good {
        return d;
    }
    for j in 0..n {
        d = d.min(d_pt_seg(p, poly[j], poly[j + 1]));
    }
    d
}

/// distance from `p` to the curve by branch and bound on the parameter interval: `t ↦ |C(t)−p|`
/// is Lipschitz with constant `speed()`, so on [t0,t1] it is ≥ (d0 + d1 − L·(t1−t0))/2. Returns
/// as soon as a value ≤ `good` is seen; otherwise the minimum up to 0.1 % of `good`.
fn d_pt_curve(p: P2, c: &dyn C64, n: usize, good: f64) -> f64 {
    let n = n.max(16);
    let l = c.speed();
    let ds: Vec<f64> = (0..=n).map(|k| dist(p, c.eval(k as f64 / n as f64))).collect();
    let mut best = ds.iter().cloned().fold(f64::INFINITY, f64::min);
    let slack = (good * 1e-3).max(1e-13 * c.mag().max(1e-30));
    let mut stack: Vec<(f64, f64, f64, f64)> = (0..n).map(|k| (k as f64 / n as f64, (k + 1) as f64 / n as f64, ds[k], ds[k + 1])).collect();
    let mut budget = 2_000_000usize;
    while let Some((t0, t1, d0, d1)) = stack.pop() {
        if best <= good || budget == 0 {
            break;
        }
        budget -= 1;
        let lb = (d0 + d1 - l * (t1 - t0)) / 2.0;
        if lb >= best - slack || t1 - t0 < 1e-15 {
            continue;
        }
        let tm = 0.5 * (t0 + t1);
        let dm = dist(p, c.eval(tm));
        if dm < best {
            best = dm;
        }
        stack.push((t0, tm, d0, dm));
        stack.push((tm, t1, dm, d1));
    }
    best
}

// ---------------------------------------------------------------------------------------------
// the property, evaluated on one polyline

/// One flattening result: `pts[0]` is the start point handed to / reported by the entry point,
/// `pts[1..]` the emitted end points. `froms` (callback forms) are the emitted `from`s.
struct Poly<S: Fl> {
    entry: &'static str,
    froms: Option<Vec<Point<S>>>,
    tos: Vec<Point<S>>,
    ranges: Option<Vec<(S, S)>>,
    /// t of each emitted point when only those are reported (`flattened_t`)
    ts: Option<Vec<S>>,
}

struct Ctxt<'a> {
    kind: &'static str,
    curve: &'a dyn C64,
    start: P2,
    end: P2,
    tol: f64,
    eps: f64,
    /// witness predicate of the residual defect: control points exactly collinear as the code
    /// computes it (`cross == 0` → NaN parameters → count 0) and the control point further than
    /// 2·tol from the baseline segment
    collinear: bool,
    /// witness predicate of the cancellation defect: a hairpin (sub-)quadratic whose control
    /// points are collinear to within 64 eps: `cross` is rounding noise and so is the count
    near_collinear: bool,
    /// witness predicate of the former `is_linear` defect (fixed by 014eb9a5; class stays active)
    overshoot: bool,
    /// witness predicate of the under-sampled sharp turn (computed from the input)
    sharp: bool,
    /// arc: witness predicate of the radius-drift defect (ellipse, coarse steps)
    arc_drift: bool,
    /// extra diagnostics appended to tolerance failures
    diag: String,
}

impl<'a> Ctxt<'a> {
    fn allow(&self) -> f64 {
        self.tol * (1.0 + SLACK) + ROUND * self.eps * self.curve.mag().max(1e-30)
    }
    fn tol_class(&self) -> &'static str {
        if self.collinear {
            "collinear-overshoot-nan-count"
        } else if self.near_collinear {
            "near-collinear-cancellation"
        } else if self.overshoot {
            "ctrl-overshoot"
        } else if self.sharp {
            "sharp-turn"
        } else if self.arc_drift {
            "ellipse-radius-drift"
        } else {
            "generic"
        }
    }
}

/// Returns the largest sampled distance from the curve to the polyline (`None` if the geometry was
/// not evaluated).
fn check_poly<S: Fl>(orc: &mut Oracle, cx: &Ctxt, poly: &Poly<S>) -> Option<f64> {
    let k = cx.kind;
    let e = poly.entry;
    let cl = |c: &str| format!("{}.flatten/{}", k, c);
    let n = poly.tos.len();
    orc.check(n >= 1, &cl("nonempty"), "generic", || format!("{}: no segment", e));
    if n == 0 {
        return None;
    }
    let finite = poly.tos.iter().all(|p| p.x.finite() && p.y.finite());
    orc.check(finite, &cl("finite"), "generic", || format!("{}: non-finite point", e));
    if !finite {
        return None;
    }
    // start / connectivity (callback forms report their own `from`s)
    if let Some(fr) = &poly.froms {
        orc.check(fr.len() == n, &cl("connected"), "generic", || format!("{}: from/to count", e));
        let d = dist(p2(fr[0]), cx.start);
        orc.check(d == 0.0, &cl("start"), "generic", || format!("{}: first from off by {:e}", e, d));
        for i in 1..n.min(fr.len()) {
            let ok = fr[i] == poly.tos[i - 1];
            orc.check(ok, &cl("connected"), "generic", || format!("{}: segment {} starts {:?}, previous ended {:?}", e, i, fr[i], poly.tos[i - 1]));
        }
    }
    // end (exact). The iterators' last point is a rounding-size distance off in a large share of
    // inputs (known findings); that failure is registered after the other clauses so that it
    // does not mask them.
    let last = p2(poly.tos[n - 1]);
    let d_end = dist(last, cx.end);
    let small = d_end <= 8.0 * (16.0 + n as f64) * cx.eps * cx.curve.mag().max(1e-30);
    let end_class = match (k, e) {
        ("cubic", "iter") | ("cubic", "path-iter") if small => "cubic-iter-last-point",
        ("arc", "iter") if small => "arc-iter-last-point",
        _ => "generic",
    };
    let end_msg = || format!("{}: last point {:?} is {:e} away from the end point {:?}", e, last, d_end, cx.end);
    if end_class == "generic" {
        orc.check(d_end == 0.0, &cl("end"), end_class, end_msg);
    }
    // parameter ranges
    let mut tend: Option<Vec<f64>> = None;
    if let Some(r) = &poly.ranges {
        orc.check(r.len() == n, &cl("t-range"), "generic", || format!("{}: range count", e));
        orc.check(r[0].0.f() == 0.0, &cl("t-range"), "generic", || format!("{}: first range starts at {:e}", e, r[0].0.f()));
        for i in 1..r.len() {
            orc.check(r[i].0 == r[i - 1].1, &cl("t-range"), "generic", || format!("{}: range {} starts {:?}, previous ended {:?}", e, i, r[i].0, r[i - 1].1));
        }
        orc.check(r[r.len() - 1].1.f() == 1.0, &cl("t-end"), "generic", || format!("{}: last t = {:?}", e, r[r.len() - 1].1));
        for i in 0..r.len() {
            orc.check(r[i].0 < r[i].1, &cl("t-increasing"), "generic", || format!("{}: range {} of {} is {:?}..{:?}", e, i, r.len(), r[i].0, r[i].1));
        }
        tend = Some(r.iter().map(|x| x.1.f()).collect());
    }
    if let Some(ts) = &poly.ts {
        orc.check(ts.len() == n, &cl("t-range"), "generic", || format!("{}: t count {} vs {}", e, ts.len(), n));
        orc.check(ts[ts.len() - 1].f() == 1.0, &cl("t-end"), "generic", || format!("{}: last t = {:?}", e, ts[ts.len() - 1]));
        orc.check(ts[0].f() > 0.0, &cl("t-increasing"), "generic", || format!("{}: first t = {:?}", e, ts[0]));
        for i in 1..ts.len() {
            orc.check(ts[i - 1] < ts[i], &cl("t-increasing"), "generic", || format!("{}: t[{}]={:?} t[{}]={:?}", e, i - 1, ts[i - 1], i, ts[i]));
        }
        tend = Some(ts.iter().map(|x| x.f()).collect());
    }
    if orc.failed() {
        return None;
    }
    if n > 20000 {
        orc.skip("more than 20000 segments: geometry not evaluated");
        return None;
    }
    // geometry
    let allow = cx.allow();
    let mut pts: Vec<P2> = Vec::with_capacity(n + 1);
    pts.push(cx.start);
    pts.extend(poly.tos.iter().map(|p| p2(*p)));
    // every vertex within the allowance of the curve
    let dense = (4 * n + 64).min(4096);
    for i in 0..n {
        if i == n - 1 && end_class != "generic" && d_end > 0.0 {
            // the iterator's misplaced last point (known finding) is reported under `end`
            continue;
        }
        let v = pts[i + 1];
        let mut d = match &tend {
            Some(t) => dist(v, cx.curve.eval(t[i])),
            None => f64::INFINITY,
        };
        if d > allow {
            d = d.min(d_pt_curve(v, cx.curve, dense, allow));
        }
        orc.check(d <= allow, &cl("vertex"), "generic", || format!("{}: vertex {} of {} is {:e} from the curve, allowance {:e} (tol {:e})", e, i + 1, n, d, allow, cx.tol));
    }
    // every curve point within the allowance of the polyline
    let mut worst = 0.0f64;
    let mut worst_t = 0.0;
    match &tend {
        Some(t) => {
            // per chord: samples of the curve over the chord's own parameter range
            let m = (2048 / n).clamp(6, 24);
            let mut t0 = 0.0;
            for i in 0..n {
                let t1 = t[i];
                for j in 1..m {
                    let tt = t0 + (t1 - t0) * j as f64 / m as f64;
                    let d = d_pt_poly(cx.curve.eval(tt), &pts, i, allow);
                    if d > worst {
                        worst = d;
                        worst_t = tt;
                    }
                }
                t0 = t1;
            }
        }
        None => {
            let m = (6 * n + 64).min(6000);
            let mut hint = 0usize;
            for j in 0..=m {
                let tt = j as f64 / m as f64;
                let p = cx.curve.eval(tt);
                // advance the hint to the locally nearest segment
                while hint + 1 < n && d_pt_seg(p, pts[hint + 1], pts[hint + 2]) <= d_pt_seg(p, pts[hint], pts[hint + 1]) {
                    hint += 1;
                }
                let d = d_pt_poly(p, &pts, hint, allow);
                if d > worst {
                    worst = d;
                    worst_t = tt;
                }
            }
        }
    }
    // 0.4 (cubic → quadratics) + 0.6·1.25 (flattening, with the quadratic count's own inaccuracy)
    let split_allow = cx.tol * 1.15 + ROUND * cx.eps * cx.curve.mag().max(1e-30);
    // quadratics: the closed-form approximations of the parabola integral and of its inverse are
    // accurate to a few percent only, and so is the count: matched while ≤ 1.15·tol + rounding
    let approx_allow = cx.tol * 1.15 + ROUND * cx.eps * cx.curve.mag().max(1e-30);
    let class = match cx.tol_class() {
        "generic" if k == "quad" && worst <= approx_allow => "approx-integral",
        "generic" if k == "cubic" && worst <= split_allow => "tolerance-split",
        c => c,
    };
    // an iterator whose last point misses the end point (known findings) leaves the curve's very
    // end uncovered by exactly that offset: reported under `end`, not as a tolerance failure
    let explained_by_end = end_class != "generic" && d_end > 0.0 && worst <= allow + d_end;
    orc.check(worst <= allow || explained_by_end, &cl("tolerance"), class, || {
        format!("{}: curve point at t={} is {:e} from the polyline ({} segments), allowance {:e} (tol {:e}, ratio {:.2}) {}", e, worst_t, worst, n, allow, cx.tol, worst / cx.tol, cx.diag)
    });
    if end_class != "generic" {
        orc.check(d_end == 0.0, &cl("end"), end_class, end_msg);
    }
    Some(worst)
}

/// Exact chord-deviation certificate for a quadratic (theorem `chord_deviation`): over the
/// parameter range [t0,t1] the curve is at most Δ²/4·|P0−2P1+P2| from the chord. Checked
/// against the samples: an upper bound must dominate every sampled deviation.
fn chord_certificate(q: &Q64, t0: f64, t1: f64) -> f64 {
    let dd = (q.a.0 - 2.0 * q.c.0 + q.b.0, q.a.1 - 2.0 * q.c.1 + q.b.1);
    (t1 - t0) * (t1 - t0) / 4.0 * dd.0.hypot(dd.1)
}

// ---------------------------------------------------------------------------------------------
// collecting the entry points

struct CbT<S: Fl> {
    froms: Vec<Point<S>>,
    tos: Vec<Point<S>>,
    ranges: Vec<(S, S)>,
}
impl<S: Fl> CbT<S> {
    fn new() -> Self {
        CbT { froms: vec![], tos: vec![], ranges: vec![] }
    }
    fn push(&mut self, s: &LineSegment<S>, r: Range<S>) {
        self.froms.push(s.from);
        self.tos.push(s.to);
        self.ranges.push((r.start, r.end));
    }
    fn put(&self, o: &mut Out, with_t: bool) {
        o.u(self.tos.len() as u64);
        for i in 0..self.tos.len() {
            o.p(self.froms[i]).p(self.tos[i]);
            if with_t {
                o.f(self.ranges[i].0).f(self.ranges[i].1);
            }
        }
    }
    fn poly(&self, entry: &'static str, with_t: bool) -> Poly<S> {
        Poly { entry, froms: Some(self.froms.clone()), tos: self.tos.clone(), ranges: if with_t { Some(self.ranges.clone()) } else { None }, ts: None }
    }
}

fn put_pts<S: Fl>(o: &mut Out, v: &[Point<S>]) {
    o.u(v.len() as u64);
    for p in v {
        o.p(*p);
    }
}

const ITER_CAP: usize = 200000;

// ---------------------------------------------------------------------------------------------
// generators

/// tolerance: log-uniform over 1e-4 … 10 (sometimes a power of two), kept above 1e-6 of the
/// curve's size so that segment counts stay in the thousands at most.
fn gen_tol<S: Fl>(rng: &mut Rng, size: f64) -> S {
    let mut t = if rng.chance(1, 4) { 2f64.powi(rng.range(-13, 3) as i32) } else { 10f64.powf(rng.uniform(-4.0, 1.0)) };
    let floor = size * 1e-6;
    if t < floor {
        t = floor;
    }
    S::of(t)
}

#[derive(Clone, Copy, PartialEq, Debug)]
enum Shape {
    Plain(Gen),
    Overshoot,
    Cusp,
    Loop,
    NearLine,
    Closed,
    Tiny,
}

fn pick_shape(rng: &mut Rng) -> Shape {
    match rng.below(16) {
        0 => Shape::Overshoot,
        1 => Shape::Cusp,
        2 => Shape::Loop,
        3 => Shape::NearLine,
        4 => Shape::Closed,
        5 => Shape::Tiny,
        _ => Shape::Plain(Gen::pick(rng)),
    }
}

fn shape_name(s: Shape) -> String {
    match s {
        Shape::Plain(g) => g.name().to_string(),
        other => format!("{:?}", other).to_lowercase(),
    }
}

fn quad_points<S: Fl>(rng: &mut Rng, sh: Shape) -> Vec<Point<S>> {
    let u = |rng: &mut Rng, a: f64, b: f64| rng.uniform(a, b);
    let v: Vec<(f64, f64)> = match sh {
        Shape::Plain(g) => return g.points(rng, 3),
        Shape::Overshoot => {
            // control point far beyond a short (or closed) baseline, (nearly) collinear with it
            let a = (u(rng, -10.0, 10.0), u(rng, -10.0, 10.0));
            let ang = u(rng, 0.0, 6.283);
            let base = if rng.chance(1, 3) { 0.0 } else { 10f64.powf(u(rng, -3.0, 0.0)) };
            let far = 10f64.powf(u(rng, 0.5, 3.0)) * if rng.chance(1, 2) { 1.0 } else { -1.0 };
            let off = if rng.chance(1, 2) { 0.0 } else { u(rng, -1e-3, 1e-3) };
            let (c, s) = (ang.cos(), ang.sin());
            vec![a, (a.0 + far * c - off * s, a.1 + far * s + off * c), (a.0 + base * c, a.1 + base * s)]
        }
        Shape::NearLine => {
            let a = (u(rng, -50.0, 50.0), u(rng, -50.0, 50.0));
            let b = (u(rng, -50.0, 50.0), u(rng, -50.0, 50.0));
            let t = u(rng, 0.05, 0.95);
            let off = 10f64.powf(u(rng, -5.0, -0.5));
            let m = lerp(a, b, t);
            vec![a, (m.0 + off * (b.1 - a.1).signum(), m.1 + off), b]
        }
        Shape::Closed => {
            let a = (u(rng, -50.0, 50.0), u(rng, -50.0, 50.0));
            vec![a, (u(rng, -50.0, 50.0), u(rng, -50.0, 50.0)), a]
        }
        Shape::Tiny => {
            let a = (u(rng, -5.0, 5.0), u(rng, -5.0, 5.0));
            let s = 10f64.powf(u(rng, -5.0, -2.0));
            vec![a, (a.0 + s * u(rng, -1.0, 1.0), a.1 + s * u(rng, -1.0, 1.0)), (a.0 + s * u(rng, -1.0, 1.0), a.1 + s * u(rng, -1.0, 1.0))]
        }
        Shape::Cusp | Shape::Loop => {
            // sharp turn: control point far to the side of a short baseline
            let a = (u(rng, -20.0, 20.0), u(rng, -20.0, 20.0));
            let b = (a.0 + u(rng, -1.0, 1.0), a.1 + u(rng, -1.0, 1.0));
            vec![a, (u(rng, -100.0, 100.0), u(rng, -100.0, 100.0)), b]
        }
    };
    v.into_iter().map(|p| point(S::of(p.0), S::of(p.1))).collect()
}

fn cubic_points<S: Fl>(rng: &mut Rng, sh: Shape) -> Vec<Point<S>> {
    let u = |rng: &mut Rng, a: f64, b: f64| rng.uniform(a, b);
    let v: Vec<(f64, f64)> = match sh {
        Shape::Plain(g) => return g.points(rng, 4),
        Shape::Overshoot => {
            let a = (u(rng, -10.0, 10.0), u(rng, -10.0, 10.0));
            let ang = u(rng, 0.0, 6.283);
            let base = if rng.chance(1, 3) { 0.0 } else { 10f64.powf(u(rng, -3.0, 0.0)) };
            let far1 = 10f64.powf(u(rng, 0.5, 3.0)) * if rng.chance(1, 2) { 1.0 } else { -1.0 };
            let far2 = 10f64.powf(u(rng, 0.5, 3.0)) * if rng.chance(1, 2) { 1.0 } else { -1.0 };
            let (c, s) = (ang.cos(), ang.sin());
            vec![a, (a.0 + far1 * c, a.1 + far1 * s), (a.0 + far2 * c, a.1 + far2 * s), (a.0 + base * c, a.1 + base * s)]
        }
        Shape::Cusp => {
            // control polygon crossing itself symmetrically: a cusp (or nearly one)
            let a = (u(rng, -20.0, 20.0), u(rng, -20.0, 20.0));
            let w = u(rng, 1.0, 50.0);
            let h = u(rng, 1.0, 50.0);
            let j = u(rng, -0.05, 0.05) * w;
            vec![a, (a.0 + w + j, a.1 + h), (a.0 + j, a.1 + h), (a.0 + w, a.1)]
        }
        Shape::Loop => {
            let a = (u(rng, -20.0, 20.0), u(rng, -20.0, 20.0));
            let w = u(rng, 1.0, 30.0);
            let k = u(rng, 1.5, 5.0);
            vec![a, (a.0 + k * w, a.1 + k * w), (a.0 - (k - 1.0) * w, a.1 + k * w), (a.0 + w, a.1)]
        }
        Shape::NearLine => {
            let a = (u(rng, -50.0, 50.0), u(rng, -50.0, 50.0));
            let b = (u(rng, -50.0, 50.0), u(rng, -50.0, 50.0));
            let off = 10f64.powf(u(rng, -5.0, -0.5));
            let m1 = lerp(a, b, u(rng, -0.2, 1.2));
            let m2 = lerp(a, b, u(rng, -0.2, 1.2));
            vec![a, (m1.0, m1.1 + off), (m2.0 - off, m2.1), b]
        }
        Shape::Closed => {
            let a = (u(rng, -50.0, 50.0), u(rng, -50.0, 50.0));
            vec![a, (u(rng, -50.0, 50.0), u(rng, -50.0, 50.0)), (u(rng, -50.0, 50.0), u(rng, -50.0, 50.0)), a]
        }
        Shape::Tiny => {
            let a = (u(rng, -5.0, 5.0), u(rng, -5.0, 5.0));
            let s = 10f64.powf(u(rng, -5.0, -2.0));
            (0..4).map(|i| if i == 0 { a } else { (a.0 + s * u(rng, -1.0, 1.0), a.1 + s * u(rng, -1.0, 1.0)) }).collect()
        }
    };
    v.into_iter().map(|p| point(S::of(p.0), S::of(p.1))).collect()
}

fn size_of<S: Fl>(pts: &[Point<S>]) -> f64 {
    let v: Vec<P2> = pts.iter().map(|p| p2(*p)).collect();
    let mut s = 0.0f64;
    for p in &v {
        s = s.max(dist(*p, v[0]));
    }
    s.max(mx(&v) * 1e-3)
}

/// Witness predicate of the `is_linear` defect, evaluated in f64 on the input: `is_linear`
/// accepts (exact baseline coincidence, or distance to the baseline *line* ≤ 2·tol) although the
/// control point does not project into the baseline *segment*.
fn overshoot_pred(q: &Q64, tol: f64) -> bool {
    let v = (q.b.0 - q.a.0, q.b.1 - q.a.1);
    let w = (q.c.0 - q.a.0, q.c.1 - q.a.1);
    let l2 = v.0 * v.0 + v.1 * v.1;
    if l2 == 0.0 {
        return w.0 != 0.0 || w.1 != 0.0;
    }
    let cr = v.0 * w.1 - v.1 * w.0;
    let linear = cr * cr / l2 <= tol * tol * 4.0 * (1.0 + 1e-3);
    let pr = (v.0 * w.0 + v.1 * w.1) / l2;
    linear && !(0.0..=1.0).contains(&pr)
}

/// Levien's parameters recomputed in f64 (same formulas as `FlatteningParameters::new`):
/// (parabola_from, parabola_to, step of the subdivision in integral space, real-valued count).
fn lev_diag(q: &Q64, tol: f64) -> (f64, f64, f64, f64) {
    let (d, _b) = (0.67f64, 0.39f64);
    let integ = |x: f64| x / (1.0 - d + (d.powi(4) + 0.25 * x * x).sqrt().sqrt());
    let ddx = 2.0 * q.c.0 - q.a.0 - q.b.0;
    let ddy = 2.0 * q.c.1 - q.a.1 - q.b.1;
    let cross = (q.b.0 - q.a.0) * ddy - (q.b.1 - q.a.1) * ddx;
    let pf = ((q.c.0 - q.a.0) * ddx + (q.c.1 - q.a.1) * ddy) / cross;
    let pt = ((q.b.0 - q.c.0) * ddx + (q.b.1 - q.c.1) * ddy) / cross;
    let scale = cross.abs() / (ddx.hypot(ddy) * (pt - pf).abs());
    let (i0, i1) = (integ(pf), integ(pt));
    let cnt = if (pf < 0.0) == (pt < 0.0) {
        0.5 * (i1 - i0).abs() * (scale / tol).sqrt()
    } else {
        0.5 * (i1 - i0).abs() / integ((tol / scale).sqrt())
    };
    let n = cnt.ceil().max(1.0);
    (pf, pt, (i1 - i0).abs() / n, cnt)
}

/// is_linear in f64 (with a little margin either way the classification stays a witness
/// predicate on the input, not on the outcome)
fn is_linear64(q: &Q64, tol: f64) -> bool {
    d_pt_seg(q.c, q.a, q.b) <= 2.0 * tol
}

/// |cross| / (|to−from|·|2ctrl−from−to|): sine of the angle between baseline and second difference
fn rel_cross(q: &Q64) -> f64 {
    let v = (q.b.0 - q.a.0, q.b.1 - q.a.1);
    let dd = (2.0 * q.c.0 - q.a.0 - q.b.0, 2.0 * q.c.1 - q.a.1 - q.b.1);
    (v.0 * dd.1 - v.1 * dd.0).abs() / (v.0.hypot(v.1) * dd.0.hypot(dd.1)).max(1e-300)
}

/// Witness predicate of the residual collinear defect, on the input: `cross` evaluated exactly as
/// `FlatteningParameters::new` does (in `S`) is zero, and `is_linear` (distance of the control
/// point to the baseline segment ≤ 2·tol) rejects with a little margin.
fn collinear_pred<S: Fl>(q: &QuadraticBezierSegment<S>, tol: f64) -> bool {
    let two = S::of(2.0);
    let ddx = two * q.ctrl.x - q.from.x - q.to.x;
    let ddy = two * q.ctrl.y - q.from.y - q.to.y;
    let cross = (q.to.x - q.from.x) * ddy - (q.to.y - q.from.y) * ddx;
    cross == S::of(0.0) && d_pt_seg(p2(q.ctrl), p2(q.from), p2(q.to)) > 2.0 * tol * (1.0 - 1e-3)
}

/// Witness predicate of the under-sampled sharp turn: the general (non-`is_linear`) branch is
/// taken, the parabola's vertex (point of maximal curvature) lies inside the segment, and the
/// subdivision step in integral space exceeds 0.75 — the count formula is only asymptotically
/// right (small steps); kurbo's version of the same algorithm has a cusp branch for this.
fn sharp_pred(q: &Q64, tol: f64) -> bool {
    if is_linear64(q, tol) {
        return false;
    }
    let (pf, pt, astep, _) = lev_diag(q, tol);
    pf * pt < 0.0 && astep > 0.75
}

/// `Scalar.max` of the model on floats (`f32::max` semantics, spelled out)
fn smax<S: Fl>(a: S, b: S) -> S {
    if a > b {
        a
    } else if b > a {
        b
    } else if a != a {
        b
    } else {
        a
    }
}

/// The per-input tolerance certificate `Quad.flatCert` of Model/Geom/FlattenCert.lean, evaluated in
/// `S` with the same expression trees on lyon's emitted segments: (every chord has the
/// perpendicular certificate, max over the chords of the squared certificate in units of tol²).
/// Theorem `quad_flat_within_tolerance_of_certificate`: value ≤ k² ⟹ curve within k·tol.
fn flat_cert<S: Fl>(q: &QuadraticBezierSegment<S>, tol: S, cbt: &CbT<S>) -> (bool, S) {
    let two = S::of(2.0);
    let sixteen = S::of(16.0);
    let zero = S::of(0.0);
    let ddx = (q.from.x - q.ctrl.x * two) + q.to.x;
    let ddy = (q.from.y - q.ctrl.y * two) + q.to.y;
    let mut all = true;
    let mut r = zero;
    for i in (0..cbt.tos.len()).rev() {
        let d = cbt.ranges[i].1 - cbt.ranges[i].0;
        let vx = cbt.tos[i].x - cbt.froms[i].x;
        let vy = cbt.tos[i].y - cbt.froms[i].y;
        let vv = vx * vx + vy * vy;
        let dot = ddx * vx + ddy * vy;
        let perp = zero < vv && (d * d * dot).abs() <= vv;
        let c = if perp {
            let cr = ddx * vy - ddy * vx;
            (d * d) * (d * d) * (cr * cr) / (sixteen * (tol * tol) * vv)
        } else {
            (d * d) * (d * d) * (ddx * ddx + ddy * ddy) / (sixteen * (tol * tol))
        };
        all = perp && all;
        r = smax(c, r);
    }
    (all, r)
}

// ---------------------------------------------------------------------------------------------
// quad

fn run_quad<S: Fl>(q: QuadraticBezierSegment<S>, tol: S, o: &mut Out, orc: &mut Oracle) {
    let mut cbt = CbT::new();
    q.for_each_flattened_with_t(tol, &mut |s, r| cbt.push(s, r));
    let mut cb = CbT::new();
    q.for_each_flattened(tol, &mut |s| cb.push(s, S::of(0.0)..S::of(0.0)));
    let mut tr = CbT::new();
    Segment::for_each_flattened_with_t(&q, tol, &mut |s, r| tr.push(s, r));
    let it: Vec<Point<S>> = q.flattened(tol).take(ITER_CAP).collect();
    let itt: Vec<S> = q.flattened_t(tol).take(ITER_CAP).collect();
    o.t("lin").b(q.is_linear(tol)).b(q.is_a_point(tol));
    o.t("cbt");
    cbt.put(o, true);
    o.t("cb");
    cb.put(o, false);
    o.t("tr");
    tr.put(o, true);
    o.t("it");
    put_pts(o, &it);
    o.t("itt").u(itt.len() as u64);
    for t in &itt {
        o.f(*t);
    }
    // per-input certificate (model: Quad.flatCert on the model's segments)
    let (cert_perp, cert_sq) = flat_cert(&q, tol, &cbt);
    o.t("cert").b(cert_perp).f(cert_sq).b(cert_sq <= S::of(1.0)).b(cert_sq <= S::of(1.21));

    let c = q64(&q);
    let near = overshoot_pred(&c, tol.f()) && rel_cross(&c) <= 64.0 * S::EPS;
    let cx = Ctxt { kind: "quad", curve: &c, start: c.a, end: c.b, tol: tol.f(), eps: S::EPS, collinear: collinear_pred(&q, tol.f()), near_collinear: near, overshoot: overshoot_pred(&c, tol.f()), sharp: sharp_pred(&c, tol.f()), arc_drift: false, diag: format!("lev{:?}", lev_diag(&c, tol.f())) };
    let sampled = check_poly(orc, &cx, &cbt.poly("callback_t", true));
    check_poly(orc, &cx, &cb.poly("callback", false));
    check_poly(orc, &cx, &tr.poly("segment-trait", true));
    check_poly(orc, &cx, &Poly { entry: "iter", froms: None, tos: it.clone(), ranges: None, ts: if itt.len() == it.len() { Some(itt.clone()) } else { None } });
    orc.check(itt.len() == it.len(), "quad.flatten/t-range", "generic", || format!("flattened() yields {} points, flattened_t() {} parameters", it.len(), itt.len()));
    // translation validation: the certificate is a PROVED upper bound of the distance between the
    // curve and the polyline (theorem quad_flat_within_tolerance_of_certificate); the independent
    // sampler may never see more (soundness cross-check of certificate, model and sampler)
    if let Some(w) = sampled {
        let bound = cert_sq.f().sqrt() * tol.f();
        let ok = !(bound.is_finite()) || w <= bound * (1.0 + 1e-4) + ROUND * S::EPS * c.mag().max(1e-30);
        orc.check(ok, "quad.flatten/certificate", "generic", || format!("sampled deviation {:e} exceeds the proved certificate bound {:e} (tol {:e})", w, bound, tol.f()));
    }
    // the certificate dominates what sampling sees on every chord (sanity of the oracle itself
    // and of theorem chord_deviation's reading): sampled deviation ≤ certificate + rounding
    if !orc.failed() {
        let mut t0 = 0.0;
        for (i, r) in cbt.ranges.iter().enumerate() {
            let t1 = r.1.f();
            let cert = chord_certificate(&c, t0, t1);
            let (a, b) = (c.eval(t0), c.eval(t1));
            let mid = c.eval(0.5 * (t0 + t1));
            let d = d_pt_seg(mid, a, b);
            orc.check(d <= cert * (1.0 + 1e-9) + 1e-12 * c.mag(), "quad.flatten/certificate", "generic", || format!("chord {}: sampled {:e} > certificate {:e}", i, d, cert));
            t0 = t1;
        }
    }
}

fn quad_case<S: Fl>(ctx: &mut Ctx) {
    ctx.case(&format!("quad:{}", S::BITS), |rng| {
        let sh = pick_shape(rng);
        let pts: Vec<Point<S>> = quad_points(rng, sh);
        let q = QuadraticBezierSegment { from: pts[0], ctrl: pts[1], to: pts[2] };
        let tol: S = gen_tol(rng, size_of(&pts));
        let mut args = Out::new();
        args.p(q.from).p(q.ctrl).p(q.to).f(tol);
        let triv = if q.is_linear(tol) && !overshoot_pred(&q64(&q), tol.f()) { " trivial-linear" } else { "" };
        let tag = format!("quad {} {}{}", S::BITS, shape_name(sh), triv);
        (args, tag, move || {
            let mut o = Out::new();
            let mut orc = Oracle::new();
            run_quad(q, tol, &mut o, &mut orc);
            CaseOut { imp: o, orcl: orc.verdict }
        })
    });
}

// ---------------------------------------------------------------------------------------------
// cubic

/// (some sub-quadratic matches the `is_linear` witness predicate, some sub-quadratic matches the
/// sharp-turn witness predicate, diagnostics)
fn cubic_preds<S: Fl>(c: &CubicBezierSegment<S>, tol: S) -> (bool, bool, bool, bool, String) {
    let (mut coll, mut near, mut over, mut sharp) = (false, false, false, false);
    let mut diag = String::new();
    let ft = (tol * S::value(0.6)).f();
    c.for_each_quadratic_bezier(tol * S::value(0.4), &mut |qs| {
        let q = q64(qs);
        if collinear_pred(qs, ft) {
            coll = true;
            diag.push_str(" sub-quad:collinear");
        } else if overshoot_pred(&q, ft) {
            if rel_cross(&q) <= 64.0 * S::EPS {
                near = true;
            } else {
                over = true;
            }
            diag.push_str(&format!(" sub-quad:overshoot(relcross {:e})", rel_cross(&q)));
        } else if sharp_pred(&q, ft) {
            sharp = true;
            diag.push_str(&format!(" sub-quad:sharp{:?}", lev_diag(&q, ft)));
        }
    });
    (coll, near, over, sharp, diag)
}

fn run_cubic<S: Fl>(c: CubicBezierSegment<S>, tol: S, o: &mut Out, orc: &mut Oracle) {
    let mut quads: Vec<(QuadraticBezierSegment<S>, S, S)> = vec![];
    c.for_each_quadratic_bezier_with_t(tol, &mut |q, r| quads.push((*q, r.start, r.end)));
    let mut cbt = CbT::new();
    c.for_each_flattened_with_t(tol, &mut |s, r| cbt.push(s, r));
    let mut cb = CbT::new();
    c.for_each_flattened(tol, &mut |s| cb.push(s, S::of(0.0)..S::of(0.0)));
    let mut tr = CbT::new();
    Segment::for_each_flattened_with_t(&c, tol, &mut |s, r| tr.push(s, r));
    let it: Vec<Point<S>> = c.flattened(tol).take(ITER_CAP).collect();
    o.t("nq").u(c.num_quadratics(tol) as u64);
    o.t("quads").u(quads.len() as u64);
    for (q, t0, t1) in &quads {
        o.p(q.from).p(q.ctrl).p(q.to).f(*t0).f(*t1);
    }
    o.t("cbt");
    cbt.put(o, true);
    o.t("cb");
    cb.put(o, false);
    o.t("tr");
    tr.put(o, true);
    o.t("it");
    put_pts(o, &it);
    // per-input certificate (model: Cubic.flatCert): the pieces for 0.4·tol, each flattened with
    // 0.6·tol, `flat_cert` of each, combined from the last piece backwards like the model's fold
    let tol4 = tol * <S as lyon_geom::Scalar>::value(0.4);
    let tol6 = tol * <S as lyon_geom::Scalar>::value(0.6);
    let mut pieces: Vec<QuadraticBezierSegment<S>> = vec![];
    c.for_each_quadratic_bezier_with_t(tol4, &mut |q, _| pieces.push(*q));
    let (mut cert_perp, mut cert_sq) = (true, S::of(0.0));
    for q in pieces.iter().rev() {
        let mut qs = CbT::new();
        q.for_each_flattened_with_t(tol6, &mut |s, r| qs.push(s, r));
        let (p, v) = flat_cert(q, tol6, &qs);
        cert_perp = p && cert_perp;
        cert_sq = smax(v, cert_sq);
    }
    o.t("qcert").b(cert_perp).f(cert_sq).b(cert_sq <= S::of(1.0)).b(cert_sq <= S::of(1.21));

    let k = k64(&c);
    let (coll, near, over, sharp, diag) = cubic_preds(&c, tol);
    let cx = Ctxt { kind: "cubic", curve: &k, start: k.a, end: k.b, tol: tol.f(), eps: S::EPS, collinear: coll, near_collinear: near, overshoot: over, sharp, arc_drift: false, diag };
    let sampled = check_poly(orc, &cx, &cbt.poly("callback_t", true));
    check_poly(orc, &cx, &cb.poly("callback", false));
    check_poly(orc, &cx, &tr.poly("segment-trait", true));
    check_poly(orc, &cx, &Poly { entry: "iter", froms: None, tos: it, ranges: None, ts: None });
    // translation validation (theorem cubic_flat_within_tolerance_of_certificate): the curve is
    // PROVED to be within sqrt(cert)·0.6·tol + 0.4·tol of the polyline; the sampler may not see more
    if let Some(w) = sampled {
        let bound = cert_sq.f().sqrt() * tol6.f() + tol4.f();
        let ok = !(bound.is_finite()) || w <= bound * (1.0 + 1e-4) + ROUND * S::EPS * k.mag().max(1e-30);
        orc.check(ok, "cubic.flatten/certificate", "generic", || format!("sampled deviation {:e} exceeds the proved certificate bound {:e} (tol {:e})", w, bound, tol.f()));
    }
    // the quadratics tile [0,1] and join up
    let n = quads.len();
    orc.check(n >= 1 && quads[0].1.f() == 0.0 && quads[n - 1].2.f() == 1.0, "cubic.quadratics/t-range", "generic", || format!("{} quadratics", n));
    for i in 1..n {
        orc.check(quads[i].1 == quads[i - 1].2 && quads[i].0.from == quads[i - 1].0.to, "cubic.quadratics/connected", "generic", || format!("quadratic {}", i));
    }
    if n >= 1 {
        orc.check(p2(quads[0].0.from) == k.a && p2(quads[n - 1].0.to) == k.b, "cubic.quadratics/ends", "generic", || "first/last quadratic end points".to_string());
    }
}

fn cubic_case<S: Fl>(ctx: &mut Ctx) {
    ctx.case(&format!("cubic:{}", S::BITS), |rng| {
        let sh = pick_shape(rng);
        let pts: Vec<Point<S>> = cubic_points(rng, sh);
        let c = CubicBezierSegment { from: pts[0], ctrl1: pts[1], ctrl2: pts[2], to: pts[3] };
        let tol: S = gen_tol(rng, size_of(&pts));
        let mut args = Out::new();
        args.p(c.from).p(c.ctrl1).p(c.ctrl2).p(c.to).f(tol);
        let tag = format!("cubic {} {}", S::BITS, shape_name(sh));
        (args, tag, move || {
            let mut o = Out::new();
            let mut orc = Oracle::new();
            run_cubic(c, tol, &mut o, &mut orc);
            CaseOut { imp: o, orcl: orc.verdict }
        })
    });
}

// ---------------------------------------------------------------------------------------------
// arc

fn gen_arc<S: Fl>(rng: &mut Rng) -> (Arc<S>, &'static str) {
    let g = Gen::pick(rng);
    let lat = g == Gen::Lattice || g == Gen::Degenerate;
    let center: Point<S> = g.point(rng);
    let circle = rng.chance(1, 3);
    let rx = if lat { rng.range(1, 64) as f64 / 4.0 } else { 10f64.powf(rng.uniform(-1.0, 3.0)) };
    let ry = if circle { rx } else if lat { rng.range(1, 64) as f64 / 4.0 } else { rx * 10f64.powf(rng.uniform(-1.0, 1.0)) };
    let ang = |rng: &mut Rng| -> f64 {
        if lat {
            rng.range(-16, 16) as f64 / 4.0
        } else {
            rng.uniform(-7.0, 7.0)
        }
    };
    let sweep = match rng.below(10) {
        0 => 0.0,
        1 => 10f64.powf(rng.uniform(-4.0, -1.0)) * if rng.chance(1, 2) { 1.0 } else { -1.0 },
        2 => 2.0 * std::f64::consts::PI * if rng.chance(1, 2) { 1.0 } else { -1.0 },
        _ => ang(rng),
    };
    let a = Arc {
        center,
        radii: vector(S::of(rx), S::of(ry)),
        start_angle: Angle::radians(S::of(ang(rng))),
        sweep_angle: Angle::radians(S::of(sweep)),
        x_rotation: Angle::radians(if rng.chance(1, 3) { S::of(0.0) } else { S::of(ang(rng)) }),
    };
    (a, if circle { "circle" } else { "ellipse" })
}

fn run_arc<S: Fl>(a: Arc<S>, tol: S, o: &mut Out, orc: &mut Oracle) {
    let mut cbt = CbT::new();
    a.for_each_flattened_with_t(tol, &mut |s, r| cbt.push(s, r));
    let mut cb = CbT::new();
    a.for_each_flattened(tol, &mut |s| cb.push(s, S::of(0.0)..S::of(0.0)));
    let mut tr = CbT::new();
    Segment::for_each_flattened_with_t(&a, tol, &mut |s, r| tr.push(s, r));
    let it: Vec<Point<S>> = a.flattened(tol).take(ITER_CAP).collect();
    o.t("cbt");
    cbt.put(o, true);
    o.t("cb");
    cb.put(o, false);
    o.t("tr");
    tr.put(o, true);
    o.t("it");
    put_pts(o, &it);

    let c = a64(&a);
    // flattening_step takes the distance from the centre at the *start* of a step as the radius
    // of a circle; the chord's deviation is tol·r(mid)/r(start). Witness predicate of that defect:
    // an ellipse whose radius can grow by ≥ 8 % over half of the largest step:
    // |d ln r/dψ| ≤ |a²−b²|/(2ab), largest step 2·acos(1 − tol/r_min).
    let (ra, rb) = (c.r.0.abs(), c.r.1.abs());
    let rmin = ra.min(rb).max(1e-300);
    let theta = 2.0 * (1.0 - tol.f() / rmin).clamp(-1.0, 1.0).acos();
    let drift = ((ra * ra - rb * rb).abs() / (2.0 * ra * rb).max(1e-300) * theta / 2.0).exp();
    let drift_pred = ra != rb && drift >= 1.08;
    let diag = format!("radii ({:e},{:e}) largest step {:.3} rad, radius drift bound {:.3}", ra, rb, theta, drift);
    let cx = Ctxt { kind: "arc", curve: &c, start: p2(a.from()), end: p2(a.to()), tol: tol.f(), eps: S::EPS, collinear: false, near_collinear: false, overshoot: false, sharp: false, arc_drift: drift_pred, diag };
    // OBSERVATION (not a finding): `flattening_step` returns 1 when min(2·acos((R−tol)/R)/|sweep|, 1)
    // < S::EPSILON — the whole arc becomes one segment (theorem arc_epsilon_guard_single_segment; the
    // case hypothesis `heps` of arc_flat_within_tolerance excludes). Evaluated on the input exactly as
    // the code does. Skipped only while the tolerance is below the resolution the oracle itself
    // grants (rounding of the angle amplified by the radius); otherwise the normal oracle decides.
    {
        let r = S::max(a.radii.x.abs(), a.radii.y.abs());
        let ang = S::TWO * S::acos((r - tol) / r);
        let res = S::min(ang / a.sweep_angle.radians.abs(), S::ONE);
        let below_resolution = tol.f() <= ROUND * S::EPS * c.mag().max(1e-30);
        if res < S::EPSILON && a.sweep_angle.radians.f() != 0.0 && below_resolution {
            orc.skip("observation: EPSILON guard of Arc::flattening_step fired (tolerance below the coordinate/angle resolution): the arc is emitted as one segment");
            return;
        }
    }
    check_poly(orc, &cx, &cbt.poly("callback_t", true));
    check_poly(orc, &cx, &cb.poly("callback", false));
    check_poly(orc, &cx, &tr.poly("segment-trait", true));
    check_poly(orc, &cx, &Poly { entry: "iter", froms: None, tos: it, ranges: None, ts: None });
}

fn arc_case<S: Fl>(ctx: &mut Ctx) {
    ctx.case(&format!("arc:{}", S::BITS), |rng| {
        let (a, kind) = gen_arc::<S>(rng);
        let size = a.radii.x.f().max(a.radii.y.f());
        let tol: S = gen_tol(rng, size * 10.0);
        let mut args = Out::new();
        args.p(a.center).v(a.radii).f(a.start_angle.radians).f(a.sweep_angle.radians).f(a.x_rotation.radians).f(tol);
        let triv = if a.sweep_angle.radians.f() == 0.0 { " trivial-empty-sweep" } else { "" };
        let tag = format!("arc {} {}{}", S::BITS, kind, triv);
        (args, tag, move || {
            let mut o = Out::new();
            let mut orc = Oracle::new();
            run_arc(a, tol, &mut o, &mut orc);
            CaseOut { imp: o, orcl: orc.verdict }
        })
    });
}

// ---------------------------------------------------------------------------------------------
// lyon_path adapters (f32)

#[derive(Clone, Copy)]
enum Curve {
    Q(QuadraticBezierSegment<f32>),
    C(CubicBezierSegment<f32>),
}

/// events → (points of the flattened curve, all events connected?, detail)
fn curve_part(ev: &[PathEvent], lead: bool, trail: bool) -> Result<(Vec<Point<f32>>, Vec<Point<f32>>), String> {
    // expected: Begin, [Line], Line*, [Line], End
    if ev.len() < 3 {
        return Err(format!("{} events", ev.len()));
    }
    if !matches!(ev[0], PathEvent::Begin { .. }) || !matches!(ev[ev.len() - 1], PathEvent::End { .. }) {
        return Err("not Begin … End".to_string());
    }
    let lines = &ev[1..ev.len() - 1];
    let mut froms = vec![];
    let mut tos = vec![];
    for e in lines {
        match e {
            PathEvent::Line { from, to } => {
                froms.push(*from);
                tos.push(*to);
            }
            other => return Err(format!("unexpected event {:?}", other)),
        }
    }
    let a = if lead { 1 } else { 0 };
    let b = tos.len() - if trail { 1 } else { 0 };
    if a > b {
        return Err("too few line events".to_string());
    }
    let _ = froms;
    Ok((tos[a..b].to_vec(), tos))
}

fn path_case(ctx: &mut Ctx, cubic: bool) {
    let fam = if cubic { "pcubic:32" } else { "pquad:32" };
    ctx.case(fam, |rng| {
        let sh = pick_shape(rng);
        let (curve, pts): (Curve, Vec<Point<f32>>) = if cubic {
            let p: Vec<Point<f32>> = cubic_points(rng, sh);
            (Curve::C(CubicBezierSegment { from: p[0], ctrl1: p[1], ctrl2: p[2], to: p[3] }), p)
        } else {
            let p: Vec<Point<f32>> = quad_points(rng, sh);
            (Curve::Q(QuadraticBezierSegment { from: p[0], ctrl: p[1], to: p[2] }), p)
        };
        let tol: f32 = gen_tol(rng, size_of(&pts));
        let lead = rng.chance(1, 2);
        let trail = rng.chance(1, 2);
        let close = rng.chance(1, 2);
        let p_lead: Point<f32> = Gen::Uniform.point(rng);
        let p_trail: Point<f32> = Gen::Uniform.point(rng);
        // history of the adapter object: built at another tolerance (coarser than the curve is
        // large, or finer), then `set_tolerance(tol)` before the curve is issued; the result must
        // be the one of an adapter built at `tol` (the model and the oracle only know `tol`)
        let retol: Option<f32> = match rng.below(4) {
            0 => Some((size_of(&pts) as f32).max(1e-3) * (2.0 + rng.below(64) as f32)),
            1 => Some(tol * 0.125),
            _ => None,
        };
        let mut args = Out::new();
        for p in &pts {
            args.p(*p);
        }
        args.f(tol);
        let tag = format!("{} {} lead{} trail{} close{} {}", if cubic { "pcubic" } else { "pquad" }, shape_name(sh), lead as u8, trail as u8, close as u8,
            match retol { None => "built-at-tol", Some(t0) if t0 > tol => "set_tolerance-from-coarser", Some(_) => "set_tolerance-from-finer" });
        (args, tag, move || {
            let mut o = Out::new();
            let mut orc = Oracle::new();
            let (from, to) = (pts[0], pts[pts.len() - 1]);
            // the source path
            let mut b = Path::builder();
            if lead {
                b.begin(p_lead);
                b.line_to(from);
            } else {
                b.begin(from);
            }
            match curve {
                Curve::Q(q) => {
                    b.quadratic_bezier_to(q.ctrl, q.to);
                }
                Curve::C(c) => {
                    b.cubic_bezier_to(c.ctrl1, c.ctrl2, c.to);
                }
            }
            if trail {
                b.line_to(p_trail);
            }
            b.end(close);
            let src = b.build();
            // 1. iterator adapter
            let ev_it: Vec<PathEvent> = src.iter().flattened(tol).take(ITER_CAP).collect();
            // 2. builder adapter
            let mut fb = Path::builder().flattened(retol.unwrap_or(tol));
            if retol.is_some() {
                fb.inner_mut().set_tolerance(tol);
            }
            if lead {
                fb.begin(p_lead);
                fb.line_to(from);
            } else {
                fb.begin(from);
            }
            match curve {
                Curve::Q(q) => {
                    fb.quadratic_bezier_to(q.ctrl, q.to);
                }
                Curve::C(c) => {
                    fb.cubic_bezier_to(c.ctrl1, c.ctrl2, c.to);
                }
            }
            if trail {
                fb.line_to(p_trail);
            }
            fb.end(close);
            let built = fb.build();
            let ev_b: Vec<PathEvent> = built.iter().collect();

            let kind: &'static str = if cubic { "cubic" } else { "quad" };
            let q64v;
            let k64v;
            let (cref, coll, near, over, sharp, diag): (&dyn C64, bool, bool, bool, bool, String) = match curve {
                Curve::Q(q) => {
                    q64v = q64(&q);
                    let ov = overshoot_pred(&q64v, tol as f64);
                    (&q64v, collinear_pred(&q, tol as f64), ov && rel_cross(&q64v) <= 64.0 * f32::EPS, ov, sharp_pred(&q64v, tol as f64), format!("lev{:?}", lev_diag(&q64v, tol as f64)))
                }
                Curve::C(c) => {
                    k64v = k64(&c);
                    let (co, ne, ov, sh, dg) = cubic_preds(&c, tol);
                    (&k64v, co, ne, ov, sh, dg)
                }
            };
            let cx = Ctxt { kind, curve: cref, start: p2(from), end: p2(to), tol: tol as f64, eps: f32::EPS, collinear: coll, near_collinear: near, overshoot: over, sharp, arc_drift: false, diag };
            for (name, ev) in [("path-builder", &ev_b), ("path-iter", &ev_it)] {
                match curve_part(ev, lead, trail) {
                    Err(why) => orc.check(false, &format!("{}.flatten/events", kind), "generic", || format!("{}: {}", name, why)),
                    Ok((cpts, _all)) => {
                        o.t(if name == "path-iter" { "piter" } else { "pbuild" });
                        put_pts(&mut o, &cpts);
                        // every Line starts where the previous event ended (the property's
                        // "each begin where the previous one ended" at path level)
                        let mut prev: Option<Point<f32>> = None;
                        let mut connected = true;
                        let mut where_ = String::new();
                        for (i, e) in ev.iter().enumerate() {
                            match e {
                                PathEvent::Begin { at } => prev = Some(*at),
                                PathEvent::Line { from, to } => {
                                    if prev != Some(*from) && connected {
                                        connected = false;
                                        where_ = format!("event {}: line starts at {:?}, previous event ended at {:?}", i, from, prev);
                                    }
                                    prev = Some(*to);
                                }
                                PathEvent::End { last, .. } => {
                                    if prev != Some(*last) && connected {
                                        connected = false;
                                        where_ = format!("event {}: End.last {:?}, previous event ended at {:?}", i, last, prev);
                                    }
                                }
                                _ => {}
                            }
                        }
                        let endd = cpts.last().map(|p| dist(p2(*p), p2(to))).unwrap_or(f64::INFINITY);
                        let small = endd <= 64.0 * f32::EPS * cref.mag().max(1e-30);
                        let class = if cubic && name == "path-iter" && small && endd > 0.0 { "cubic-iter-last-point" } else { "generic" };
                        let poly = Poly { entry: if name == "path-iter" { "path-iter" } else { "path-builder" }, froms: None, tos: cpts, ranges: None, ts: None };
                        check_poly(&mut orc, &cx, &poly);
                        orc.check(connected, &format!("{}.flatten/end", kind), class, || format!("{}: {}", name, where_));
                    }
                }
            }
            CaseOut { imp: o, orcl: orc.verdict }
        })
    });
}

// ---------------------------------------------------------------------------------------------
// fixed witnesses of the known defects (always run, so that open findings are re-confirmed on
// the real code on every run and fixed ones are regression cases)

fn witness_cases(ctx: &mut Ctx) {
    // is_linear accepts a control point overshooting a nearly closed baseline
    ctx.case("quad:32", |_| {
        let q = QuadraticBezierSegment { from: point(0.0f32, 0.0), ctrl: point(1000.0, 0.0), to: point(0.01, 0.0) };
        let tol = 0.1f32;
        let mut args = Out::new();
        args.p(q.from).p(q.ctrl).p(q.to).f(tol);
        (args, "quad 32 witness overshoot".to_string(), move || {
            let mut o = Out::new();
            let mut orc = Oracle::new();
            run_quad(q, tol, &mut o, &mut orc);
            CaseOut { imp: o, orcl: orc.verdict }
        })
    });
    ctx.case("quad:64", |_| {
        let q = QuadraticBezierSegment { from: point(0.0f64, 0.0), ctrl: point(16.0, 0.0), to: point(0.0, 0.0) };
        let tol = 0.125f64;
        let mut args = Out::new();
        args.p(q.from).p(q.ctrl).p(q.to).f(tol);
        (args, "quad 64 witness overshoot closed".to_string(), move || {
            let mut o = Out::new();
            let mut orc = Oracle::new();
            run_quad(q, tol, &mut o, &mut orc);
            CaseOut { imp: o, orcl: orc.verdict }
        })
    });
    // cubic iterator: last point is sample(range_start + range_step), not `to`
    ctx.case("cubic:32", |_| {
        let c = CubicBezierSegment { from: point(0.0f32, 0.0), ctrl1: point(30.0, 70.0), ctrl2: point(70.0, -40.0), to: point(100.3, 10.7) };
        let tol = 0.01f32;
        let mut args = Out::new();
        args.p(c.from).p(c.ctrl1).p(c.ctrl2).p(c.to).f(tol);
        (args, "cubic 32 witness iter-last-point".to_string(), move || {
            let mut o = Out::new();
            let mut orc = Oracle::new();
            run_cubic(c, tol, &mut o, &mut orc);
            CaseOut { imp: o, orcl: orc.verdict }
        })
    });
}

fn witness_cases_2(ctx: &mut Ctx) {
    // residual collinear defect through a cubic's sub-quadratics
    ctx.case("cubic:64", |_| {
        let c = CubicBezierSegment { from: point(0.0f64, 0.0), ctrl1: point(300.0, 0.0), ctrl2: point(-200.0, 0.0), to: point(0.5, 0.0) };
        let tol = 0.01f64;
        let mut args = Out::new();
        args.p(c.from).p(c.ctrl1).p(c.ctrl2).p(c.to).f(tol);
        (args, "cubic 64 witness collinear".to_string(), move || {
            let mut o = Out::new();
            let mut orc = Oracle::new();
            run_cubic(c, tol, &mut o, &mut orc);
            CaseOut { imp: o, orcl: orc.verdict }
        })
    });
}

fn witness_cases_3(ctx: &mut Ctx) {
    // near-collinear hairpin: `cross` is rounding noise; the iterator's last sub-quadratic
    // (range t0..t0+step) gets count 2 where the callback's (t0..1) gets 4
    ctx.case("cubic:32", |_| {
        let c = CubicBezierSegment {
            from: point(2.1652534008026123f32, 2.1474316120147705),
            ctrl1: point(145.203125, 106.16378784179688),
            ctrl2: point(-4.166540622711182, -2.4570140838623047),
            to: point(2.1652534008026123, 2.1474316120147705),
        };
        let tol = 0.02535335347056389f32;
        let mut args = Out::new();
        args.p(c.from).p(c.ctrl1).p(c.ctrl2).p(c.to).f(tol);
        (args, "cubic 32 witness near-collinear".to_string(), move || {
            let mut o = Out::new();
            let mut orc = Oracle::new();
            run_cubic(c, tol, &mut o, &mut orc);
            CaseOut { imp: o, orcl: orc.verdict }
        })
    });
}

/// Directed inputs for the `EPSILON` guard of `Arc::flattening_step` (appended after the random
/// stream so that existing case ids keep their meaning): the model must agree bit for bit (one
/// segment), the oracle records the observation.
fn guard_cases(ctx: &mut Ctx) {
    let fixed: [(f32, f32, f32); 2] = [(1.0, 7.0, 6e-8), (1000.0, 100.0, 0.01)];
    for (r, sweep, tol) in fixed {
        ctx.case("arc:32", move |_| {
            let a = Arc {
                center: point(0.0f32, 0.0),
                radii: vector(r, r),
                start_angle: Angle::radians(0.0),
                sweep_angle: Angle::radians(sweep),
                x_rotation: Angle::radians(0.0),
            };
            let mut args = Out::new();
            args.p(a.center).v(a.radii).f(a.start_angle.radians).f(a.sweep_angle.radians).f(a.x_rotation.radians).f(tol);
            (args, "arc 32 directed epsilon-guard".to_string(), move || {
                let mut o = Out::new();
                let mut orc = Oracle::new();
                run_arc(a, tol, &mut o, &mut orc);
                CaseOut { imp: o, orcl: orc.verdict }
            })
        });
    }
}


// ---------------------------------------------------------------------------------------------
// Family `chk_flat`: PROOF-GRADE per-input verdicts (translation validation with the verified
// exact checker `Lyon.FlatChk`, Props/C09c.lean `chk_flat_sound_rat` / `chk_flat_cubic_sound_rat` /
// `chk_flat_violation_sound_rat`). The CHECK line hands the curve, the tolerance and the segments
// the REAL `for_each_flattened_with_t` emitted to the Lean checker (exact rationals); the verdict is
// also computed here with exact dyadic arithmetic (`exact::verdict_*`) so that it can be reported in
// the TAG / ORCL lines (evidence); the Lean checker answers MISMATCH if its verdict differs.
//   ok                                   every curve point PROVED within 1·tol + eps of the polyline
//   skip chk_flat:<kind>:k<=1.11 …        only within k·tol + eps proved, no violation proved
//   fail <kind>.flatten/certified-tolerance <class>   a concrete curve point PROVED farther than
//                                        tol + eps from every emitted segment
// eps = f·S::EPS·(largest |coordinate| of the control points), f the smallest of 1, 2, 4, …, 64 that
// works: the rounding of the emitted vertices (`sample(t)` in floats; cubics: also of lyon's float
// sub-quadratics), stated to the checker and verified by it exactly (`flatVtxSq ≤ eps²`).
const CHK_MAX_SEGS: usize = 4000;

fn px<S: Fl>(p: Point<S>) -> exact::Pt {
    exact::Pt::of(p.x.f(), p.y.f())
}
fn dx<S: Fl>(x: S) -> exact::Dy {
    exact::Dy::from_f64(x.f())
}
fn segs_x<S: Fl>(cbt: &CbT<S>) -> Vec<exact::SegX> {
    (0..cbt.tos.len()).map(|i| exact::SegX { a: px(cbt.froms[i]), b: px(cbt.tos[i]), t0: dx(cbt.ranges[i].0), t1: dx(cbt.ranges[i].1) }).collect()
}
fn put_segs<S: Fl>(o: &mut Out, cbt: &CbT<S>) {
    o.u(cbt.tos.len() as u64);
    for i in 0..cbt.tos.len() {
        o.p(cbt.froms[i]).p(cbt.tos[i]).f(cbt.ranges[i].0).f(cbt.ranges[i].1);
    }
}
fn cbt_finite<S: Fl>(cbt: &CbT<S>) -> bool {
    (0..cbt.tos.len()).all(|i| cbt.froms[i].x.finite() && cbt.froms[i].y.finite() && cbt.tos[i].x.finite() && cbt.tos[i].y.finite() && cbt.ranges[i].0.finite() && cbt.ranges[i].1.finite())
}

/// what the gen closure hands to the run closure
struct ChkOut {
    tag: String,
    imp: String,
    orcl: vh::Verdict,
    check: Option<Out>,
}

fn chk_result(kind: &str, bits: u32, v: &exact::Verdict, class: &str, nsegs: usize, check: Out) -> ChkOut {
    let vs = v.string();
    let orcl = if !v.structure {
        vh::Verdict::fail(&format!("{}.flatten/certified-structure", kind), "generic", vs.clone())
    } else if let Some((c, j)) = v.viol {
        vh::Verdict::fail(
            &format!("{}.flatten/certified-tolerance", kind),
            class,
            format!("exact checker: the curve point at {}/8 of the range of chord {} is farther than tol+eps from every emitted segment ({} segments) {}", j, c, nsegs, vs),
        )
    } else if !v.vtx && v.hull.is_none() {
        vh::Verdict::Skip(format!("chk_flat:{}:vertex-eps {}", kind, vs))
    } else if v.final_idx() == 0 {
        vh::Verdict::Ok
    } else {
        vh::Verdict::Skip(format!("chk_flat:{}:{} {}", kind, v.bucket(), vs))
    };
    // verdict statistics as TAG tokens (evidence: input_distribution.tags): kind, precision, proved
    // factor / violation, and - where evaluated - whether `within 1·tol` is proved with no eps at all
    let free = match v.free {
        Some(true) => " tol-exact",
        Some(false) if v.viol.is_none() && v.final_idx() == 0 => " tol+eps-only",
        _ => "",
    };
    ChkOut { tag: format!("chk_flat {}{} {}{}", kind, bits, v.bucket(), free), imp: format!("verdict {}", vs), orcl, check: Some(check) }
}

fn chk_skip(kind: &str, why: &str) -> ChkOut {
    ChkOut { tag: format!("chk_flat {} {}", kind, why), imp: format!("none {}", why), orcl: vh::Verdict::Skip(format!("chk_flat:{}:{}", kind, why)), check: None }
}

fn chk_quad<S: Fl>(q: QuadraticBezierSegment<S>, tol: S, eflag: bool) -> ChkOut {
    let r = vh::guarded(|| {
        let mut cbt = CbT::new();
        q.for_each_flattened_with_t(tol, &mut |s, r| cbt.push(s, r));
        cbt
    });
    let cbt = match r {
        Some(c) => c,
        None => return chk_skip("quad", "panic"),
    };
    if !cbt_finite(&cbt) {
        return chk_skip("quad", "non-finite");
    }
    if cbt.tos.len() > CHK_MAX_SEGS {
        return chk_skip("quad", "too-many-segments");
    }
    let c = q64(&q);
    let qx = exact::QuadX { a: px(q.from), c: px(q.ctrl), b: px(q.to) };
    let l = segs_x(&cbt);
    let (eps, _) = exact::choose_eps(&exact::max_vtx_sq(&qx, &l), S::EPS * c.mag());
    let v = exact::verdict_quad(&qx, &dx(tol), &exact::Dy::from_f64(eps), &l, eflag);
    let near = overshoot_pred(&c, tol.f()) && rel_cross(&c) <= 64.0 * S::EPS;
    // a violation of an input that is PROVED within 1.15·tol + eps is the approximate count
    // (finding approx-integral) whatever else the input looks like; otherwise the witness predicates
    let class = if v.k_idx <= 2 {
        "approx-integral"
    } else if collinear_pred(&q, tol.f()) {
        "collinear-overshoot-nan-count"
    } else if near {
        "near-collinear-cancellation"
    } else if overshoot_pred(&c, tol.f()) {
        "ctrl-overshoot"
    } else if sharp_pred(&c, tol.f()) {
        "sharp-turn"
    } else {
        "generic"
    };
    let mut o = Out::new();
    o.t(if eflag { "qe" } else { "q" }).t(&v.string()).t(class).f(tol).f(eps).p(q.from).p(q.ctrl).p(q.to);
    put_segs(&mut o, &cbt);
    chk_result("quad", S::BITS, &v, class, l.len(), o)
}

fn chk_cubic<S: Fl>(c: CubicBezierSegment<S>, tol: S, eflag: bool) -> ChkOut {
    let tol4 = tol * <S as lyon_geom::Scalar>::value(0.4);
    let tol6 = tol * <S as lyon_geom::Scalar>::value(0.6);
    let r = vh::guarded(|| {
        // lyon's own pieces and the flattening of each (what for_each_flattened_with_t does) …
        let mut pieces: Vec<(QuadraticBezierSegment<S>, S, S, CbT<S>)> = vec![];
        c.for_each_quadratic_bezier_with_t(tol4, &mut |q, r| {
            let mut qs = CbT::new();
            q.for_each_flattened_with_t(tol6, &mut |s, rr| qs.push(s, rr));
            pieces.push((*q, r.start, r.end, qs));
        });
        // … and the entry point itself
        let mut cbt = CbT::new();
        c.for_each_flattened_with_t(tol, &mut |s, r| cbt.push(s, r));
        (pieces, cbt)
    });
    let (pieces, cbt) = match r {
        Some(x) => x,
        None => return chk_skip("cubic", "panic"),
    };
    let total: usize = pieces.iter().map(|p| p.3.tos.len()).sum();
    let fin = cbt_finite(&cbt) && pieces.iter().all(|p| p.1.finite() && p.2.finite() && cbt_finite(&p.3) && [p.0.from, p.0.ctrl, p.0.to].iter().all(|z| z.x.finite() && z.y.finite()));
    if !fin {
        return chk_skip("cubic", "non-finite");
    }
    if total > CHK_MAX_SEGS {
        return chk_skip("cubic", "too-many-segments");
    }
    // glue: the segments handed to the checker ARE the entry point's segments, in order, bit for bit
    let mut glue = total == cbt.tos.len();
    if glue {
        let mut i = 0;
        for p in &pieces {
            for j in 0..p.3.tos.len() {
                glue = glue && p.3.froms[j] == cbt.froms[i] && p.3.tos[j] == cbt.tos[i];
                i += 1;
            }
        }
    }
    if !glue {
        return ChkOut {
            tag: "chk_flat cubic glue".to_string(),
            imp: "none glue".to_string(),
            orcl: vh::Verdict::fail("cubic.flatten/certified-glue", "generic", format!("for_each_flattened_with_t emits {} segments, its pieces {} (or different points)", cbt.tos.len(), total)),
            check: None,
        };
    }
    let k = k64(&c);
    let cx = exact::CubicX { a: px(c.from), c1: px(c.ctrl1), c2: px(c.ctrl2), b: px(c.to) };
    let ps: Vec<exact::PieceX> =
        pieces.iter().map(|p| exact::PieceX { q: exact::QuadX { a: px(p.0.from), c: px(p.0.ctrl), b: px(p.0.to) }, t0: dx(p.1), t1: dx(p.2), l: segs_x(&p.3) }).collect();
    let (eps, _) = exact::choose_eps(&exact::max_vtx_sq_cubic(&cx, &ps), S::EPS * k.mag());
    let v = exact::verdict_cubic(&cx, &dx(tol), &dx(tol6), &dx(tol4), &exact::Dy::from_f64(eps), &ps, &segs_x(&cbt), eflag);
    let (coll, near, over, sharp, _) = cubic_preds(&c, tol);
    let class = if v.k_idx <= 2 {
        "approx-integral"
    } else if coll {
        "collinear-overshoot-nan-count"
    } else if near {
        "near-collinear-cancellation"
    } else if over {
        "ctrl-overshoot"
    } else if sharp {
        "sharp-turn"
    } else {
        "generic"
    };
    let mut o = Out::new();
    o.t(if eflag { "ce" } else { "c" }).t(&v.string()).t(class).f(tol).f(tol6).f(tol4).f(eps).p(c.from).p(c.ctrl1).p(c.ctrl2).p(c.to);
    o.u(pieces.len() as u64);
    for p in &pieces {
        o.p(p.0.from).p(p.0.ctrl).p(p.0.to).f(p.1).f(p.2);
        put_segs(&mut o, &p.3);
    }
    // the entry point's own segments with their ranges on the cubic (convex-hull certificate)
    put_segs(&mut o, &cbt);
    chk_result("cubic", S::BITS, &v, class, total, o)
}

fn chk_case<S: Fl>(ctx: &mut Ctx, cubic: bool, eflag: bool) {
    ctx.case_check("chk_flat", |rng| {
        let sh = pick_shape(rng);
        let mut args = Out::new();
        let res = if cubic {
            let pts: Vec<Point<S>> = cubic_points(rng, sh);
            let c = CubicBezierSegment { from: pts[0], ctrl1: pts[1], ctrl2: pts[2], to: pts[3] };
            let tol: S = gen_tol(rng, size_of(&pts));
            args.t("c").u(S::BITS as u64).p(c.from).p(c.ctrl1).p(c.ctrl2).p(c.to).f(tol);
            chk_cubic(c, tol, eflag)
        } else {
            let pts: Vec<Point<S>> = quad_points(rng, sh);
            let q = QuadraticBezierSegment { from: pts[0], ctrl: pts[1], to: pts[2] };
            let tol: S = gen_tol(rng, size_of(&pts));
            args.t("q").u(S::BITS as u64).p(q.from).p(q.ctrl).p(q.to).f(tol);
            chk_quad(q, tol, eflag)
        };
        let tag = res.tag.clone();
        (args, tag, move || {
            let mut o = Out::new();
            o.t(&res.imp);
            (CaseOut { imp: o, orcl: res.orcl }, res.check)
        })
    });
}

// ---------------------------------------------------------------------------------------------
// Family `chk_arc`: the exact, trigonometry-free checker for ARCS (`Lyon.ArcChk`, theorem
// `chk_arc_sound_rat`, Props/C09d.lean). The ellipse is A(unit circle), A(p) = center + Rot(c,s)(rx·p.x,
// ry·p.y), the rotation given as a half-angle tangent (so c² + s² = 1 exactly); every emitted vertex
// comes with an advice point of the unit circle, derived here from the vertex itself (half-angle
// tangent of its pre-image's direction). The checker verifies: segments chained exactly with
// increasing ranges, vertices within eps of A(advice), every chord's sagitta ≤ k·tol (rational test
// L² ≤ 4τ(2−τ), τ = min(k·tol/R, 1), R the largest radius); for chords that fail it, a VIOLATION
// certificate: the unit point with the mean half-angle tangent, in the cone of the two advice points,
// whose image is farther than tol + 2·eps from every segment (`arc.flatten/certified-tolerance`).
// NOT verified by it (no trigonometry):
// that (c,s) is cos/sin of x_rotation to 1e-16 and that the advice points run once along lyon's arc
// from start to end — cross-checked here in f64 (total turning vs sweep; otherwise skip sweep-mismatch).

/// (half-angle tangent, flip) of the direction (a, b)
fn half_tan(a: f64, b: f64) -> (f64, bool) {
    let n = a.hypot(b);
    let (a, b) = (a / n, b / n);
    if a >= 0.0 {
        (b / (1.0 + a), false)
    } else {
        (-b / (1.0 - a), true)
    }
}

fn arc_skip(why: &str) -> ChkOut {
    ChkOut { tag: format!("chk_arc {}", why), imp: format!("none {}", why), orcl: vh::Verdict::Skip(format!("chk_arc:{}", why)), check: None }
}

fn chk_arc<S: Fl>(a: Arc<S>, tol: S) -> ChkOut {
    let kind = "arc";
    let r = vh::guarded(|| {
        let mut cbt = CbT::new();
        a.for_each_flattened_with_t(tol, &mut |s, r| cbt.push(s, r));
        (cbt, a.from(), a.to())
    });
    let (cbt, p0, pe) = match r {
        Some(c) => c,
        None => return arc_skip("panic"),
    };
    let (rx, ry) = (a.radii.x.f(), a.radii.y.f());
    if !cbt_finite(&cbt) || !(p0.x.finite() && p0.y.finite() && pe.x.finite() && pe.y.finite()) {
        return arc_skip("non-finite");
    }
    if rx == 0.0 || ry == 0.0 {
        return arc_skip("degenerate-radii");
    }
    if cbt.tos.len() > CHK_MAX_SEGS {
        return arc_skip("too-many-segments");
    }
    let big_r = rx.abs().max(ry.abs());
    let rot = a.x_rotation.radians.f();
    let (w, wflip) = half_tan(rot.cos(), rot.sin());
    let (cx, cy) = (a.center.x.f(), a.center.y.f());
    let (cr, sr) = (rot.cos(), rot.sin());
    let advice = |p: Point<S>| -> (f64, bool, (f64, f64)) {
        let (dx, dy) = (p.x.f() - cx, p.y.f() - cy);
        let (x, y) = (cr * dx + sr * dy, -sr * dx + cr * dy);
        let (u, v) = (x / rx, y / ry);
        let n = u.hypot(v);
        let (h, f) = half_tan(u, v);
        (h, f, (u / n, v / n))
    };
    // total turning of the advice points against the sweep (f64, unverified cross-check)
    let mut turning = 0.0f64;
    let mut items: Vec<(f64, bool, f64, bool)> = vec![];
    for i in 0..cbt.tos.len() {
        let (ua, fa, da) = advice(cbt.froms[i]);
        let (ub, fbb, db) = advice(cbt.tos[i]);
        turning += (da.0 * db.1 - da.1 * db.0).atan2(da.0 * db.0 + da.1 * db.1);
        items.push((ua, fa, ub, fbb));
    }
    let sweep = a.sweep_angle.radians.f() * (rx * ry).signum();
    if !items.iter().all(|x| x.0.is_finite() && x.2.is_finite()) {
        return arc_skip("non-finite");
    }
    if (turning - sweep).abs() > 1e-3 * (1.0 + sweep.abs()) {
        return arc_skip("sweep-mismatch");
    }
    let frame = exact::FrameX { center: px(a.center), rx: dx(a.radii.x), ry: dx(a.radii.y), rot: exact::UPt::of(w, wflip) };
    let l: Vec<exact::ArcSegX> = segs_x(&cbt)
        .into_iter()
        .zip(items.iter())
        .map(|(sg, it)| exact::ArcSegX { sg, pa: exact::UPt::of(it.0, it.1), pb: exact::UPt::of(it.2, it.3) })
        .collect();
    let unit = S::EPS * (cx.abs().max(cy.abs()) + big_r);
    let mut eps = 64.0 * unit;
    for k in 0..7 {
        let e = (1u32 << k) as f64 * unit;
        if frame.vtx_all(&l, e) {
            eps = e;
            break;
        }
    }
    let v = exact::verdict_arc(&frame, &exact::Dy::from_f64(big_r), &dx(tol), eps, &px(p0), &px(pe), &l, &items);
    let vs = v.string();
    let mut o = Out::new();
    o.t(&vs).f(tol.f()).f(eps).f(cx).f(cy).f(rx).f(ry).f(big_r).f(w).b(wflip).f(p0.x.f()).f(p0.y.f()).f(pe.x.f()).f(pe.y.f());
    o.u(cbt.tos.len() as u64);
    for i in 0..cbt.tos.len() {
        o.f(cbt.froms[i].x.f()).f(cbt.froms[i].y.f()).f(cbt.tos[i].x.f()).f(cbt.tos[i].y.f()).f(cbt.ranges[i].0.f()).f(cbt.ranges[i].1.f());
        o.f(items[i].0).b(items[i].1).f(items[i].2).b(items[i].3);
    }
    let orcl = if !v.structure {
        vh::Verdict::fail("arc.flatten/certified-structure", "generic", vs.clone())
    } else if let Some(i) = v.viol {
        vh::Verdict::fail(
            "arc.flatten/certified-tolerance",
            "generic",
            format!("exact checker: the ellipse point with the mean half-angle tangent of chord {} is farther than tol+2eps from every emitted segment ({} segments) {}", i, l.len(), vs),
        )
    } else if v.vtx && v.k_idx == 0 {
        vh::Verdict::Ok
    } else {
        vh::Verdict::Skip(format!("chk_arc:{} {}", v.bucket(), vs))
    };
    let shape = if rx.abs() == ry.abs() { "circle" } else { "ellipse" };
    ChkOut { tag: format!("chk_arc {}{} {}", shape, S::BITS, v.bucket()), imp: format!("verdict {}", vs), orcl, check: Some(o) }
}

fn chk_arc_case<S: Fl>(ctx: &mut Ctx) {
    ctx.case_check("chk_arc", |rng| {
        let (a, _) = gen_arc::<S>(rng);
        let size = a.radii.x.f().max(a.radii.y.f());
        let tol: S = gen_tol(rng, size * 10.0);
        let mut args = Out::new();
        args.u(S::BITS as u64).p(a.center).v(a.radii).f(a.start_angle.radians).f(a.sweep_angle.radians).f(a.x_rotation.radians).f(tol);
        let res = chk_arc(a, tol);
        let tag = res.tag.clone();
        (args, tag, move || {
            let mut o = Out::new();
            o.t(&res.imp);
            (CaseOut { imp: o, orcl: res.orcl }, res.check)
        })
    });
}

fn main() {
    let mut ctx = Ctx::from_args("C09");
    witness_cases(&mut ctx);
    witness_cases_2(&mut ctx);
    witness_cases_3(&mut ctx);
    let n = ctx.n(2000, 30000);
    for _ in 0..n {
        quad_case::<f32>(&mut ctx);
        quad_case::<f64>(&mut ctx);
        cubic_case::<f32>(&mut ctx);
        cubic_case::<f64>(&mut ctx);
        arc_case::<f32>(&mut ctx);
        arc_case::<f64>(&mut ctx);
        path_case(&mut ctx, false);
        path_case(&mut ctx, true);
    }
    guard_cases(&mut ctx);
    // exact checker family (ids after everything else): a sample in the quick tier, as many as the
    // sampled families in the thorough tier
    let m = ctx.n(250, 30000);
    // eps-free verdict (hull checker on EVERY case): all of the thorough tier, every 2nd round of the quick tier
    let thorough = m > 250;
    for i in 0..m {
        let e = thorough || i % 2 == 0;
        chk_case::<f32>(&mut ctx, false, e);
        chk_case::<f64>(&mut ctx, false, e);
        chk_case::<f32>(&mut ctx, true, e);
        chk_case::<f64>(&mut ctx, true, e);
    }
    // exact arc checker (ids after everything else)
    let ma = ctx.n(250, 30000);
    for _ in 0..ma {
        chk_arc_case::<f32>(&mut ctx);
        chk_arc_case::<f64>(&mut ctx);
    }
    ctx.finish();
}

