//! C11 — bounding boxes and extrema are conservative and tight; monotone splits hold.
//!
//! Families (each at f32 and f64): `seg`, `tri`, `quad`, `cubic`, `arc`; `path` (f32, through
//! `lyon_algorithms::aabb`); `fit` (f32, `lyon_algorithms::fit::{fit_box, fit_path}`); `path_box`
//! (f32: the path-level box along the dimensions of the path's HISTORY - the path, `Path::reversed`
//! of it, its sub-paths drawn in another order, and the union of lyon's own per-segment exact
//! boxes must all give the same box; mostly structured paths on a small lattice: flat
//! horizontal / vertical curves, zero-length segments, single-point sub-paths, segments whose end
//! point is the unique extreme of the path).
//!
//! IMPL prints every modelled function (inherent methods; the `BoundingBox` trait of segment.rs is
//! not exported by lyon_geom, so its forwarding glue cannot be called from outside; callback
//! sequences as counted lists).  ORCL evaluates the property on lyon's own outputs against an
//! independent f64 reference (de Casteljau / ellipse formula, dense sampling and analytic extrema)
//! with a stated rounding envelope.

use lyon_algorithms::aabb;
use lyon_algorithms::fit::{fit_box, fit_path, FitStyle};
use lyon_geom::euclid::Angle;
use lyon_geom::{
    point, vector, Arc, Box2D, CubicBezierSegment, LineSegment, Point, QuadraticBezierSegment, Triangle,
    Vector,
};
use lyon_path::Path;
use vh::fl::{maxabs, Gen};
use vh::{CaseOut, Ctx, Fl, Oracle, Out, Rng};

const NS: usize = 64; // dense samples per Bézier segment

// ---------------------------------------------------------------------------------------------
// f64 reference

fn lerp1(a: f64, b: f64, t: f64) -> f64 {
    a + (b - a) * t
}

/// de Casteljau on one coordinate
fn cast1(c: &[f64], t: f64) -> f64 {
    let mut v = c.to_vec();
    while v.len() > 1 {
        v = v.windows(2).map(|w| lerp1(w[0], w[1], t)).collect();
    }
    v[0]
}

/// derivative of a Bézier coordinate at t (de Casteljau on the hodograph)
fn dcast1(c: &[f64], t: f64) -> f64 {
    let n = (c.len() - 1) as f64;
    let d: Vec<f64> = c.windows(2).map(|w| n * (w[1] - w[0])).collect();
    cast1(&d, t)
}

/// candidate parameters in [0,1] where the coordinate can be extremal: ends + derivative roots (f64)
fn crit1(c: &[f64]) -> Vec<f64> {
    let mut ts = vec![0.0, 1.0];
    let mut push = |t: f64| {
        if t.is_finite() {
            ts.push(t.max(0.0).min(1.0));
        }
    };
    match c.len() {
        3 => {
            let div = c[0] - 2.0 * c[1] + c[2];
            if div != 0.0 {
                push((c[0] - c[1]) / div);
            }
        }
        4 => {
            // derivative / 3 = A t^2 + B t + C
            let a = c[3] - 3.0 * c[2] + 3.0 * c[1] - c[0];
            let b = 2.0 * (c[2] - 2.0 * c[1] + c[0]);
            let cc = c[1] - c[0];
            if a == 0.0 {
                if b != 0.0 {
                    push(-cc / b);
                }
            } else {
                let d = b * b - 4.0 * a * cc;
                if d >= 0.0 {
                    let s = d.sqrt();
                    let q = -0.5 * (b + if b >= 0.0 { s } else { -s });
                    push(q / a);
                    if q != 0.0 {
                        push(cc / q);
                    }
                } else {
                    // numerically negative discriminant: the vertex is the closest thing to a root
                    push(-b / (2.0 * a));
                }
            }
        }
        _ => {}
    }
    ts
}

/// (min, max) of a Bézier coordinate over [0,1]: analytic candidates and a dense sampling
fn range1(c: &[f64]) -> (f64, f64) {
    let mut lo = f64::INFINITY;
    let mut hi = f64::NEG_INFINITY;
    for t in crit1(c) {
        let v = cast1(c, t);
        lo = lo.min(v);
        hi = hi.max(v);
    }
    for i in 0..=NS {
        let v = cast1(c, i as f64 / NS as f64);
        lo = lo.min(v);
        hi = hi.max(v);
    }
    (lo, hi)
}

/// Witness predicate of finding C11-cubic-extremum-cancellation, for one coordinate of a cubic:
/// the derivative's quadratic coefficient `a` (computed as lyon computes it, in `S`) is non-zero
/// but so small that `-b ± sqrt(b² - 4ac)` cancels (`|4ac| <= b²/64`: at least 6 bits are lost).
fn cancels1<S: Fl>(p0: S, p1: S, p2: S, p3: S) -> bool {
    let three = S::of(3.0);
    let a = three * (p3 + three * (p1 - p2) - p0);
    let b = S::of(6.0) * (p2 - S::of(2.0) * p1 + p0);
    let c = three * (p1 - p0);
    a.f() != 0.0 && (4.0 * a.f() * c.f()).abs() <= b.f() * b.f() / 64.0
}
fn cancels<S: Fl>(c: &[Point<S>]) -> bool {
    c.len() == 4 && (cancels1(c[0].x, c[1].x, c[2].x, c[3].x) || cancels1(c[0].y, c[1].y, c[2].y, c[3].y))
}

fn xs<S: Fl>(p: &[Point<S>]) -> Vec<f64> {
    p.iter().map(|q| q.x.f()).collect()
}
fn ys<S: Fl>(p: &[Point<S>]) -> Vec<f64> {
    p.iter().map(|q| q.y.f()).collect()
}

fn put_box<S: Fl>(o: &mut Out, b: &Box2D<S>) {
    o.p(b.min).p(b.max);
}
fn put_r<S: Fl>(o: &mut Out, r: (S, S)) {
    o.f(r.0).f(r.1);
}
fn put_list<S: Fl>(o: &mut Out, l: &[S]) {
    o.u(l.len() as u64);
    for x in l {
        o.f(*x);
    }
}
fn put_ranges<S: Fl>(o: &mut Out, l: &[std::ops::Range<S>]) {
    o.u(l.len() as u64);
    for r in l {
        o.f(r.start).f(r.end);
    }
}

// ---------------------------------------------------------------------------------------------
// oracle pieces shared by quadratic and cubic segments

struct BezObs<S: Fl> {
    name: &'static str,
    ctrl: Vec<Point<S>>,
    bbox: Box2D<S>,
    fast: Box2D<S>,
    /// (x_min_t, x_max_t, y_min_t, y_max_t)
    ext_t: [S; 4],
    /// local extrema parameters, x then y
    lx: Vec<S>,
    ly: Vec<S>,
    is_x_mono: bool,
    is_y_mono: bool,
    ranges: Vec<std::ops::Range<S>>,
    pieces: Vec<Vec<Point<S>>>,
    xranges: Vec<std::ops::Range<S>>,
    xpieces: Vec<Vec<Point<S>>>,
    yranges: Vec<std::ops::Range<S>>,
    ypieces: Vec<Vec<Point<S>>>,
    /// `split_range` of each of the three range lists (before the clamp), cubics only
    unclamped: Option<[Vec<Vec<Point<S>>>; 3]>,
}

/// +1 / -1 / 0: direction in which `v` is monotone up to `env`, or None if it is not
fn monotone_dir(v: &[f64], env: f64) -> Option<i32> {
    let up = v.windows(2).all(|w| w[1] >= w[0] - env);
    let down = v.windows(2).all(|w| w[1] <= w[0] + env);
    if up && down {
        Some(0)
    } else if up {
        Some(1)
    } else if down {
        Some(-1)
    } else {
        None
    }
}

fn check_partition<S: Fl>(orc: &mut Oracle, clause: &str, r: &[std::ops::Range<S>]) {
    let ok = !r.is_empty()
        && r[0].start.f() == 0.0
        && r[r.len() - 1].end.f() == 1.0
        && r.windows(2).all(|w| w[0].end.f() == w[1].start.f())
        && r.iter().all(|x| x.start.f() < x.end.f());
    orc.check(ok, clause, "generic", || format!("ranges={:?}", r.iter().map(|x| (x.start.f(), x.end.f())).collect::<Vec<_>>()));
}

/// pieces retrace the curve over their ranges and are monotone in the chosen coordinates.
/// `unclamped`: the sub-curves before lyon's control-point clamp (cubics); when the clamp moved a
/// control point by more than the envelope the failure gets the class `clamp-moved-ctrl`
/// (finding C11-cubic-monotonic-clamp).
fn check_pieces<S: Fl>(
    orc: &mut Oracle,
    name: &str,
    what: &str,
    ctrl: &[Point<S>],
    ranges: &[std::ops::Range<S>],
    pieces: &[Vec<Point<S>>],
    unclamped: Option<&[Vec<Point<S>>]>,
    want_x: bool,
    want_y: bool,
    env: f64,
) {
    orc.check(ranges.len() == pieces.len(), &format!("{}.{}/count", name, what), "generic", || {
        format!("{} ranges, {} pieces", ranges.len(), pieces.len())
    });
    if ranges.len() != pieces.len() {
        return;
    }
    let (cx, cy) = (xs(ctrl), ys(ctrl));
    for (k, (r, p)) in ranges.iter().zip(pieces).enumerate() {
        let (px, py) = (xs(p), ys(p));
        let us: Vec<f64> = (0..=16).map(|i| i as f64 / 16.0).collect();
        let vx: Vec<f64> = us.iter().map(|u| cast1(&px, *u)).collect();
        let vy: Vec<f64> = us.iter().map(|u| cast1(&py, *u)).collect();
        // retrace: piece(u) = curve(start + (end-start) u)
        let (a, b) = (r.start.f(), r.end.f());
        let mut worst = 0.0f64;
        for (k, u) in us.iter().enumerate() {
            let t = a + (b - a) * u;
            let e = (vx[k] - cast1(&cx, t)).abs().max((vy[k] - cast1(&cy, t)).abs());
            worst = worst.max(e);
        }
        let moved = match unclamped {
            Some(u) if u.len() == pieces.len() => {
                u[k].iter().zip(p).map(|(x, y)| (x.x.f() - y.x.f()).abs().max((x.y.f() - y.y.f()).abs())).fold(0.0, f64::max)
            }
            _ => 0.0,
        };
        let class = if moved > env { "clamp-moved-ctrl" } else { "generic" };
        orc.check(worst <= env, &format!("{}.{}/retrace", name, what), class, || {
            format!("range=({},{}) piece deviates from the curve by {:e} (env {:e}); clamp moved a control point by {:e}", a, b, worst, env, moved)
        });
        if want_x {
            orc.check(monotone_dir(&vx, env).is_some(), &format!("{}.{}/x-monotone", name, what), "generic", || {
                format!("range=({},{}) x samples={:?}", r.start.f(), r.end.f(), vx)
            });
        }
        if want_y {
            orc.check(monotone_dir(&vy, env).is_some(), &format!("{}.{}/y-monotone", name, what), "generic", || {
                format!("range=({},{}) y samples={:?}", r.start.f(), r.end.f(), vy)
            });
        }
    }
}

fn bezier_oracle<S: Fl>(ob: &BezObs<S>, orc: &mut Oracle) {
    let name = ob.name;
    let m = maxabs(&ob.ctrl).max(1e-30);
    let env = 64.0 * S::EPS * m;
    let (cx, cy) = (xs(&ob.ctrl), ys(&ob.ctrl));
    let cl = |c: &str| format!("{}.{}", name, c);
    let (bx0, bx1, by0, by1) = (ob.bbox.min.x.f(), ob.bbox.max.x.f(), ob.bbox.min.y.f(), ob.bbox.max.y.f());

    // class of finding C11-cubic-extremum-cancellation (cubics only)
    let cancel_class = if cancels(&ob.ctrl) { "deriv-cancellation" } else { "generic" };
    // 0. (first, so that a wrong or missing root is reported as such) the reported local extrema
    //    are the interior critical points: each lies in (0,1) and the derivative vanishes there up
    //    to rounding; they come in increasing order; and between two sample points where the
    //    derivative is significantly positive resp. negative a parameter is reported.
    let denv = 64.0 * env;
    for (l, c, ax) in [(&ob.lx, &cx, "x"), (&ob.ly, &cy, "y")] {
        let clause = cl("local_extremum_t/critical-points");
        for t in l.iter() {
            let t = t.f();
            let d = if t > 0.0 && t < 1.0 { dcast1(c, t) } else { f64::NAN };
            orc.check(d.abs() <= denv, &clause, cancel_class, || {
                format!("{} reported t={} (must be in (0,1)): derivative there={:e}, allowance {:e}", ax, t, d, denv)
            });
        }
        orc.check(l.windows(2).all(|w| w[0].f() <= w[1].f()), &clause, cancel_class, || format!("{} not in increasing order {:?}", ax, l));
        let mut last: Option<(f64, f64)> = None; // last significant sample (t, f'(t))
        for i in 0..=NS {
            let t = i as f64 / NS as f64;
            let d = dcast1(c, t);
            if d.abs() <= denv {
                continue;
            }
            if let Some((t0, d0)) = last {
                if d0 * d < 0.0 {
                    let found = l.iter().any(|r| r.f() >= t0 && r.f() <= t);
                    orc.check(found, &clause, cancel_class, || {
                        format!("{}' changes sign between t={} ({:e}) and t={} ({:e}) but no extremum is reported there; reported {:?}", ax, t0, d0, t, d, l)
                    });
                }
            }
            last = Some((t, d));
        }
    }
    // 1. the exact box contains every sample and the analytic extremes of both coordinates
    let (rx, ry) = (range1(&cx), range1(&cy));
    let mut worst = (bx0 - rx.0).max(rx.1 - bx1).max(by0 - ry.0).max(ry.1 - by1);
    let mut worst_t = -1.0;
    for i in 0..=NS {
        let t = i as f64 / NS as f64;
        let (x, y) = (cast1(&cx, t), cast1(&cy, t));
        let e = (bx0 - x).max(x - bx1).max(by0 - y).max(y - by1);
        if e > worst {
            worst = e;
            worst_t = t;
        }
    }
    orc.check(worst <= env, &cl("bounding_box/contains"), cancel_class, || {
        format!("curve leaves the box by {:e} (env {:e}; sample t={}, -1 = analytic extreme) box=({},{})-({},{}) true extent x=[{},{}] y=[{},{}]", worst, env, worst_t, bx0, by0, bx1, by1, rx.0, rx.1, ry.0, ry.1)
    });

    // 2. all four sides are touched: no side lies beyond the true extreme of its coordinate
    let e = (rx.0 - bx0).max(bx1 - rx.1).max(ry.0 - by0).max(by1 - ry.1);
    orc.check(e <= env, &cl("bounding_box/tight"), "generic", || {
        format!("box=({},{})-({},{}) reference x=[{},{}] y=[{},{}] excess={:e} env={:e}", bx0, by0, bx1, by1, rx.0, rx.1, ry.0, ry.1, e, env)
    });

    // 3. fast box contains the exact box (and so the curve)
    let (fx0, fx1, fy0, fy1) = (ob.fast.min.x.f(), ob.fast.max.x.f(), ob.fast.min.y.f(), ob.fast.max.y.f());
    let e = (fx0 - bx0).max(bx1 - fx1).max(fy0 - by0).max(by1 - fy1);
    orc.check(e <= env, &cl("fast_bounding_box/contains-exact"), "generic", || {
        format!("fast=({},{})-({},{}) exact=({},{})-({},{}) by {:e}", fx0, fy0, fx1, fy1, bx0, by0, bx1, by1, e)
    });
    let e = (fx0 - rx.0).max(rx.1 - fx1).max(fy0 - ry.0).max(ry.1 - fy1);
    orc.check(e <= env, &cl("fast_bounding_box/contains-curve"), "generic", || format!("by {:e}", e));

    // 4. extremum parameters lie in [0,1] and are where the coordinate is extremal
    let t = ob.ext_t.map(|t| t.f());
    orc.check(t.iter().all(|t| (0.0..=1.0).contains(t)), &cl("extremum_t/in-unit-range"), "generic", || format!("t={:?}", t));
    if t.iter().all(|t| (0.0..=1.0).contains(t)) {
        let e = (cast1(&cx, t[0]) - rx.0)
            .abs()
            .max((cast1(&cx, t[1]) - rx.1).abs())
            .max((cast1(&cy, t[2]) - ry.0).abs())
            .max((cast1(&cy, t[3]) - ry.1).abs());
        orc.check(e <= env, &cl("extremum_t/extremal"), "generic", || {
            format!("t={:?} values x=({},{}) y=({},{}) reference x=[{},{}] y=[{},{}]", t, cast1(&cx, t[0]), cast1(&cx, t[1]), cast1(&cy, t[2]), cast1(&cy, t[3]), rx.0, rx.1, ry.0, ry.1)
        });
    }

    // 6. is_*_monotonic: claimed monotone => samples monotone
    let sx: Vec<f64> = (0..=NS).map(|i| cast1(&cx, i as f64 / NS as f64)).collect();
    let sy: Vec<f64> = (0..=NS).map(|i| cast1(&cy, i as f64 / NS as f64)).collect();
    if ob.is_x_mono {
        orc.check(monotone_dir(&sx, env).is_some(), &cl("is_x_monotonic/sound"), "generic", || "x not monotone".to_string());
    }
    if ob.is_y_mono {
        orc.check(monotone_dir(&sy, env).is_some(), &cl("is_y_monotonic/sound"), "generic", || "y not monotone".to_string());
    }

    // 7. monotone ranges partition [0,1]; pieces are monotone and retrace the curve
    check_partition(orc, &cl("for_each_monotonic_range/partition"), &ob.ranges);
    check_partition(orc, &cl("for_each_x_monotonic_range/partition"), &ob.xranges);
    check_partition(orc, &cl("for_each_y_monotonic_range/partition"), &ob.yranges);
    let un = |i: usize| ob.unclamped.as_ref().map(|u| &u[i][..]);
    check_pieces(orc, name, "for_each_monotonic", &ob.ctrl, &ob.ranges, &ob.pieces, un(0), true, true, env);
    check_pieces(orc, name, "for_each_x_monotonic", &ob.ctrl, &ob.xranges, &ob.xpieces, un(1), true, false, env);
    check_pieces(orc, name, "for_each_y_monotonic", &ob.ctrl, &ob.yranges, &ob.ypieces, un(2), false, true, env);
}

// ---------------------------------------------------------------------------------------------
// generators

/// control points with extra structure on top of `Gen::points`: sometimes y is an affine function
/// of x (x- and y- extrema coincide), sometimes the derivative degenerates.
fn gen_ctrl<S: Fl>(g: Gen, rng: &mut Rng, n: usize) -> (Vec<Point<S>>, &'static str) {
    let mut v: Vec<Point<S>> = g.points(rng, n);
    let lat = g == Gen::Lattice || g == Gen::Degenerate;
    let mut kind = "plain";
    match rng.below(12) {
        0 => {
            // y = k x + d
            let k = S::of(rng.range(-3, 3) as f64 / 2.0);
            let d = S::of(rng.range(-8, 8) as f64);
            for p in v.iter_mut() {
                p.y = p.x * k + d;
            }
            kind = "affine-xy";
        }
        1 if lat && n == 3 => {
            // linear derivative in x: ctrl.x is the midpoint
            v[1].x = (v[0].x + v[2].x) * S::of(0.5);
            kind = "x-linear";
        }
        2 if lat && n == 4 => {
            // quadratic coefficient of x' vanishes: p3 = p0 - 3 (p1 - p2)
            v[3].x = v[0].x - S::of(3.0) * (v[1].x - v[2].x);
            kind = "x-deriv-linear";
        }
        3 if lat && n == 4 => {
            // x' has a double root: p0, p1, p2, p3 = a, a+d, a, a+d? use x(t) with derivative (t - r)^2
            // control values of the integral of 3 (t - r)^2 with r = k/4: p1 - p0 = r^2, p2 - p1 = r^2 - r, p3 - p2 = (1-r)^2
            let r = rng.range(1, 3) as f64 / 4.0;
            let s = rng.range(1, 8) as f64 * 16.0;
            let a = v[0].x.f();
            v[1].x = S::of(a + s * r * r);
            v[2].x = S::of(a + s * (2.0 * r * r - r));
            v[3].x = S::of(a + s * (2.0 * r * r - r + (1.0 - r) * (1.0 - r)));
            kind = "x-double-root";
        }
        5 | 6 if n == 4 => {
            // a quadratic raised to a cubic by lyon's own `to_cubic` (x' and y' are then linear up
            // to rounding), half of the time mapped by a similarity as `fit_path` would do
            let q = QuadraticBezierSegment { from: v[0], ctrl: v[1], to: v[2] };
            let mut c = q.to_cubic();
            if rng.chance(1, 2) {
                let k = S::of(rng.uniform(0.3, 3.0));
                let (dx, dy) = (S::of(rng.uniform(-10.0, 10.0)), S::of(rng.uniform(-10.0, 10.0)));
                let m = |p: Point<S>| point(p.x * k + dx, p.y * k + dy);
                c = CubicBezierSegment { from: m(c.from), ctrl1: m(c.ctrl1), ctrl2: m(c.ctrl2), to: m(c.to) };
            }
            v = vec![c.from, c.ctrl1, c.ctrl2, c.to];
            kind = "elevated-quad";
        }
        4 if n == 4 => {
            // S-shaped: two extrema inside
            let a = v[0];
            let w = S::of(rng.uniform(1.0, 50.0));
            v[1] = point(a.x + w * S::of(3.0), a.y + w);
            v[2] = point(a.x - w * S::of(2.0), a.y + w * S::of(2.0));
            v[3] = point(a.x + w, a.y + w * S::of(3.0));
            kind = "s-shape";
        }
        _ => {}
    }
    (v, kind)
}

// ---------------------------------------------------------------------------------------------
// families

fn seg_case<S: Fl>(ctx: &mut Ctx) {
    ctx.case(&format!("seg:{}", S::BITS), |rng| {
        let g = Gen::pick(rng);
        let pts: Vec<Point<S>> = g.points(rng, 2);
        let s = LineSegment { from: pts[0], to: pts[1] };
        let mut args = Out::new();
        args.p(s.from).p(s.to);
        let tag = format!("seg {} {}{}", S::BITS, g.name(), if s.from == s.to { " trivial" } else { "" });
        (args, tag, move || {
            let mut o = Out::new();
            o.t("box");
            put_box(&mut o, &s.bounding_box());
            let mut orc = Oracle::new();
            let b = s.bounding_box();
            let (x0, x1) = (s.from.x.f().min(s.to.x.f()), s.from.x.f().max(s.to.x.f()));
            let (y0, y1) = (s.from.y.f().min(s.to.y.f()), s.from.y.f().max(s.to.y.f()));
            let ok = b.min.x.f() == x0 && b.max.x.f() == x1 && b.min.y.f() == y0 && b.max.y.f() == y1;
            orc.check(ok, "seg.bounding_box/tight", "generic", || format!("box={:?}", b));
            let env = 8.0 * S::EPS * maxabs(&pts);
            let mut worst = 0.0f64;
            for i in 0..=16 {
                let p = s.sample(S::of(i as f64 / 16.0));
                worst = worst.max((x0 - p.x.f()).max(p.x.f() - x1).max(y0 - p.y.f()).max(p.y.f() - y1));
            }
            orc.check(worst <= env, "seg.bounding_box/contains", "generic", || format!("by {:e}", worst));
            CaseOut { imp: o, orcl: orc.verdict }
        })
    });
}

fn tri_case<S: Fl>(ctx: &mut Ctx) {
    ctx.case(&format!("tri:{}", S::BITS), |rng| {
        let g = Gen::pick(rng);
        let pts: Vec<Point<S>> = g.points(rng, 3);
        let t = Triangle { a: pts[0], b: pts[1], c: pts[2] };
        let mut args = Out::new();
        args.p(t.a).p(t.b).p(t.c);
        let tag = format!("tri {} {}", S::BITS, g.name());
        (args, tag, move || {
            let mut o = Out::new();
            o.t("box");
            put_box(&mut o, &t.bounding_box());
            o.t("rx");
            put_r(&mut o, t.bounding_range_x());
            o.t("ry");
            put_r(&mut o, t.bounding_range_y());
            let mut orc = Oracle::new();
            let b = t.bounding_box();
            let (cx, cy) = (xs(&pts), ys(&pts));
            let mn = |v: &[f64]| v.iter().cloned().fold(f64::INFINITY, f64::min);
            let mx = |v: &[f64]| v.iter().cloned().fold(f64::NEG_INFINITY, f64::max);
            let ok = b.min.x.f() == mn(&cx) && b.max.x.f() == mx(&cx) && b.min.y.f() == mn(&cy) && b.max.y.f() == mx(&cy);
            orc.check(ok, "tri.bounding_box/tight", "generic", || format!("box={:?}", b));
            CaseOut { imp: o, orcl: orc.verdict }
        })
    });
}

fn put_pts<S: Fl>(o: &mut Out, v: &[Point<S>]) {
    for p in v {
        o.p(*p);
    }
}

fn quad_case<S: Fl>(ctx: &mut Ctx) {
    ctx.case(&format!("quad:{}", S::BITS), |rng| {
        let g = Gen::pick(rng);
        let (pts, kind) = gen_ctrl::<S>(g, rng, 3);
        let s = QuadraticBezierSegment { from: pts[0], ctrl: pts[1], to: pts[2] };
        let mut args = Out::new();
        put_pts(&mut args, &pts);
        let tag = format!(
            "quad {} {} {} ext={}{}",
            S::BITS,
            g.name(),
            kind,
            s.local_x_extremum_t().is_some() as u8,
            s.local_y_extremum_t().is_some() as u8
        );
        (args, tag, move || {
            let q = |s: &QuadraticBezierSegment<S>| vec![s.from, s.ctrl, s.to];
            let mut ranges = Vec::new();
            s.for_each_monotonic_range(&mut |r| ranges.push(r));
            let mut pieces = Vec::new();
            s.for_each_monotonic(&mut |p| pieces.push(q(p)));
            let mut xranges = Vec::new();
            s.for_each_x_monotonic_range(&mut |r| xranges.push(r));
            let mut xpieces = Vec::new();
            s.for_each_x_monotonic(&mut |p| xpieces.push(q(p)));
            let mut yranges = Vec::new();
            s.for_each_y_monotonic_range(&mut |r| yranges.push(r));
            let mut ypieces = Vec::new();
            s.for_each_y_monotonic(&mut |p| ypieces.push(q(p)));
            let ob = BezObs {
                name: "quad",
                ctrl: pts.clone(),
                bbox: s.bounding_box(),
                fast: s.fast_bounding_box(),
                ext_t: [s.x_minimum_t(), s.x_maximum_t(), s.y_minimum_t(), s.y_maximum_t()],
                lx: s.local_x_extremum_t().into_iter().collect(),
                ly: s.local_y_extremum_t().into_iter().collect(),
                is_x_mono: s.is_x_monotonic(),
                is_y_mono: s.is_y_monotonic(),
                ranges,
                pieces,
                xranges,
                xpieces,
                yranges,
                ypieces,
                unclamped: None,
            };
            let mut o = Out::new();
            o.t("lext").opt_f(s.local_x_extremum_t()).opt_f(s.local_y_extremum_t());
            o.t("ext_t").f(ob.ext_t[0]).f(ob.ext_t[1]).f(ob.ext_t[2]).f(ob.ext_t[3]);
            o.t("range");
            put_r(&mut o, s.bounding_range_x());
            put_r(&mut o, s.bounding_range_y());
            o.t("fast");
            put_r(&mut o, s.fast_bounding_range_x());
            put_r(&mut o, s.fast_bounding_range_y());
            o.t("box");
            put_box(&mut o, &ob.bbox);
            o.t("fbox");
            put_box(&mut o, &ob.fast);
            o.t("mono").b(ob.is_x_mono).b(ob.is_y_mono).b(s.is_monotonic());
            emit_splits(&mut o, &ob);
            let mut orc = Oracle::new();
            bezier_oracle(&ob, &mut orc);
            orc.check(s.is_monotonic() == (ob.is_x_mono && ob.is_y_mono), "quad.is_monotonic/conj", "generic", || String::new());
            CaseOut { imp: o, orcl: orc.verdict }
        })
    });
}

fn emit_splits<S: Fl>(o: &mut Out, ob: &BezObs<S>) {
    o.t("ranges");
    put_ranges(o, &ob.ranges);
    o.t("pieces").u(ob.pieces.len() as u64);
    for p in &ob.pieces {
        put_pts(o, p);
    }
    o.t("xranges");
    put_ranges(o, &ob.xranges);
    o.t("xpieces").u(ob.xpieces.len() as u64);
    for p in &ob.xpieces {
        put_pts(o, p);
    }
    o.t("yranges");
    put_ranges(o, &ob.yranges);
    o.t("ypieces").u(ob.ypieces.len() as u64);
    for p in &ob.ypieces {
        put_pts(o, p);
    }
}

fn cubic_case<S: Fl>(ctx: &mut Ctx) {
    ctx.case(&format!("cubic:{}", S::BITS), |rng| {
        let g = Gen::pick(rng);
        let (pts, kind) = gen_ctrl::<S>(g, rng, 4);
        let s = CubicBezierSegment { from: pts[0], ctrl1: pts[1], ctrl2: pts[2], to: pts[3] };
        let mut args = Out::new();
        put_pts(&mut args, &pts);
        let mut nx = 0;
        s.for_each_local_x_extremum_t(&mut |_| nx += 1);
        let mut ny = 0;
        s.for_each_local_y_extremum_t(&mut |_| ny += 1);
        let tag = format!("cubic {} {} {} ext={}{}{}", S::BITS, g.name(), kind, nx, ny, if cancels(&pts) { " cancel" } else { "" });
        (args, tag, move || {
            let q = |s: &CubicBezierSegment<S>| vec![s.from, s.ctrl1, s.ctrl2, s.to];
            let mut lx = Vec::new();
            s.for_each_local_x_extremum_t(&mut |t| lx.push(t));
            let mut ly = Vec::new();
            s.for_each_local_y_extremum_t(&mut |t| ly.push(t));
            let mut ranges = Vec::new();
            s.for_each_monotonic_range(&mut |r| ranges.push(r));
            let mut pieces = Vec::new();
            s.for_each_monotonic(&mut |p| pieces.push(q(p)));
            let mut xranges = Vec::new();
            s.for_each_x_monotonic_range(&mut |r| xranges.push(r));
            let mut xpieces = Vec::new();
            s.for_each_x_monotonic(&mut |p| xpieces.push(q(p)));
            let mut yranges = Vec::new();
            s.for_each_y_monotonic_range(&mut |r| yranges.push(r));
            let mut ypieces = Vec::new();
            s.for_each_y_monotonic(&mut |p| ypieces.push(q(p)));
            let un = |rs: &Vec<std::ops::Range<S>>| rs.iter().map(|r| q(&s.split_range(r.clone()))).collect::<Vec<_>>();
            let unclamped = Some([un(&ranges), un(&xranges), un(&yranges)]);
            let ob = BezObs {
                name: "cubic",
                ctrl: pts.clone(),
                bbox: s.bounding_box(),
                fast: s.fast_bounding_box(),
                ext_t: [s.x_minimum_t(), s.x_maximum_t(), s.y_minimum_t(), s.y_maximum_t()],
                lx,
                ly,
                is_x_mono: s.is_x_monotonic(),
                is_y_mono: s.is_y_monotonic(),
                ranges,
                pieces,
                xranges,
                xpieces,
                yranges,
                ypieces,
                unclamped,
            };
            let mut o = Out::new();
            o.t("lext");
            put_list(&mut o, &ob.lx);
            put_list(&mut o, &ob.ly);
            o.t("ext_t").f(ob.ext_t[0]).f(ob.ext_t[1]).f(ob.ext_t[2]).f(ob.ext_t[3]);
            o.t("range");
            put_r(&mut o, s.bounding_range_x());
            put_r(&mut o, s.bounding_range_y());
            o.t("fast");
            put_r(&mut o, s.fast_bounding_range_x());
            put_r(&mut o, s.fast_bounding_range_y());
            o.t("box");
            put_box(&mut o, &ob.bbox);
            o.t("fbox");
            put_box(&mut o, &ob.fast);
            o.t("mono").b(ob.is_x_mono).b(ob.is_y_mono).b(s.is_monotonic());
            emit_splits(&mut o, &ob);
            let mut orc = Oracle::new();
            bezier_oracle(&ob, &mut orc);
            orc.check(s.is_monotonic() == (ob.is_x_mono && ob.is_y_mono), "cubic.is_monotonic/conj", "generic", || String::new());
            CaseOut { imp: o, orcl: orc.verdict }
        })
    });
}

// ---------------------------------------------------------------------------------------------
// arcs

fn ellipse64<S: Fl>(a: &Arc<S>, t: f64) -> (f64, f64) {
    let ang = a.start_angle.radians.f() + a.sweep_angle.radians.f() * t;
    let (ex, ey) = (a.radii.x.f() * ang.cos(), a.radii.y.f() * ang.sin());
    let (s, c) = a.x_rotation.radians.f().sin_cos();
    (a.center.x.f() + ex * c - ey * s, a.center.y.f() + ey * c + ex * s)
}

/// d/dθ of the ellipse point at parameter t
fn ellipse_tangent64<S: Fl>(a: &Arc<S>, t: f64) -> (f64, f64) {
    let ang = a.start_angle.radians.f() + a.sweep_angle.radians.f() * t;
    let (ex, ey) = (-a.radii.x.f() * ang.sin(), a.radii.y.f() * ang.cos());
    let (s, c) = a.x_rotation.radians.f().sin_cos();
    (ex * c - ey * s, ey * c + ex * s)
}

fn arc_case<S: Fl>(ctx: &mut Ctx) {
    ctx.case(&format!("arc:{}", S::BITS), |rng| {
        let g = Gen::pick(rng);
        let lat = g == Gen::Lattice || g == Gen::Degenerate;
        let center: Point<S> = if rng.chance(1, 4) { point(S::of(0.0), S::of(0.0)) } else { g.point(rng) };
        let radii: Vector<S> = if rng.chance(1, 4) {
            let r = S::of(g.coord(rng).abs() + 0.25);
            vector(r, r)
        } else {
            vector(S::of(g.coord(rng).abs() + 0.25), S::of(g.coord(rng).abs() + 0.25))
        };
        let ang = |rng: &mut Rng| -> S {
            if lat {
                S::of(rng.range(-28, 28) as f64 / 4.0)
            } else {
                S::of(rng.uniform(-7.0, 7.0))
            }
        };
        let start = ang(rng);
        let sweep = match rng.below(8) {
            0 if g == Gen::Degenerate => S::of(0.0),
            1 => S::of(if rng.chance(1, 2) { 1.0 } else { -1.0 } * 2.0 * std::f64::consts::PI),
            2 => S::of(rng.uniform(-0.3, 0.3)),
            _ => ang(rng),
        };
        let xrot = match rng.below(6) {
            0 | 1 => S::of(0.0),
            2 => S::of(rng.range(-4, 4) as f64 * std::f64::consts::FRAC_PI_2),
            _ => ang(rng),
        };
        let a = Arc { center, radii, start_angle: Angle::radians(start), sweep_angle: Angle::radians(sweep), x_rotation: Angle::radians(xrot) };
        let mut args = Out::new();
        args.p(a.center).v(a.radii).f(start).f(sweep).f(xrot);
        let neg = sweep.f() < 0.0;
        let off = xrot.f() != 0.0 && (center.x.f() != 0.0 || center.y.f() != 0.0);
        let tag = format!(
            "arc {} {} sweep={} rot={} centre={}{}",
            S::BITS,
            g.name(),
            if neg { "neg" } else if sweep.f() == 0.0 { "zero" } else { "pos" },
            if xrot.f() == 0.0 { "0" } else { "rot" },
            if center.x.f() == 0.0 && center.y.f() == 0.0 { "origin" } else { "off" },
            if sweep.f() == 0.0 { " trivial" } else { "" }
        );
        (args, tag, move || {
            let mut lx = Vec::new();
            a.for_each_local_x_extremum_t(&mut |t| lx.push(t));
            let mut ly = Vec::new();
            a.for_each_local_y_extremum_t(&mut |t| ly.push(t));
            let b = a.bounding_box();
            let f = a.fast_bounding_box();
            let mut o = Out::new();
            o.t("lext");
            put_list(&mut o, &lx);
            put_list(&mut o, &ly);
            o.t("box");
            put_box(&mut o, &b);
            o.t("fbox");
            put_box(&mut o, &f);
            o.t("range");
            put_r(&mut o, a.bounding_range_x());
            put_r(&mut o, a.bounding_range_y());
            o.t("fast");
            put_r(&mut o, a.fast_bounding_range_x());
            put_r(&mut o, a.fast_bounding_range_y());

            let mut orc = Oracle::new();
            let rmax = a.radii.x.f().max(a.radii.y.f());
            let m = a.center.x.f().abs().max(a.center.y.f().abs()).max(rmax);
            let angmag = 1.0 + start.f().abs() + sweep.f().abs() + xrot.f().abs();
            let env = 64.0 * S::EPS * (m + rmax * angmag);
            // witness classes of the two known defects
            let sweep_class = if neg { "negative-sweep" } else { "generic" };
            let fast_class = if off { "rotated-off-origin" } else { "generic" };
            const NA: usize = 720;
            let samples: Vec<(f64, f64)> = (0..=NA).map(|i| ellipse64(&a, i as f64 / NA as f64)).collect();
            let (bx0, bx1, by0, by1) = (b.min.x.f(), b.max.x.f(), b.min.y.f(), b.max.y.f());

            // 1. every reported extremum parameter lies in [0,1] and is a critical point of its coordinate
            for (l, ax) in [(&lx, 0), (&ly, 1)] {
                for t in l.iter() {
                    let t = t.f();
                    let d = ellipse_tangent64(&a, t);
                    let d = if ax == 0 { d.0 } else { d.1 };
                    let ok = (0.0..=1.0).contains(&t) && d.abs() <= env.max(1e-6 * rmax);
                    orc.check(ok, "arc.local_extremum_t/is-extremum", sweep_class, || {
                        format!("{} t={} (must be in [0,1]) tangent component there={:e} (env {:e}) sweep={}", ["x", "y"][ax], t, d, env, sweep.f())
                    });
                }
            }
            // 2. the exact box contains every point of the arc
            let mut worst = 0.0f64;
            let mut wi = 0;
            for (i, (x, y)) in samples.iter().enumerate() {
                let e = (bx0 - x).max(x - bx1).max(by0 - y).max(y - by1);
                if e > worst {
                    worst = e;
                    wi = i;
                }
            }
            orc.check(worst <= env, "arc.bounding_box/contains", "generic", || {
                format!("sample t={} outside by {:e} (env {:e}) box=({},{})-({},{}) sweep={}", wi as f64 / NA as f64, worst, env, bx0, by0, bx1, by1, sweep.f())
            });
            // 3. all four sides are touched (sampling slack: r (dθ)^2 / 8)
            let dth = sweep.f().abs() / NA as f64;
            let slack = rmax * dth * dth / 8.0 + env;
            let mn = |f: &dyn Fn(&(f64, f64)) -> f64| samples.iter().map(f).fold(f64::INFINITY, f64::min);
            let mx = |f: &dyn Fn(&(f64, f64)) -> f64| samples.iter().map(f).fold(f64::NEG_INFINITY, f64::max);
            let (sx0, sx1, sy0, sy1) = (mn(&|p| p.0), mx(&|p| p.0), mn(&|p| p.1), mx(&|p| p.1));
            let e = (sx0 - bx0).max(bx1 - sx1).max(sy0 - by0).max(by1 - sy1);
            orc.check(e <= slack, "arc.bounding_box/tight", "generic", || {
                format!("box=({},{})-({},{}) arc extent x=[{},{}] y=[{},{}] excess {:e} slack {:e}", bx0, by0, bx1, by1, sx0, sx1, sy0, sy1, e, slack)
            });
            // 4. the fast box contains the arc, and the exact box
            let (fx0, fx1, fy0, fy1) = (f.min.x.f(), f.max.x.f(), f.min.y.f(), f.max.y.f());
            let e = (fx0 - sx0).max(sx1 - fx1).max(fy0 - sy0).max(sy1 - fy1);
            orc.check(e <= env, "arc.fast_bounding_box/contains-curve", fast_class, || {
                format!("fast=({},{})-({},{}) arc extent x=[{},{}] y=[{},{}] outside by {:e}", fx0, fy0, fx1, fy1, sx0, sx1, sy0, sy1, e)
            });
            if !neg {
                let e = (fx0 - bx0).max(bx1 - fx1).max(fy0 - by0).max(by1 - fy1);
                orc.check(e <= slack, "arc.fast_bounding_box/contains-exact", "generic", || format!("outside by {:e}", e));
            }
            CaseOut { imp: o, orcl: orc.verdict }
        })
    });
}

// ---------------------------------------------------------------------------------------------
// paths

#[derive(Clone, Debug)]
enum Ev {
    B(Point<f32>),
    L(Point<f32>),
    Q(Point<f32>, Point<f32>),
    C(Point<f32>, Point<f32>, Point<f32>),
    E(bool),
}

fn gen_path(g: Gen, rng: &mut Rng) -> Vec<Ev> {
    let mut evs = Vec::new();
    let nsub = match rng.below(10) {
        0 => 0,
        1..=6 => 1,
        _ => rng.range(2, 3) as usize,
    };
    for _ in 0..nsub {
        evs.push(Ev::B(g.point(rng)));
        let nseg = rng.below(6);
        for _ in 0..nseg {
            match rng.below(3) {
                0 => evs.push(Ev::L(g.point(rng))),
                1 => evs.push(Ev::Q(g.point(rng), g.point(rng))),
                _ => evs.push(Ev::C(g.point(rng), g.point(rng), g.point(rng))),
            }
        }
        evs.push(Ev::E(rng.chance(1, 2)));
    }
    evs
}

/// Structured paths on a small integer lattice (times a power of two, optionally shifted: every
/// coordinate is exact in f32) - the shapes random coordinates never produce: exactly horizontal
/// or vertical quadratics / cubics (control polygon of zero height or width), zero-length
/// segments, straight edges written as curves, single-point sub-paths, and "outward" segments whose
/// end point lies strictly beyond everything drawn before (so that it is the only thing that can
/// put that side of the box where it belongs).  Returns the builder calls and a shape word for TAG.
fn gen_path_lattice(rng: &mut Rng) -> (Vec<Ev>, String) {
    type IP = (i64, i64);
    let r = *rng.pick(&[1i64, 2, 3, 5, 8]);
    let s = *rng.pick(&[0.25f32, 1.0, 1.0, 1.0, 8.0]);
    let (ox, oy) = if rng.chance(1, 4) { (rng.range(-40, 40), rng.range(-40, 40)) } else { (0, 0) };
    let cv = |p: IP| -> Point<f32> { point(p.0 as f32 * s, p.1 as f32 * s) };
    let rp = |rng: &mut Rng| -> IP { (ox + rng.range(-r, r), oy + rng.range(-r, r)) };
    // a value between a and b (inclusive)
    let between = |rng: &mut Rng, a: i64, b: i64| -> i64 { rng.range(a.min(b), a.max(b)) };
    let mut evs = Vec::new();
    let (mut flat, mut zero, mut single, mut outward, mut straight) = (false, false, false, false, false);
    // extent of every point generated so far: (x0, x1, y0, y1)
    let mut ext: Option<(i64, i64, i64, i64)> = None;
    fn grow(ext: &mut Option<(i64, i64, i64, i64)>, p: (i64, i64)) {
        *ext = Some(match *ext {
            None => (p.0, p.0, p.1, p.1),
            Some(e) => (e.0.min(p.0), e.1.max(p.0), e.2.min(p.1), e.3.max(p.1)),
        });
    }
    let nsub = match rng.below(12) {
        0 => 0,
        1..=6 => 1,
        7..=9 => 2,
        _ => rng.range(3, 4),
    };
    for _ in 0..nsub {
        let mut cur = rp(rng);
        evs.push(Ev::B(cv(cur)));
        grow(&mut ext, cur);
        let nseg = match rng.below(8) {
            0 => 0,
            1..=2 => 1,
            _ => rng.range(2, 5),
        };
        single |= nseg == 0;
        for _ in 0..nseg {
            // the points of the segment after `cur`: 1 = line, 2 = quadratic, 3 = cubic
            let pts: Vec<IP> = match rng.below(16) {
                0 | 1 => vec![rp(rng)],
                2 => {
                    zero = true;
                    vec![cur; rng.range(1, 3) as usize]
                }
                3..=6 => {
                    // flat: every point shares cur's y (horizontal) or x (vertical)
                    flat = true;
                    let n = rng.range(2, 3) as usize;
                    let horiz = rng.chance(1, 2);
                    (0..n)
                        .map(|_| {
                            let d = rng.range(-r - 2, r + 2);
                            if horiz {
                                (cur.0 + d, cur.1)
                            } else {
                                (cur.0, cur.1 + d)
                            }
                        })
                        .collect()
                }
                7 => {
                    // a straight edge in any direction written as a curve: control points at the ends
                    straight = true;
                    let to = rp(rng);
                    if rng.chance(1, 2) {
                        vec![if rng.chance(1, 2) { cur } else { to }, to]
                    } else {
                        vec![if rng.chance(1, 2) { cur } else { to }, if rng.chance(1, 2) { cur } else { to }, to]
                    }
                }
                8 | 9 => {
                    // outward: the end point is strictly beyond everything so far in one direction;
                    // as a line, or as a flat curve with its control points on the way
                    outward = true;
                    let e = ext.unwrap();
                    let step = rng.range(1, 3);
                    let (to, horiz) = match rng.below(4) {
                        0 => ((e.1 + step, cur.1), true),
                        1 => ((e.0 - step, cur.1), true),
                        2 => ((cur.0, e.3 + step), false),
                        _ => ((cur.0, e.2 - step), false),
                    };
                    let n = rng.range(0, 2) as usize;
                    flat |= n > 0;
                    let mut v: Vec<IP> = (0..n)
                        .map(|_| if horiz { (between(rng, cur.0, to.0), cur.1) } else { (cur.0, between(rng, cur.1, to.1)) })
                        .collect();
                    v.push(to);
                    v
                }
                10..=12 => vec![rp(rng), rp(rng)],
                _ => vec![rp(rng), rp(rng), rp(rng)],
            };
            for p in &pts {
                grow(&mut ext, *p);
            }
            evs.push(match pts.len() {
                1 => Ev::L(cv(pts[0])),
                2 => Ev::Q(cv(pts[0]), cv(pts[1])),
                _ => Ev::C(cv(pts[0]), cv(pts[1]), cv(pts[2])),
            });
            cur = *pts.last().unwrap();
        }
        evs.push(Ev::E(rng.chance(1, 2)));
    }
    let mut shape = String::from("structured");
    for (on, w) in [(flat, "flat"), (zero, "zero-length"), (straight, "straight-curve"), (outward, "outward"), (single, "single-point")] {
        if on {
            shape.push('+');
            shape.push_str(w);
        }
    }
    (evs, shape)
}

/// the builder calls of a path case: the plain generator, or (one in `den`) the structured one
fn gen_path_mixed(g: Gen, rng: &mut Rng, num: u64, den: u64) -> (Vec<Ev>, String) {
    if rng.chance(num, den) {
        gen_path_lattice(rng)
    } else {
        (gen_path(g, rng), g.name().to_string())
    }
}

/// the calls of each sub-path (a sub-path starts at its `begin`)
fn split_subs(evs: &[Ev]) -> Vec<Vec<Ev>> {
    let mut out: Vec<Vec<Ev>> = Vec::new();
    for e in evs {
        if matches!(e, Ev::B(_)) || out.is_empty() {
            out.push(Vec::new());
        }
        out.last_mut().unwrap().push(e.clone());
    }
    out
}

/// the same sub-paths drawn in the order k, k+1, …, n-1, 0, …, k-1
fn rotate_subs(evs: &[Ev], k: usize) -> Vec<Ev> {
    let subs = split_subs(evs);
    let k = k.min(subs.len());
    subs[k..].iter().chain(subs[..k].iter()).flatten().cloned().collect()
}

/// union (componentwise `Point::min` / `Point::max`) of lyon's own exact boxes of the pieces of the
/// path: the point of a `Begin`, the segment of every `Line` / `Quadratic` / `Cubic`, the closing
/// edge of a closing `End`; the zero box for the empty path
fn union_of_segment_boxes(path: &Path) -> Box2D<f32> {
    use lyon_path::Event;
    let mut acc: Option<Box2D<f32>> = None;
    for e in path.iter() {
        let b = match e {
            Event::Begin { at } => Some(Box2D { min: at, max: at }),
            Event::Line { from, to } => Some(LineSegment { from, to }.bounding_box()),
            Event::Quadratic { from, ctrl, to } => Some(QuadraticBezierSegment { from, ctrl, to }.bounding_box()),
            Event::Cubic { from, ctrl1, ctrl2, to } => Some(CubicBezierSegment { from, ctrl1, ctrl2, to }.bounding_box()),
            Event::End { last, first, close } => {
                if close {
                    Some(LineSegment { from: last, to: first }.bounding_box())
                } else {
                    None
                }
            }
        };
        if let Some(b) = b {
            acc = Some(match acc {
                None => b,
                Some(a) => Box2D { min: a.min.min(b.min), max: a.max.max(b.max) },
            });
        }
    }
    acc.unwrap_or(Box2D { min: point(0.0, 0.0), max: point(0.0, 0.0) })
}

fn build_path(evs: &[Ev]) -> Path {
    let mut b = Path::builder();
    for e in evs {
        match e {
            Ev::B(p) => {
                b.begin(*p);
            }
            Ev::L(p) => {
                b.line_to(*p);
            }
            Ev::Q(c, p) => {
                b.quadratic_bezier_to(*c, *p);
            }
            Ev::C(c1, c2, p) => {
                b.cubic_bezier_to(*c1, *c2, *p);
            }
            Ev::E(c) => b.end(*c),
        }
    }
    b.build()
}

/// control polygons of the segments of the path (closing edges included)
fn path_segments(evs: &[Ev]) -> Vec<Vec<Point<f32>>> {
    let mut out = Vec::new();
    let mut cur = point(0.0, 0.0);
    let mut first = cur;
    for e in evs {
        match e {
            Ev::B(p) => {
                cur = *p;
                first = *p;
                out.push(vec![*p]);
            }
            Ev::L(p) => {
                out.push(vec![cur, *p]);
                cur = *p;
            }
            Ev::Q(c, p) => {
                out.push(vec![cur, *c, *p]);
                cur = *p;
            }
            Ev::C(c1, c2, p) => {
                out.push(vec![cur, *c1, *c2, *p]);
                cur = *p;
            }
            Ev::E(close) => {
                if *close {
                    out.push(vec![cur, first]);
                }
            }
        }
    }
    out
}

fn put_evs(o: &mut Out, evs: &[Ev]) {
    o.u(evs.len() as u64);
    for e in evs {
        match e {
            Ev::B(p) => {
                o.t("B").p(*p);
            }
            Ev::L(p) => {
                o.t("L").p(*p);
            }
            Ev::Q(c, p) => {
                o.t("Q").p(*c).p(*p);
            }
            Ev::C(c1, c2, p) => {
                o.t("C").p(*c1).p(*c2).p(*p);
            }
            Ev::E(c) => {
                o.t("E").b(*c);
            }
        }
    }
}

/// the path-level clauses of the property on lyon's outputs `b` (exact box) and `f` (fast box) for
/// the path the calls `evs` build: the exact box contains every point of every segment (closing
/// edges included; f64 reference: analytic extremes + dense samples of each segment), every side
/// is touched, the fast box contains the exact one; the empty path gets the zero box
fn path_oracle(orc: &mut Oracle, evs: &[Ev], b: &Box2D<f32>, f: &Box2D<f32>) {
    let segs = path_segments(evs);
    if segs.is_empty() {
        let z = point(0.0f32, 0.0);
        orc.check(b.min == z && b.max == z && f.min == z && f.max == z, "path.bounding_box/empty", "generic", || format!("{:?} {:?}", b, f));
        return;
    }
    let all: Vec<Point<f32>> = segs.iter().flatten().cloned().collect();
    let env = 64.0 * f32::EPS * maxabs(&all).max(1e-30);
    let (mut x0, mut x1, mut y0, mut y1) = (f64::INFINITY, f64::NEG_INFINITY, f64::INFINITY, f64::NEG_INFINITY);
    for s in &segs {
        let (rx, ry) = (range1(&xs(s)), range1(&ys(s)));
        x0 = x0.min(rx.0);
        x1 = x1.max(rx.1);
        y0 = y0.min(ry.0);
        y1 = y1.max(ry.1);
    }
    let (bx0, bx1, by0, by1) = (b.min.x.f(), b.max.x.f(), b.min.y.f(), b.max.y.f());
    let e = (bx0 - x0).max(x1 - bx1).max(by0 - y0).max(y1 - by1);
    let cancel_class = if segs.iter().any(|s| cancels(s)) { "cubic-deriv-cancellation" } else { "generic" };
    orc.check(e <= env, "path.bounding_box/contains", cancel_class, || {
        format!("box=({},{})-({},{}) path extent x=[{},{}] y=[{},{}] outside by {:e}", bx0, by0, bx1, by1, x0, x1, y0, y1, e)
    });
    let e = (x0 - bx0).max(bx1 - x1).max(y0 - by0).max(by1 - y1);
    orc.check(e <= env, "path.bounding_box/tight", "generic", || {
        format!("box=({},{})-({},{}) path extent x=[{},{}] y=[{},{}] err {:e}", bx0, by0, bx1, by1, x0, x1, y0, y1, e)
    });
    let (fx0, fx1, fy0, fy1) = (f.min.x.f(), f.max.x.f(), f.min.y.f(), f.max.y.f());
    let e = (fx0 - bx0).max(bx1 - fx1).max(fy0 - by0).max(by1 - fy1);
    orc.check(e <= env, "path.fast_bounding_box/contains-exact", "generic", || format!("outside by {:e}", e));
}

fn path_case(ctx: &mut Ctx) {
    ctx.case("path:32", |rng| {
        let g = Gen::pick(rng);
        let (evs, shape) = gen_path_mixed(g, rng, 1, 4);
        let mut args = Out::new();
        put_evs(&mut args, &evs);
        let tag = format!("path {} events={}{}", shape, evs.len().min(12), if evs.is_empty() { " trivial" } else { "" });
        (args, tag, move || {
            let path = build_path(&evs);
            let b = aabb::bounding_box(path.iter());
            let f = aabb::fast_bounding_box(path.iter());
            let mut o = Out::new();
            o.t("box");
            put_box(&mut o, &b);
            o.t("fbox");
            put_box(&mut o, &f);
            let mut orc = Oracle::new();
            path_oracle(&mut orc, &evs, &b, &f);
            CaseOut { imp: o, orcl: orc.verdict }
        })
    });
}

/// largest componentwise distance between two boxes
fn box_dist(a: &Box2D<f32>, b: &Box2D<f32>) -> f64 {
    (a.min.x.f() - b.min.x.f())
        .abs()
        .max((a.min.y.f() - b.min.y.f()).abs())
        .max((a.max.x.f() - b.max.x.f()).abs())
        .max((a.max.y.f() - b.max.y.f()).abs())
}

/// The box of a path does not depend on how the path came about: the property fixes it as THE box
/// that contains every point and is touched on all four sides, so `aabb::bounding_box` of the path,
/// of `Path::reversed` (same point set, every segment traversed backwards, the events in the
/// opposite order), of the same sub-paths drawn in another order, and the union of lyon's own exact
/// boxes of the segments must agree (up to the rounding of the extremum evaluation).  All of it is
/// tied to the model (`Model/Algo/Aabb.lean`: `Path::iter`, `Path::reversed`, the fold, the union).
fn path_box_case(ctx: &mut Ctx) {
    ctx.case("path_box:32", |rng| {
        let g = Gen::pick(rng);
        let (evs, shape) = gen_path_mixed(g, rng, 3, 4);
        let nsub = split_subs(&evs).len();
        let k = if nsub > 1 { rng.range(1, nsub as i64 - 1) as usize } else { 0 };
        let mut args = Out::new();
        put_evs(&mut args, &evs);
        args.u(k as u64);
        let tag = format!("path_box {} subs={}{}", shape, nsub.min(4), if evs.is_empty() { " trivial" } else { "" });
        (args, tag, move || {
            let path = build_path(&evs);
            let b = aabb::bounding_box(path.iter());
            let f = aabb::fast_bounding_box(path.iter());
            let rb = aabb::bounding_box(path.reversed());
            let rf = aabb::fast_bounding_box(path.reversed());
            let rot_evs = rotate_subs(&evs, k);
            let rot = build_path(&rot_evs);
            let ob = aabb::bounding_box(rot.iter());
            let un = union_of_segment_boxes(&path);
            let mut o = Out::new();
            o.t("box");
            put_box(&mut o, &b);
            o.t("fbox");
            put_box(&mut o, &f);
            o.t("rev");
            put_box(&mut o, &rb);
            put_box(&mut o, &rf);
            o.t("rot");
            put_box(&mut o, &ob);
            o.t("union");
            put_box(&mut o, &un);

            let mut orc = Oracle::new();
            path_oracle(&mut orc, &evs, &b, &f);
            let all: Vec<Point<f32>> = path_segments(&evs).iter().flatten().cloned().collect();
            if !all.is_empty() {
                let env = 64.0 * f32::EPS * maxabs(&all).max(1e-30);
                let show = |x: &Box2D<f32>| format!("({},{})-({},{})", x.min.x, x.min.y, x.max.x, x.max.y);
                let e = box_dist(&b, &un);
                orc.check(e <= env, "path.bounding_box/union-of-segment-boxes", "generic", || {
                    format!("path box {} but the exact boxes of its segments join to {} (differ by {:e}, env {:e})", show(&b), show(&un), e, env)
                });
                let e = box_dist(&b, &rb);
                orc.check(e <= env, "path.bounding_box/reversal-invariant", "generic", || {
                    format!("path box {} but the reversed path (same points) has {} (differ by {:e}, env {:e})", show(&b), show(&rb), e, env)
                });
                let e = box_dist(&b, &ob);
                orc.check(e <= env, "path.bounding_box/subpath-order-invariant", "generic", || {
                    format!("path box {} but with the sub-paths rotated by {} it is {} (differ by {:e}, env {:e})", show(&b), k, show(&ob), e, env)
                });
                // the reversed path is a path too: its fast box contains its exact box
                let e = (rf.min.x.f() - rb.min.x.f()).max(rb.max.x.f() - rf.max.x.f()).max(rf.min.y.f() - rb.min.y.f()).max(rb.max.y.f() - rf.max.y.f());
                orc.check(e <= env, "path.fast_bounding_box/contains-exact", "generic", || format!("reversed path: outside by {:e}", e));
            }
            CaseOut { imp: o, orcl: orc.verdict }
        })
    });
}

/// `fit_box` for all five styles and `fit_path` for one of them: tied to the model, and the
/// fitted path's box is compared with what the style promises
fn fit_case(ctx: &mut Ctx) {
    ctx.case("fit:32", |rng| {
        let g = if rng.chance(1, 2) { Gen::Lattice } else { Gen::Uniform };
        let (mut evs, shape) = gen_path_mixed(g, rng, 1, 4);
        if evs.is_empty() && rng.chance(3, 4) {
            evs = vec![Ev::B(point(0.0, 0.0)), Ev::L(point(1.0, 2.0)), Ev::E(false)];
        }
        let d0: Point<f32> = g.point(rng);
        let dst = Box2D { min: d0, max: point(d0.x + rng.uniform(1.0, 50.0) as f32, d0.y + rng.uniform(1.0, 50.0) as f32) };
        let style_ix = rng.below(5);
        let mut args = Out::new();
        put_evs(&mut args, &evs);
        args.p(dst.min).p(dst.max).u(style_ix);
        let styles = [FitStyle::Stretch, FitStyle::Min, FitStyle::Max, FitStyle::Horizontal, FitStyle::Vertical];
        let names = ["stretch", "min", "max", "horizontal", "vertical"];
        let tag = format!("fit {} {}", shape, names[style_ix as usize]);
        (args, tag, move || {
            let path = build_path(&evs);
            let src = aabb::bounding_box(path.iter());
            let mut orc = Oracle::new();
            let mut o = Out::new();
            o.t("src");
            put_box(&mut o, &src);
            for (st, nm) in styles.iter().zip(names) {
                let t = fit_box(&src, &dst, *st);
                o.t(nm).f(t.m11).f(t.m12).f(t.m21).f(t.m22).f(t.m31).f(t.m32);
            }
            let style = styles[style_ix as usize];
            let fitted = fit_path(&path, &dst, style);
            let fb = aabb::bounding_box(fitted.iter());
            let ffb = aabb::fast_bounding_box(fitted.iter());
            o.t("fitted");
            put_box(&mut o, &fb);
            put_box(&mut o, &ffb);

            let (w, h) = (src.max.x - src.min.x, src.max.y - src.min.y);
            let all: Vec<Point<f32>> = path_segments(&evs).iter().flatten().cloned().collect();
            let m = maxabs(&all).max(1.0);
            if (w as f64) < 1e-2 * m || (h as f64) < 1e-2 * m {
                orc.skip("degenerate-source-box");
            } else {
                let (dw, dh) = ((dst.max.x - dst.min.x) as f64, (dst.max.y - dst.min.y) as f64);
                let scale = dw / w as f64 + dh / h as f64;
                let env = 256.0 * f32::EPS * (m * (1.0 + scale) + maxabs(&[dst.min, dst.max]));
                let mut fitted_cancels = false;
                for ev in fitted.iter() {
                    if let lyon_path::Event::Cubic { from, ctrl1, ctrl2, to } = ev {
                        fitted_cancels |= cancels(&[from, ctrl1, ctrl2, to]);
                    }
                }
                let cancel_class = if fitted_cancels || path_segments(&evs).iter().any(|s| cancels(s)) { "cubic-deriv-cancellation" } else { "generic" };
                // signed excesses of the fitted box over the destination box: left, right, bottom, top
                let ex = [(dst.min.x - fb.min.x) as f64, (fb.max.x - dst.max.x) as f64, (dst.min.y - fb.min.y) as f64, (fb.max.y - dst.max.y) as f64];
                let detail = || format!("fitted={:?} dst={:?} excess={:?} env={:e}", fb, dst, ex, env);
                let zero = |v: f64| v.abs() <= env;
                match style {
                    FitStyle::Stretch => orc.check(ex.iter().all(|v| zero(*v)), "fit.fit_path/box-is-destination", cancel_class, detail),
                    FitStyle::Min => {
                        // inside, centred, and touching in at least one direction
                        let ok = ex.iter().all(|v| *v <= env) && zero(ex[0] - ex[1]) && zero(ex[2] - ex[3]) && (zero(ex[0]) || zero(ex[2]));
                        orc.check(ok, "fit.fit_path/min-fits-inside", cancel_class, detail)
                    }
                    FitStyle::Max => {
                        let ok = ex.iter().all(|v| *v >= -env) && zero(ex[0] - ex[1]) && zero(ex[2] - ex[3]) && (zero(ex[0]) || zero(ex[2]));
                        orc.check(ok, "fit.fit_path/max-covers", cancel_class, detail)
                    }
                    FitStyle::Horizontal => orc.check(zero(ex[0]) && zero(ex[1]) && zero(ex[2] - ex[3]), "fit.fit_path/horizontal-width", cancel_class, detail),
                    FitStyle::Vertical => orc.check(zero(ex[2]) && zero(ex[3]) && zero(ex[0] - ex[1]), "fit.fit_path/vertical-height", cancel_class, detail),
                }
                // uniform styles preserve the aspect ratio: one scale factor, no shear
                let t = fit_box(&src, &dst, style);
                if style != FitStyle::Stretch {
                    orc.check(t.m11 == t.m22 && t.m12 == 0.0 && t.m21 == 0.0, "fit.fit_box/uniform", "generic", || format!("{:?}", t));
                }
            }
            CaseOut { imp: o, orcl: orc.verdict }
        })
    });
}

fn main() {
    let mut ctx = Ctx::from_args("C11");
    let n = ctx.n(6000, 120000);
    for _ in 0..n {
        quad_case::<f32>(&mut ctx);
        quad_case::<f64>(&mut ctx);
        cubic_case::<f32>(&mut ctx);
        cubic_case::<f64>(&mut ctx);
        arc_case::<f32>(&mut ctx);
        arc_case::<f64>(&mut ctx);
        path_case(&mut ctx);
        path_box_case(&mut ctx);
        seg_case::<f32>(&mut ctx);
        seg_case::<f64>(&mut ctx);
        tri_case::<f32>(&mut ctx);
        tri_case::<f64>(&mut ctx);
        fit_case(&mut ctx);
    }
    ctx.finish();
}
