//! C06 — stroke triangles cover the band around the path and nothing far from it.
//!
//! Every family strokes a generated polyline of the NO-FOLD REGIME (every segment at least
//! `4 * width` long, every turn at most 150 degrees, fixed width) with the real
//! `StrokeTessellator` and hands the output triangles (exact f32 bit patterns) together with a
//! region built here in f64 from the INPUT polyline to the Lean slab checker, which decides the
//! clause for EVERY generic point of the plane:
//!
//! * `chk_cover`     covers: every point of every segment's rectangle (the points within w/2 of the
//!                   segment whose projection falls on the segment) lies in some triangle;
//! * `chk_reach`     within: every triangle point lies within w/2 of a segment, or within
//!                   `factor * w/2` of a vertex (factor 1 bevel/round joins, butt/round caps; sqrt 2
//!                   square caps; the miter length `1/cos(turn/2)` for a miter the stroker keeps,
//!                   the clip corner distance for a clipped MiterClip);
//! * `chk_round_in`  covers, round joins + round caps: the (w/2 - tolerance)-neighbourhood of the
//!                   path (inscribed polygonal approximation) is covered;
//! * `chk_round_out` within, round joins + round caps: the triangles stay inside the
//!                   w/2-neighbourhood (circumscribed approximation, within tolerance/2 of it).
//!
//! Regions are unions of convex contours, all counter-clockwise, tested with the NonZero rule.
//! The band `delta` excused around the region's edges is rounding only.
//!
//! CALL HISTORY (the `Hist` of a case, drawn from the case RNG after the polyline and the configuration):
//! in about half of the cases of the four checker families the polyline under test is NOT stroked alone on a
//! fresh tessellator.  It is the LAST sub-path of a program on one `StrokeBuilder`
//! (`StrokeTessellator::builder` / `builder_with_attributes`) whose earlier calls are other sub-paths (lines
//! and curves, any shape), `add_rectangle` (thin = the `approximate_thin_rectangle` fallback that temporarily
//! changes `options.line_width`, borderline, flat, thin in both directions, ordinary), `add_circle`,
//! `add_ellipse`, `add_rounded_rectangle`, `add_polygon`, `add_line_segment`, `add_point` and the option setters
//! (the builder may be created with another join / caps / miter limit; `set_line_join`, `set_start_cap`,
//! `set_end_cap`, `set_miter_limit` bring the options back to the case's configuration before the sub-path
//! under test, which is fed through begin / line_to / end, `add_polygon` or `add_line_segment`); or the last
//! sub-path of a multi-sub-path `Path` / event stream for the other entry points (with the variable-width
//! entries the earlier sub-paths have a width that varies from endpoint to endpoint); and the
//! `StrokeTessellator` object may have been used for an unrelated tessellation before.  Only the triangles
//! emitted FOR THE SUB-PATH UNDER TEST (everything the geometry builder receives after the earlier items are
//! complete; vertices by id) go to the checker, against the same regions and the case's configured width: the
//! property quantifies over polyline x configuration, so what the builder object did before must not matter.
//! Tie family `progmesh`: the whole output of such programs (every vertex position, every triangle) bit for bit
//! against the program model `Model/Tess/StrokeBuilderProg.lean` (`tessellateProg`).
//!
//! Tie families (model vs real code, bit level): `normal` (`compute_normal`), `stroke2` (whole mesh of
//! a two-segment polyline against the component model `StrokeQuad.stroke2`), `fullmesh` (whole mesh -
//! every emitted vertex position in order, every triangle id - of a polyline of the explored regime,
//! 1..7 segments, open or closed, every join and cap, the four fixed-width entry points, against the
//! COMPLETE stroker model `StrokeFull.tessellateFw`: the model the theorems `stroke_polyline_covers_rectangles`
//! / `stroke_polyline_reach` of `Props/C06b.lean` are about), `progmesh` (whole output of a program on one
//! `StrokeBuilder` - a call history as described below, then a polyline of the regime - against the program
//! model `StrokeBuilderProg.tessellateProg`).

use lyon_path::builder::BorderRadii;
use lyon_path::geom::{Angle, Box2D, LineSegment};
use lyon_path::math::{point, vector, Point, Vector};
use lyon_path::traits::PathBuilder as AttrPathBuilder;
use lyon_path::{EndpointId, IdEvent, Path, PathEvent, Polygon, Winding};
use lyon_tessellation::geometry_builder::{BuffersBuilder, GeometryBuilder, GeometryBuilderError, Positions, StrokeGeometryBuilder, VertexBuffers};
use lyon_tessellation::{LineCap, LineJoin, StrokeBuilder, StrokeOptions, StrokeTessellator, StrokeVertex, VertexId};
use std::cell::Cell;
use std::rc::Rc;
use vh::{CaseOut, Ctx, Oracle, Out, Rng};

type V = (f64, f64);
type Mesh = VertexBuffers<Point, u32>;

const MAX_TURN_DEG: f64 = 150.0;
const MIN_LEN_WIDTHS: f64 = 4.0;

fn sub(a: V, b: V) -> V {
    (a.0 - b.0, a.1 - b.1)
}
fn add(a: V, b: V) -> V {
    (a.0 + b.0, a.1 + b.1)
}
fn mul(a: V, s: f64) -> V {
    (a.0 * s, a.1 * s)
}
fn dot(a: V, b: V) -> f64 {
    a.0 * b.0 + a.1 * b.1
}
fn cross(a: V, b: V) -> f64 {
    a.0 * b.1 - a.1 * b.0
}
fn len(a: V) -> f64 {
    dot(a, a).sqrt()
}
fn dir(a: f64) -> V {
    (a.cos(), a.sin())
}

#[derive(Clone)]
struct Poly {
    pts: Vec<V>,
    closed: bool,
    kind: &'static str,
}

impl Poly {
    fn f32pts(&self) -> Vec<Point> {
        self.pts.iter().map(|p| point(p.0 as f32, p.1 as f32)).collect()
    }
    /// the polyline as the stroker sees it (f32 coordinates, widened back to f64)
    fn snapped(&self) -> Poly {
        Poly { pts: self.pts.iter().map(|p| (p.0 as f32 as f64, p.1 as f32 as f64)).collect(), closed: self.closed, kind: self.kind }
    }
    fn segments(&self) -> Vec<(V, V)> {
        let n = self.pts.len();
        let mut s = Vec::new();
        for i in 0..n.saturating_sub(1) {
            s.push((self.pts[i], self.pts[i + 1]));
        }
        if self.closed && n > 2 {
            s.push((self.pts[n - 1], self.pts[0]));
        }
        s
    }
    /// (vertex, incoming unit tangent, outgoing unit tangent) for every join
    fn joins(&self) -> Vec<(V, V, V)> {
        let segs = self.segments();
        let mut j = Vec::new();
        let unit = |s: &(V, V)| {
            let d = sub(s.1, s.0);
            mul(d, 1.0 / len(d))
        };
        for i in 0..segs.len().saturating_sub(1) {
            j.push((segs[i].1, unit(&segs[i]), unit(&segs[i + 1])));
        }
        if self.closed && segs.len() > 2 {
            j.push((segs[0].0, unit(&segs[segs.len() - 1]), unit(&segs[0])));
        }
        j
    }
    fn in_regime(&self, w: f64) -> bool {
        let segs = self.segments();
        if segs.is_empty() {
            return false;
        }
        if segs.iter().any(|s| !(len(sub(s.1, s.0)) >= MIN_LEN_WIDTHS * w * 1.0001)) {
            return false;
        }
        let cmin = (MAX_TURN_DEG.to_radians()).cos();
        self.joins().iter().all(|(_, t0, t1)| dot(*t0, *t1) >= cmin + 1e-6)
    }
    fn scale(&self) -> f64 {
        self.pts.iter().fold(1e-30, |m: f64, p| m.max(p.0.abs()).max(p.1.abs()))
    }
    fn to_path(&self) -> Path {
        let p = self.f32pts();
        let mut b = Path::builder();
        b.begin(p[0]);
        for q in &p[1..] {
            b.line_to(*q);
        }
        b.end(self.closed);
        b.build()
    }
}

#[derive(Clone, Copy)]
struct Cfg {
    w: f32,
    join: LineJoin,
    cap1: LineCap,
    cap2: LineCap,
    ml: f32,
    tol: f32,
    entry: u8,
}

const ENTRY: [&str; 6] = ["tessellate_path", "tessellate", "builder", "with_ids", "vw_const2", "vw_const_half"];

fn join_name(j: LineJoin) -> &'static str {
    match j {
        LineJoin::Miter => "miter",
        LineJoin::MiterClip => "miterclip",
        LineJoin::Round => "round",
        LineJoin::Bevel => "bevel",
    }
}
fn cap_name(c: LineCap) -> &'static str {
    match c {
        LineCap::Butt => "butt",
        LineCap::Square => "square",
        LineCap::Round => "round",
    }
}

impl Cfg {
    fn options(&self) -> StrokeOptions {
        StrokeOptions::default()
            .with_line_width(self.w)
            .with_line_join(self.join)
            .with_start_cap(self.cap1)
            .with_end_cap(self.cap2)
            .with_miter_limit(self.ml)
            .with_tolerance(self.tol)
    }
    fn put(&self, o: &mut Out) {
        o.f(self.w).t(join_name(self.join)).t(cap_name(self.cap1)).t(cap_name(self.cap2)).f(self.ml).f(self.tol).t(ENTRY[self.entry as usize]);
    }
}

fn run_stroke(poly: &Poly, cfg: &Cfg, mesh: &mut Mesh) -> Result<(), String> {
    let mut tess = StrokeTessellator::new();
    let opts = cfg.options();
    let path = poly.to_path();
    let mut out = BuffersBuilder::new(mesh, Positions);
    let r = match cfg.entry {
        0 => tess.tessellate_path(&path, &opts, &mut out),
        1 => tess.tessellate(path.iter(), &opts, &mut out),
        2 => {
            use lyon_path::builder::{Build, PathBuilder};
            let pts = poly.f32pts();
            let mut b = tess.builder(&opts, &mut out);
            b.begin(pts[0]);
            for q in &pts[1..] {
                b.line_to(*q);
            }
            b.end(poly.closed);
            b.build()
        }
        3 => tess.tessellate_with_ids(path.id_iter(), &path, None, &opts, &mut out),
        e => {
            // variable line width with a CONSTANT attribute a (a power of two) and line_width = w / a:
            // the stroke has width w everywhere, through the attribute-carrying route
            // (tessellate_path -> tessellate_with_ids_vw)
            let a: f32 = if e == 4 { 2.0 } else { 0.5 };
            let p = poly.f32pts();
            let mut b = Path::builder_with_attributes(1);
            b.begin(p[0], &[a]);
            for q in &p[1..] {
                b.line_to(*q, &[a]);
            }
            b.end(poly.closed);
            let pa = b.build();
            let o2 = opts.with_line_width(cfg.w / a).with_variable_line_width(0);
            tess.tessellate_path(&pa, &o2, &mut out)
        }
    };
    r.map_err(|e| format!("{:?}", e))
}

// ---------------------------------------------------------------------------------------------
// call history: what the StrokeBuilder / StrokeTessellator object did BEFORE the sub-path under test

#[derive(Clone, Debug)]
enum Seg {
    Line(Point),
    Quad(Point, Point),
    Cubic(Point, Point, Point),
}

/// one call (or one begin .. end group of calls) on the builder before the sub-path under test
#[derive(Clone, Debug)]
enum Item {
    /// begin, line_to / quadratic_bezier_to / cubic_bezier_to *, end(close); the last field: a width factor per
    /// endpoint (used by the variable-width entries only)
    Path(Point, Vec<Seg>, bool, Vec<f32>),
    Rect(Box2D<f32>, bool),
    Circle(Point, f32, bool),
    Ellipse(Point, Vector, f32, bool),
    RoundRect(Box2D<f32>, [f32; 4], bool),
    Polygon(Vec<Point>, bool),
    Segment(Point, Point),
    PointAt(Point),
    SetJoin(LineJoin),
    SetStartCap(LineCap),
    SetEndCap(LineCap),
    SetMiterLimit(f32),
}

#[derive(Clone, Debug)]
struct Hist {
    /// empty: the polyline is stroked alone
    items: Vec<Item>,
    /// join, caps, miter limit the builder is CREATED with (builder entry; the setters in `items` end on the
    /// case's configuration)
    init: (LineJoin, LineCap, LineCap, f32),
    /// builder entry: 0 = `StrokeTessellator::builder`, n > 0 = `builder_with_attributes(n, ..)`
    n_attr: usize,
    /// builder entry, how the sub-path under test is fed: 0 begin / line_to / end, 1 add_polygon, 2 add_line_segment
    via: u8,
    /// an unrelated tessellation on the same StrokeTessellator object before (seed of it)
    warm: Option<u64>,
    /// kind of the last geometry item (tag)
    last: &'static str,
}

fn winding(positive: bool) -> Winding {
    if positive {
        Winding::Positive
    } else {
        Winding::Negative
    }
}

fn radii_of(r: &[f32; 4]) -> BorderRadii {
    BorderRadii { top_left: r[0], top_right: r[1], bottom_left: r[2], bottom_right: r[3] }
}

/// geometry builder that records positions and triangles and, for each, whether it was emitted while `on`
/// was set (= for the sub-path under test)
struct Rec {
    verts: Vec<Point>,
    tris: Vec<[u32; 3]>,
    vsel: Vec<bool>,
    tsel: Vec<bool>,
    on: Rc<Cell<bool>>,
}

impl Rec {
    fn new(on: bool) -> Rec {
        Rec { verts: Vec::new(), tris: Vec::new(), vsel: Vec::new(), tsel: Vec::new(), on: Rc::new(Cell::new(on)) }
    }
    /// all vertices (ids stay valid) + the selected triangles
    fn selected(&self) -> Mesh {
        let mut m = Mesh::new();
        m.vertices = self.verts.clone();
        for (t, s) in self.tris.iter().zip(self.tsel.iter()) {
            if *s {
                m.indices.extend_from_slice(t);
            }
        }
        m
    }
}

impl GeometryBuilder for Rec {
    fn add_triangle(&mut self, a: VertexId, b: VertexId, c: VertexId) {
        self.tris.push([a.0, b.0, c.0]);
        self.tsel.push(self.on.get());
    }
}

impl StrokeGeometryBuilder for Rec {
    fn add_stroke_vertex(&mut self, v: StrokeVertex) -> Result<VertexId, GeometryBuilderError> {
        self.verts.push(v.position());
        self.vsel.push(self.on.get());
        Ok(VertexId(self.verts.len() as u32 - 1))
    }
}

/// event iterator that sets `on` when it hands out the Begin event number `skip` (0-based): the stroker pulls
/// events one at a time, so everything emitted before belongs to the earlier sub-paths
struct Flagged<I, F> {
    it: I,
    skip: usize,
    on: Rc<Cell<bool>>,
    is_begin: F,
}

impl<E, I: Iterator<Item = E>, F: Fn(&E) -> bool> Iterator for Flagged<I, F> {
    type Item = E;
    fn next(&mut self) -> Option<E> {
        let e = self.it.next();
        if let Some(ev) = &e {
            if (self.is_begin)(ev) {
                if self.skip == 0 {
                    self.on.set(true);
                } else {
                    self.skip -= 1;
                }
            }
        }
        e
    }
}

/// one history item on the real builder (`a` = the custom attributes passed along; empty for
/// `StrokeTessellator::builder`, whose `NoAttributes` wrapper forwards exactly these calls)
fn apply_item(b: &mut StrokeBuilder, a: &[f32], it: &Item) {
    match it {
        Item::Path(start, segs, close, _) => {
            b.begin(*start, a);
            for s in segs {
                match s {
                    Seg::Line(p) => b.line_to(*p, a),
                    Seg::Quad(c, p) => b.quadratic_bezier_to(*c, *p, a),
                    Seg::Cubic(c1, c2, p) => b.cubic_bezier_to(*c1, *c2, *p, a),
                };
            }
            b.end(*close);
        }
        Item::Rect(r, pos) => b.add_rectangle(r, winding(*pos), a),
        Item::Circle(c, r, pos) => b.add_circle(*c, *r, winding(*pos), a),
        Item::Ellipse(c, r, rot, pos) => b.add_ellipse(*c, *r, Angle::radians(*rot), winding(*pos), a),
        Item::RoundRect(bx, r, pos) => b.add_rounded_rectangle(bx, &radii_of(r), winding(*pos), a),
        Item::Polygon(pts, closed) => b.add_polygon(Polygon { points: &pts[..], closed: *closed }, a),
        Item::Segment(p, q) => {
            b.add_line_segment(&LineSegment { from: *p, to: *q }, a);
        }
        Item::PointAt(p) => {
            b.add_point(*p, a);
        }
        Item::SetJoin(j) => b.set_line_join(*j),
        Item::SetStartCap(c) => b.set_start_cap(*c),
        Item::SetEndCap(c) => b.set_end_cap(*c),
        Item::SetMiterLimit(m) => b.set_miter_limit(*m),
    }
}

/// the whole program of a builder case: the history items, then (with `on` set) the sub-path under test
fn drive_builder(b: &mut StrokeBuilder, a: &[f32], poly: &Poly, hist: &Hist, on: &Rc<Cell<bool>>) {
    for it in &hist.items {
        apply_item(b, a, it);
    }
    on.set(true);
    let pts = poly.f32pts();
    match hist.via {
        1 => b.add_polygon(Polygon { points: &pts[..], closed: poly.closed }, a),
        2 if pts.len() == 2 && !poly.closed => {
            b.add_line_segment(&LineSegment { from: pts[0], to: pts[1] }, a);
        }
        _ => {
            b.begin(pts[0], a);
            for q in &pts[1..] {
                b.line_to(*q, a);
            }
            b.end(poly.closed);
        }
    }
}

/// An unrelated tessellation on the same `StrokeTessellator` object before the one under test (another entry
/// point, custom attributes, possibly variable width, a thin rectangle, a builder dropped without `build`).
fn warm_up(tess: &mut StrokeTessellator, salt: u64) {
    let mut rng = Rng::new(salt, 1);
    let n_attr = rng.range(1, 4) as usize;
    let w = rng.uniform(0.3, 6.0) as f32;
    let joins = [LineJoin::Miter, LineJoin::MiterClip, LineJoin::Round, LineJoin::Bevel];
    let caps = [LineCap::Butt, LineCap::Square, LineCap::Round];
    let mut opts = StrokeOptions::tolerance(rng.uniform(0.02, 0.5) as f32).with_line_width(w).with_line_join(*rng.pick(&joins)).with_line_cap(*rng.pick(&caps));
    let variable = rng.chance(1, 3);
    if variable {
        opts = opts.with_variable_line_width(0);
    }
    let mut at = |rng: &mut Rng| (0..n_attr).map(|_| rng.uniform(0.5, 2.0) as f32).collect::<Vec<f32>>();
    let rp = |rng: &mut Rng| point(rng.uniform(-30.0, 30.0) as f32, rng.uniform(-30.0, 30.0) as f32);
    let mut sink = Rec::new(false);
    let mode = rng.below(4);
    if mode < 2 {
        let mut pb = Path::builder_with_attributes(n_attr);
        for _ in 0..rng.range(1, 3) {
            pb.begin(rp(&mut rng), &at(&mut rng));
            for _ in 0..rng.range(1, 4) {
                if rng.chance(1, 3) {
                    pb.quadratic_bezier_to(rp(&mut rng), rp(&mut rng), &at(&mut rng));
                } else {
                    pb.line_to(rp(&mut rng), &at(&mut rng));
                }
            }
            pb.end(rng.chance(1, 2));
        }
        let path = pb.build();
        let _ = if mode == 0 { tess.tessellate_path(&path, &opts, &mut sink) } else { tess.tessellate_with_ids(path.id_iter(), &path, Some(&path), &opts, &mut sink) };
    } else {
        let mut b = tess.builder_with_attributes(n_attr, &opts, &mut sink);
        let a = at(&mut rng);
        let c = rp(&mut rng);
        b.add_polygon(Polygon { points: &[rp(&mut rng), rp(&mut rng), rp(&mut rng)], closed: rng.chance(1, 2) }, &a);
        b.add_rectangle(&Box2D { min: c, max: point(c.x + 20.0, c.y + w * rng.uniform(0.0, 1.2) as f32) }, Winding::Positive, &a);
        if rng.chance(1, 2) {
            b.add_circle(rp(&mut rng), rng.uniform(1.0, 10.0) as f32, Winding::Positive, &a);
        }
        if mode == 2 {
            let _ = lyon_path::builder::Build::build(b);
        }
        // mode 3: the builder is dropped without build()
    }
}

/// Stroke the case: the history, then the polyline under test; `rec` marks what was emitted for the latter.
fn run_hist(poly: &Poly, cfg: &Cfg, hist: &Hist, rec: &mut Rec) -> Result<(), String> {
    let mut tess = StrokeTessellator::new();
    if let Some(salt) = hist.warm {
        warm_up(&mut tess, salt);
    }
    let opts = cfg.options();
    let on = rec.on.clone();
    on.set(hist.items.is_empty());
    let subs_before = hist.items.len();
    // the path of the non-builder entries: the history's sub-paths, then the polyline (one attribute for the
    // variable-width entries: the width factor)
    let vw_a: f32 = if cfg.entry == 4 { 2.0 } else { 0.5 };
    let build_path = |with_poly: bool, n_attr: usize| -> Path {
        let mut b = Path::builder_with_attributes(n_attr);
        let at = |f: f32| if n_attr == 0 { Vec::new() } else { vec![vw_a * f] };
        for it in &hist.items {
            if let Item::Path(start, segs, close, wf) = it {
                b.begin(*start, &at(wf[0]));
                for (k, s) in segs.iter().enumerate() {
                    let a = at(wf[k + 1]);
                    match s {
                        Seg::Line(p) => b.line_to(*p, &a),
                        Seg::Quad(c, p) => b.quadratic_bezier_to(*c, *p, &a),
                        Seg::Cubic(c1, c2, p) => b.cubic_bezier_to(*c1, *c2, *p, &a),
                    };
                }
                b.end(*close);
            }
        }
        if with_poly {
            let p = poly.f32pts();
            b.begin(p[0], &at(1.0));
            for q in &p[1..] {
                b.line_to(*q, &at(1.0));
            }
            b.end(poly.closed);
        }
        b.build()
    };
    let r = match cfg.entry {
        2 => {
            let io = opts.with_line_join(hist.init.0).with_start_cap(hist.init.1).with_end_cap(hist.init.2).with_miter_limit(hist.init.3);
            if hist.n_attr == 0 {
                let mut b = tess.builder(&io, rec);
                drive_builder(b.inner_mut(), &[], poly, hist, &on);
                lyon_path::builder::Build::build(b)
            } else {
                let a: Vec<f32> = (0..hist.n_attr).map(|k| 1.5 - k as f32).collect();
                let mut b = tess.builder_with_attributes(hist.n_attr, &io, rec);
                drive_builder(&mut b, &a, poly, hist, &on);
                lyon_path::builder::Build::build(b)
            }
        }
        1 => {
            let path = build_path(true, 0);
            let it = Flagged { it: path.iter(), skip: subs_before, on: on.clone(), is_begin: |e: &PathEvent| matches!(e, PathEvent::Begin { .. }) };
            tess.tessellate(it, &opts, rec)
        }
        3 => {
            let path = build_path(true, 0);
            let it = Flagged { it: path.id_iter(), skip: subs_before, on: on.clone(), is_begin: |e: &IdEvent| matches!(e, IdEvent::Begin { .. }) };
            tess.tessellate_with_ids(it, &path, None, &opts, rec)
        }
        e => {
            // tessellate_path takes the whole path: what belongs to the earlier sub-paths is counted by
            // stroking them alone (same entry, fresh tessellator) - the stroker emits sub-path after sub-path
            let n_attr = if e == 0 { 0 } else { 1 };
            let o2 = if e == 0 { opts } else { opts.with_line_width(cfg.w / vw_a).with_variable_line_width(0) };
            let (mut nv0, mut nt0) = (0, 0);
            if !hist.items.is_empty() {
                let mut pre = Rec::new(false);
                let prefix = build_path(false, n_attr);
                StrokeTessellator::new().tessellate_path(&prefix, &o2, &mut pre).map_err(|e| format!("{:?}", e))?;
                nv0 = pre.verts.len();
                nt0 = pre.tris.len();
            }
            let path = build_path(true, n_attr);
            let r = tess.tessellate_path(&path, &o2, rec);
            for (i, s) in rec.vsel.iter_mut().enumerate() {
                *s = i >= nv0;
            }
            for (i, s) in rec.tsel.iter_mut().enumerate() {
                *s = i >= nt0;
            }
            r
        }
    };
    r.map_err(|e| format!("{:?}", e))
}

/// The call history of a case.  `force`: always a non-empty program on the builder entry.
fn gen_hist(rng: &mut Rng, poly: &Poly, cfg: &mut Cfg, force: bool) -> Hist {
    let mode = if force { 7 } else { rng.below(8) };
    let warm = if mode == 3 || (mode >= 4 && rng.chance(1, 3)) { Some(rng.next()) } else { None };
    let mut h = Hist { items: Vec::new(), init: (cfg.join, cfg.cap1, cfg.cap2, cfg.ml), n_attr: 0, via: 0, warm, last: "none" };
    if mode < 4 {
        return h;
    }
    let builder = force || cfg.entry == 2 || rng.chance(2, 3);
    if builder {
        cfg.entry = 2;
    }
    let vw = cfg.entry >= 4;
    let w = cfg.w;
    // where the earlier items live: around the polyline (overlapping it or not: it does not matter)
    let (mut lo, mut hi) = ((f64::MAX, f64::MAX), (f64::MIN, f64::MIN));
    for p in &poly.pts {
        lo = (lo.0.min(p.0), lo.1.min(p.1));
        hi = (hi.0.max(p.0), hi.1.max(p.1));
    }
    let c = ((lo.0 + hi.0) * 0.5, (lo.1 + hi.1) * 0.5);
    let ext = ((hi.0 - lo.0).max(hi.1 - lo.1).max(8.0 * w as f64)) as f32;
    let rp = move |rng: &mut Rng| point(c.0 as f32 + ext * rng.uniform(-1.5, 1.5) as f32, c.1 as f32 + ext * rng.uniform(-1.5, 1.5) as f32);
    let joins = [LineJoin::Miter, LineJoin::Miter, LineJoin::MiterClip, LineJoin::Round, LineJoin::Bevel];
    let caps = [LineCap::Butt, LineCap::Square, LineCap::Round];
    let limits = [1.0f32, 1.25, 2.0, 4.0, 10.0];
    if builder {
        if rng.chance(1, 2) {
            h.init = (*rng.pick(&joins), *rng.pick(&caps), *rng.pick(&caps), *rng.pick(&limits));
        }
        h.n_attr = if rng.chance(1, 3) { rng.range(1, 3) as usize } else { 0 };
        h.via = rng.below(3) as u8;
    }
    // the options in force while the items are generated (the thin-rectangle threshold depends on the join)
    let mut cur = h.init;
    let n = rng.range(1, 4);
    for _ in 0..n {
        if builder && rng.chance(1, 3) {
            let s = match rng.below(4) {
                0 => {
                    cur.0 = *rng.pick(&joins);
                    Item::SetJoin(cur.0)
                }
                1 => {
                    cur.1 = *rng.pick(&caps);
                    Item::SetStartCap(cur.1)
                }
                2 => {
                    cur.2 = *rng.pick(&caps);
                    Item::SetEndCap(cur.2)
                }
                _ => {
                    cur.3 = *rng.pick(&limits);
                    Item::SetMiterLimit(cur.3)
                }
            };
            h.items.push(s);
        }
        let kind = if builder { rng.below(16) } else { 0 };
        let radius = |rng: &mut Rng| match rng.below(3) {
            0 => w * rng.uniform(0.05, 1.5) as f32,
            _ => ext * rng.uniform(0.05, 0.6) as f32,
        };
        let (item, name) = match kind {
            0..=3 => {
                let start = rp(rng);
                let mut last = start;
                let mut segs = Vec::new();
                let mut curvy = false;
                for _ in 0..rng.range(0, 5).max(1) {
                    let p = match rng.below(6) {
                        // a short edge against the width
                        0 => point(last.x + w * rng.uniform(-0.6, 0.6) as f32, last.y + w * rng.uniform(-0.6, 0.6) as f32),
                        _ => rp(rng),
                    };
                    segs.push(match rng.below(8) {
                        0 => {
                            curvy = true;
                            Seg::Quad(rp(rng), p)
                        }
                        1 => {
                            curvy = true;
                            Seg::Cubic(rp(rng), rp(rng), p)
                        }
                        _ => Seg::Line(p),
                    });
                    last = p;
                }
                let wf: Vec<f32> = (0..segs.len() + 1).map(|_| if vw { rng.uniform(0.3, 2.5) as f32 } else { 1.0 }).collect();
                (Item::Path(start, segs, rng.chance(1, 3), wf), if curvy { "curve-path" } else { "polyline" })
            }
            4..=9 => {
                let thr = if cur.0 == LineJoin::Miter { 1.0 } else { 0.05 } * w;
                let long = ext * rng.uniform(0.2, 1.5) as f32;
                let (short, name) = match rng.below(10) {
                    0..=3 => (thr * rng.uniform(0.05, 0.98) as f32, "thin-rect"),
                    4 => (thr * *rng.pick(&[0.999f32, 1.0, 1.001]), "borderline-rect"),
                    5 => (0.0, "flat-rect"),
                    6 => (thr * rng.uniform(0.05, 0.98) as f32, "thin2-rect"),
                    _ => (ext * rng.uniform(0.2, 1.5) as f32, "rect"),
                };
                let long = if name == "thin2-rect" { thr * rng.uniform(0.05, 0.98) as f32 } else { long };
                let o = rp(rng);
                let (dx, dy) = if rng.chance(1, 2) { (long, short) } else { (short, long) };
                (Item::Rect(Box2D { min: o, max: point(o.x + dx, o.y + dy) }, rng.chance(1, 2)), name)
            }
            10 => (Item::Circle(rp(rng), radius(rng), rng.chance(1, 2)), "circle"),
            11 => (Item::Ellipse(rp(rng), vector(radius(rng), radius(rng)), rng.uniform(-3.0, 3.0) as f32, rng.chance(1, 2)), "ellipse"),
            12 => {
                let o = rp(rng);
                let (dx, dy) = (ext * rng.uniform(0.2, 1.0) as f32, ext * rng.uniform(0.2, 1.0) as f32);
                let m = dx.min(dy);
                let mut r = [0.0f32; 4];
                for x in r.iter_mut() {
                    *x = if rng.chance(1, 4) { 0.0 } else { m * rng.uniform(0.0, 0.5) as f32 };
                }
                (Item::RoundRect(Box2D { min: o, max: point(o.x + dx, o.y + dy) }, r, rng.chance(1, 2)), "rounded-rect")
            }
            13 => {
                let k = rng.range(2, 5) as usize;
                (Item::Polygon((0..k).map(|_| rp(rng)).collect(), rng.chance(1, 2)), "polygon")
            }
            14 => (Item::Segment(rp(rng), rp(rng)), "segment"),
            _ => (Item::PointAt(rp(rng)), "point"),
        };
        h.items.push(item);
        h.last = name;
    }
    if builder {
        // back to the case's configuration (a setter is also called when nothing changed, now and then)
        if cur.0 != cfg.join || rng.chance(1, 4) {
            h.items.push(Item::SetJoin(cfg.join));
        }
        if cur.1 != cfg.cap1 || rng.chance(1, 4) {
            h.items.push(Item::SetStartCap(cfg.cap1));
        }
        if cur.2 != cfg.cap2 || rng.chance(1, 4) {
            h.items.push(Item::SetEndCap(cfg.cap2));
        }
        if cur.3 != cfg.ml || rng.chance(1, 4) {
            h.items.push(Item::SetMiterLimit(cfg.ml));
        }
    }
    h
}

/// one call on the builder as the program model reads it (`Model/Tess/StrokeBuilderProg.lean`, `Cmd`)
#[derive(Clone, Debug)]
enum Cmd {
    B(Point),
    L(Point),
    Q(Point, Point),
    C(Point, Point, Point),
    E(bool),
    R(Box2D<f32>, bool),
    P(Vec<Point>, bool),
    S(Point, Point),
    O(Point),
    SJ(LineJoin),
    SS(LineCap),
    SE(LineCap),
    SM(f32),
}

/// records the begin / line_to / curve / end calls a generic lyon_path helper (add_circle, add_ellipse,
/// add_rounded_rectangle) makes
struct Expand(Vec<Cmd>, u32);

impl AttrPathBuilder for Expand {
    fn num_attributes(&self) -> usize {
        0
    }
    fn begin(&mut self, at: Point, _: &[f32]) -> EndpointId {
        self.0.push(Cmd::B(at));
        self.1 += 1;
        EndpointId(self.1 - 1)
    }
    fn end(&mut self, close: bool) {
        self.0.push(Cmd::E(close));
    }
    fn line_to(&mut self, to: Point, _: &[f32]) -> EndpointId {
        self.0.push(Cmd::L(to));
        self.1 += 1;
        EndpointId(self.1 - 1)
    }
    fn quadratic_bezier_to(&mut self, ctrl: Point, to: Point, _: &[f32]) -> EndpointId {
        self.0.push(Cmd::Q(ctrl, to));
        self.1 += 1;
        EndpointId(self.1 - 1)
    }
    fn cubic_bezier_to(&mut self, c1: Point, c2: Point, to: Point, _: &[f32]) -> EndpointId {
        self.0.push(Cmd::C(c1, c2, to));
        self.1 += 1;
        EndpointId(self.1 - 1)
    }
}

/// the whole program (history + the sub-path under test) as model commands
fn prog_cmds(poly: &Poly, hist: &Hist) -> Vec<Cmd> {
    let mut ex = Expand(Vec::new(), 0);
    for it in &hist.items {
        match it {
            Item::Path(start, segs, close, _) => {
                ex.0.push(Cmd::B(*start));
                for s in segs {
                    ex.0.push(match s {
                        Seg::Line(p) => Cmd::L(*p),
                        Seg::Quad(c, p) => Cmd::Q(*c, *p),
                        Seg::Cubic(c1, c2, p) => Cmd::C(*c1, *c2, *p),
                    });
                }
                ex.0.push(Cmd::E(*close));
            }
            Item::Rect(r, pos) => ex.0.push(Cmd::R(*r, *pos)),
            Item::Circle(c, r, pos) => ex.add_circle(*c, *r, winding(*pos), &[]),
            Item::Ellipse(c, r, rot, pos) => ex.add_ellipse(*c, *r, Angle::radians(*rot), winding(*pos), &[]),
            Item::RoundRect(bx, r, pos) => ex.add_rounded_rectangle(bx, &radii_of(r), winding(*pos), &[]),
            Item::Polygon(pts, closed) => ex.0.push(Cmd::P(pts.clone(), *closed)),
            Item::Segment(p, q) => ex.0.push(Cmd::S(*p, *q)),
            Item::PointAt(p) => ex.0.push(Cmd::O(*p)),
            Item::SetJoin(j) => ex.0.push(Cmd::SJ(*j)),
            Item::SetStartCap(c) => ex.0.push(Cmd::SS(*c)),
            Item::SetEndCap(c) => ex.0.push(Cmd::SE(*c)),
            Item::SetMiterLimit(m) => ex.0.push(Cmd::SM(*m)),
        }
    }
    let pts = poly.f32pts();
    match hist.via {
        1 => ex.0.push(Cmd::P(pts, poly.closed)),
        2 if pts.len() == 2 && !poly.closed => ex.0.push(Cmd::S(pts[0], pts[1])),
        _ => {
            ex.0.push(Cmd::B(pts[0]));
            for q in &pts[1..] {
                ex.0.push(Cmd::L(*q));
            }
            ex.0.push(Cmd::E(poly.closed));
        }
    }
    ex.0
}

fn put_cmds(o: &mut Out, cmds: &[Cmd]) {
    o.u(cmds.len() as u64);
    for c in cmds {
        match c {
            Cmd::B(p) => {
                o.t("B").p(*p);
            }
            Cmd::L(p) => {
                o.t("L").p(*p);
            }
            Cmd::Q(c, p) => {
                o.t("Q").p(*c).p(*p);
            }
            Cmd::C(c1, c2, p) => {
                o.t("C").p(*c1).p(*c2).p(*p);
            }
            Cmd::E(c) => {
                o.t("E").b(*c);
            }
            Cmd::R(r, pos) => {
                o.t("R").p(r.min).p(r.max).b(*pos);
            }
            Cmd::P(pts, closed) => {
                o.t("P").u(pts.len() as u64).b(*closed);
                for p in pts {
                    o.p(*p);
                }
            }
            Cmd::S(p, q) => {
                o.t("S").p(*p).p(*q);
            }
            Cmd::O(p) => {
                o.t("O").p(*p);
            }
            Cmd::SJ(j) => {
                o.t("SJ").t(join_name(*j));
            }
            Cmd::SS(c) => {
                o.t("SS").t(cap_name(*c));
            }
            Cmd::SE(c) => {
                o.t("SE").t(cap_name(*c));
            }
            Cmd::SM(m) => {
                o.t("SM").f(*m);
            }
        }
    }
}

impl Hist {
    /// replay information on the CASE line of the checker families (not read by the model)
    fn put(&self, poly: &Poly, o: &mut Out) {
        o.t("hist").t(join_name(self.init.0)).t(cap_name(self.init.1)).t(cap_name(self.init.2)).f(self.init.3);
        o.u(self.n_attr as u64).u(self.via as u64).b(self.warm.is_some());
        if self.items.is_empty() {
            o.u(0);
        } else {
            put_cmds(o, &prog_cmds(poly, self));
        }
    }
    fn tag(&self) -> String {
        format!("{}{}", if self.items.is_empty() { "alone".to_string() } else { format!("after:{}", self.last) }, if self.warm.is_some() { " used-tessellator" } else { "" })
    }
}

// ---------------------------------------------------------------------------------------------
// generators

fn pick_width(rng: &mut Rng, lattice: bool) -> f64 {
    if lattice {
        *rng.pick(&[0.25, 0.5, 1.0, 2.0])
    } else {
        match rng.below(4) {
            0 => *rng.pick(&[0.1, 0.5, 1.0, 4.0]),
            _ => 10f64.powf(rng.uniform(-1.0, 0.6)),
        }
    }
}

fn fallback(w: f64, closed: bool) -> Poly {
    let l = (MIN_LEN_WIDTHS * w).ceil() + 1.0;
    if closed {
        Poly { pts: vec![(0.0, 0.0), (l, 0.0), (l, l), (0.0, l)], closed: true, kind: "square" }
    } else {
        Poly { pts: vec![(0.0, 0.0), (l, 0.0)], closed: false, kind: "single" }
    }
}

/// A polyline of the no-fold regime for width `w` with at most `max_segs` segments.
fn gen_poly(rng: &mut Rng, w: f64, lattice: bool, max_segs: usize) -> Poly {
    let lmin = MIN_LEN_WIDTHS * w;
    for _try in 0..40 {
        let p = if lattice {
            match rng.below(5) {
                0 | 1 => {
                    // axis-aligned lattice walk: turns 0 / +-90 degrees
                    let n = rng.range(1, max_segs as i64) as usize;
                    let mut d = rng.below(4) as i64;
                    let mut p = (rng.range(-4, 4) as f64, rng.range(-4, 4) as f64);
                    let mut pts = vec![p];
                    for _ in 0..n {
                        let l = lmin.ceil() + 1.0 + rng.range(0, 3) as f64;
                        let v = [(1.0, 0.0), (0.0, 1.0), (-1.0, 0.0), (0.0, -1.0)][d as usize];
                        p = add(p, mul(v, l));
                        pts.push(p);
                        d = (d + *rng.pick(&[0i64, 1, 1, 3, 3])) % 4;
                    }
                    Poly { pts, closed: false, kind: "axis" }
                }
                2 | 3 => {
                    // 8-direction lattice walk: turns multiple of 45 degrees up to 135
                    let n = rng.range(1, max_segs as i64) as usize;
                    let mut d = rng.below(8) as i64;
                    let mut p = (rng.range(-4, 4) as f64, rng.range(-4, 4) as f64);
                    let mut pts = vec![p];
                    for _ in 0..n {
                        let v = [(1.0, 0.0), (1.0, 1.0), (0.0, 1.0), (-1.0, 1.0), (-1.0, 0.0), (-1.0, -1.0), (0.0, -1.0), (1.0, -1.0)][d as usize];
                        let l = (lmin / len(v)).ceil() + 1.0 + rng.range(0, 3) as f64;
                        p = add(p, mul(v, l));
                        pts.push(p);
                        d = (d + *rng.pick(&[0i64, 1, 2, 3, 5, 6, 7])) % 8;
                    }
                    Poly { pts, closed: false, kind: "diag" }
                }
                _ => {
                    // closed lattice shapes: rectangle, L, diamond, right triangle
                    let a = lmin.ceil() + 1.0 + rng.range(0, 2) as f64;
                    let b = lmin.ceil() + 1.0 + rng.range(0, 2) as f64;
                    let mut pts = match rng.below(4) {
                        0 => vec![(0.0, 0.0), (a, 0.0), (a, b), (0.0, b)],
                        1 => vec![(0.0, 0.0), (a + b, 0.0), (a + b, a), (b, a), (b, a + b), (0.0, a + b)],
                        2 => vec![(a, 0.0), (2.0 * a, a), (a, 2.0 * a), (0.0, a)],
                        _ => vec![(0.0, 0.0), (2.0 * a, 0.0), (0.0, 2.0 * a)],
                    };
                    if rng.chance(1, 2) {
                        pts.reverse();
                    }
                    let k = rng.below(pts.len() as u64) as usize;
                    pts.rotate_left(k);
                    Poly { pts, closed: true, kind: "closed-lattice" }
                }
            }
        } else {
            match rng.below(6) {
                0 | 1 | 2 => {
                    // random walk: turn uniform in +-150 degrees, length 4w..12w
                    let n = rng.range(1, max_segs as i64) as usize;
                    let mut h = rng.uniform(0.0, std::f64::consts::TAU);
                    let mut p = (rng.uniform(-20.0, 20.0), rng.uniform(-20.0, 20.0));
                    let mut pts = vec![p];
                    let sharp = rng.chance(1, 3);
                    for _ in 0..n {
                        let l = lmin * rng.uniform(1.02, 3.0);
                        p = add(p, mul(dir(h), l));
                        pts.push(p);
                        let t = if sharp { rng.uniform(100.0, 149.0) * if rng.chance(1, 2) { 1.0 } else { -1.0 } } else { rng.uniform(-149.0, 149.0) };
                        h += t.to_radians();
                    }
                    Poly { pts, closed: false, kind: if sharp { "walk-sharp" } else { "walk" } }
                }
                3 => {
                    // convex polygon: jittered regular n-gon
                    let n = rng.range(3, (max_segs as i64).max(3)) as usize;
                    let r = lmin * rng.uniform(1.1, 2.5) / (2.0 * (std::f64::consts::PI / n as f64).sin());
                    let ph = rng.uniform(0.0, 6.28);
                    let c = (rng.uniform(-10.0, 10.0), rng.uniform(-10.0, 10.0));
                    let mut pts: Vec<V> = (0..n)
                        .map(|i| add(c, mul(dir(ph + (i as f64 + rng.uniform(-0.15, 0.15)) * std::f64::consts::TAU / n as f64), r * rng.uniform(0.9, 1.2))))
                        .collect();
                    if rng.chance(1, 2) {
                        pts.reverse();
                    }
                    Poly { pts, closed: true, kind: "closed-convex" }
                }
                4 => {
                    // non-convex polygon: star-like with alternating radii
                    let n = 2 * rng.range(3, ((max_segs / 2) as i64).max(3)) as usize;
                    let r = lmin * rng.uniform(1.5, 3.0);
                    let ph = rng.uniform(0.0, 6.28);
                    let inner = rng.uniform(0.45, 0.8);
                    let mut pts: Vec<V> = (0..n)
                        .map(|i| mul(dir(ph + i as f64 * std::f64::consts::TAU / n as f64), if i % 2 == 0 { r } else { r * inner }))
                        .collect();
                    if rng.chance(1, 2) {
                        pts.reverse();
                    }
                    Poly { pts, closed: true, kind: "closed-star" }
                }
                _ => {
                    let h = rng.uniform(0.0, 6.28);
                    let p = (rng.uniform(-50.0, 50.0), rng.uniform(-50.0, 50.0));
                    Poly { pts: vec![p, add(p, mul(dir(h), lmin * rng.uniform(1.02, 5.0)))], closed: false, kind: "single" }
                }
            }
        };
        let s = p.snapped();
        if s.in_regime(w) && s.segments().len() <= max_segs {
            return s;
        }
    }
    fallback(w, rng.chance(1, 2))
}

fn gen_cfg(rng: &mut Rng, w: f64, round_only: bool) -> Cfg {
    let caps = [LineCap::Butt, LineCap::Square, LineCap::Round];
    let joins = [LineJoin::Miter, LineJoin::MiterClip, LineJoin::Round, LineJoin::Bevel];
    let tol = match rng.below(5) {
        0 => 0.1,
        1 => w * 0.25,
        2 => w * 0.1,
        3 => w * 0.03,
        _ => w * 0.01,
    };
    Cfg {
        w: w as f32,
        join: if round_only { LineJoin::Round } else { *rng.pick(&joins) },
        cap1: if round_only { LineCap::Round } else { *rng.pick(&caps) },
        cap2: if round_only { LineCap::Round } else { *rng.pick(&caps) },
        ml: *rng.pick(&[1.0f32, 1.0, 1.25, 1.5, 2.0, 4.0]),
        tol: tol as f32,
        entry: rng.below(6) as u8,
    }
}

// ---------------------------------------------------------------------------------------------
// regions (unions of convex counter-clockwise contours)

fn ccw(mut c: Vec<V>) -> Vec<V> {
    let n = c.len();
    let a: f64 = (0..n).map(|i| cross(c[i], c[(i + 1) % n])).sum();
    if a < 0.0 {
        c.reverse();
    }
    c
}

/// rectangle around segment `a -> b` of half-width `r`, lengthened by `ext` at both ends
fn rect(a: V, b: V, r: f64, ext: f64) -> Vec<V> {
    let t = mul(sub(b, a), 1.0 / len(sub(b, a)));
    let n = (-t.1, t.0);
    let a2 = sub(a, mul(t, ext));
    let b2 = add(b, mul(t, ext));
    ccw(vec![add(a2, mul(n, r)), sub(a2, mul(n, r)), sub(b2, mul(n, r)), add(b2, mul(n, r))])
}

/// Circular sector of radius `r` around `c` from angle `a0` over `span > 0` (counter-clockwise),
/// approximated with `k` pieces from outside (tangent polygon) or from inside (chords).
fn sector(c: V, a0: f64, span: f64, r: f64, k: usize, outside: bool) -> Vec<V> {
    let mut p = Vec::new();
    let full = span >= std::f64::consts::TAU - 1e-9;
    let span = span.min(std::f64::consts::TAU);
    let h = span / (2.0 * k as f64);
    if outside {
        if !full {
            p.push(c);
            p.push(add(c, mul(dir(a0), r)));
        }
        for i in 0..k {
            p.push(add(c, mul(dir(a0 + (2 * i + 1) as f64 * h), r / h.cos())));
        }
        if !full {
            p.push(add(c, mul(dir(a0 + span), r)));
        }
    } else {
        if !full {
            p.push(c);
        }
        let m = if full { k } else { k + 1 };
        for i in 0..m {
            p.push(add(c, mul(dir(a0 + (2 * i) as f64 * h), r)));
        }
    }
    ccw(p)
}

struct Region {
    contours: Vec<Vec<V>>,
}

impl Region {
    fn edges(&self) -> usize {
        self.contours.iter().map(|c| c.len()).sum()
    }
    fn put(&self, o: &mut Out) {
        o.u(self.edges() as u64);
        for c in &self.contours {
            let n = c.len();
            for i in 0..n {
                let (a, b) = (c[i], c[(i + 1) % n]);
                o.f(a.0).f(a.1).f(b.0).f(b.1);
            }
        }
    }
}

/// per-vertex reach factor of a join, as lyon decides it (`miter_limit_is_exceeded`: the miter is
/// kept while its length `1/cos(turn/2)` is at most `2 * miter_limit`)
fn join_factor(cfg: &Cfg, t0: V, t1: V) -> f64 {
    let c = dot(t0, t1).clamp(-1.0, 1.0);
    let nn = (2.0 / (1.0 + c)).sqrt(); // |normal| = 1 / cos(turn / 2)
    let ml = cfg.ml as f64;
    match cfg.join {
        LineJoin::Round | LineJoin::Bevel => 1.0,
        LineJoin::Miter => {
            if nn <= 2.0 * ml * (1.0 + 1e-5) {
                nn
            } else {
                1.0
            }
        }
        LineJoin::MiterClip => {
            if nn <= 2.0 * ml * (1.0 + 1e-5) {
                nn
            } else {
                // corner of the clipped miter: on the offset line (distance 1) where the clip
                // line at distance `ml` from the join crosses it
                let ch = 1.0 / nn; // cos(turn/2)
                let sh = (1.0 - ch * ch).max(0.0).sqrt();
                let a = (ml - ch) / sh;
                (1.0 + a * a).sqrt().min(nn)
            }
        }
    }
}

fn cap_factor(c: LineCap) -> f64 {
    match c {
        LineCap::Square => std::f64::consts::SQRT_2,
        _ => 1.0,
    }
}

fn pieces(span: f64, max_half_angle: f64, cap: usize) -> usize {
    (((span / (2.0 * max_half_angle)).ceil()) as usize).clamp(1, cap)
}

const PAD: f64 = 0.08;

/// The wedge on the outer side of a turn, as (start angle, counter-clockwise span): from the
/// outward normal of one segment to the outward normal of the other.
fn outer_wedge(t0: V, t1: V) -> (f64, f64) {
    let turn = cross(t0, t1).atan2(dot(t0, t1));
    if turn >= 0.0 {
        // left turn: outer side on the right; right normals (t.y, -t.x) rotate counter-clockwise
        ((-t0.0).atan2(t0.1), turn)
    } else {
        // right turn: outer side on the left; start from the left normal of the outgoing segment
        (t1.0.atan2(-t1.1), -turn)
    }
}

/// Outer region: rectangles of half-width `hw*(1+eps)` plus sectors at the vertices on the outer
/// side of each turn / around each end.  `fine`: sector polygons within `gap` of the circle.
fn outer_region(poly: &Poly, cfg: &Cfg, eps: f64, fine: Option<f64>) -> Region {
    let hw = cfg.w as f64 * 0.5;
    let mut contours = Vec::new();
    let segs = poly.segments();
    let r0 = hw * (1.0 + eps);
    for s in &segs {
        contours.push(rect(s.0, s.1, r0, hw * eps));
    }
    let half = |r: f64| match fine {
        Some(gap) => (r / (r + gap)).acos().max(0.02),
        None => std::f64::consts::PI / 12.0,
    };
    for (j, t0, t1) in poly.joins() {
        let r = hw * join_factor(cfg, t0, t1) * (1.0 + eps);
        let (a0, span) = outer_wedge(t0, t1);
        let k = pieces(span + 2.0 * PAD, half(r), 24);
        contours.push(sector(j, a0 - PAD, span + 2.0 * PAD, r, k, true));
    }
    if !poly.closed || segs.len() <= 2 {
        let first = segs[0];
        let last = segs[segs.len() - 1];
        let ends = [(first.0, sub(first.0, first.1), cfg.cap1), (last.1, sub(last.1, last.0), cfg.cap2)];
        for (c, out, cap) in ends {
            let r = hw * cap_factor(cap) * (1.0 + eps);
            let a = out.1.atan2(out.0);
            let span = std::f64::consts::PI + 2.0 * PAD;
            let k = pieces(span, half(r), 24);
            contours.push(sector(c, a - span / 2.0, span, r, k, true));
        }
    }
    Region { contours }
}

/// Inner region: rectangles of half-width `r` (+ inscribed sectors of radius `r` when `discs`).
fn inner_region(poly: &Poly, r: f64, discs: Option<f64>) -> Region {
    let mut contours = Vec::new();
    let segs = poly.segments();
    for s in &segs {
        contours.push(rect(s.0, s.1, r, 0.0));
    }
    if let Some(gap) = discs {
        let half = (1.0 - gap / r).clamp(-1.0, 1.0).acos().max(0.02);
        for (j, t0, t1) in poly.joins() {
            let (a0, span) = outer_wedge(t0, t1);
            if span < 1e-3 {
                continue;
            }
            let k = pieces(span + 2.0 * PAD, half, 24);
            contours.push(sector(j, a0 - PAD, span + 2.0 * PAD, r, k, false));
        }
        if !poly.closed || segs.len() <= 2 {
            let first = segs[0];
            let last = segs[segs.len() - 1];
            for (c, out) in [(first.0, sub(first.0, first.1)), (last.1, sub(last.1, last.0))] {
                let a = out.1.atan2(out.0);
                let span = std::f64::consts::PI + 2.0 * PAD;
                let k = pieces(span, half, 24);
                contours.push(sector(c, a - span / 2.0, span, r, k, false));
            }
        }
    }
    Region { contours }
}

fn put_tris(o: &mut Out, mesh: &Mesh) {
    o.u((mesh.indices.len() / 3) as u64);
    for t in mesh.indices.chunks(3) {
        for &i in t {
            let p = mesh.vertices.get(i as usize).copied().unwrap_or(point(f32::NAN, f32::NAN));
            o.p(p);
        }
    }
}

/// Witness predicate of the finding `C06-round-arc-subdivision-rounded-down` (fixed in lyon commit
/// da84e187: `.log2().ceil()`; before, `.round()`): some round join
/// (arc = the turn angle) or round cap (two quarter arcs) of this input needs `n = ceil(arc/step)`
/// chords for the tolerance but `round(log2 n)` subdivisions give fewer than `n` (n = 5, 9, 10, 11, 17..22, ...).
/// Computed with a margin (lyon measures the arc with a polynomial atan2), so borderline inputs count as members.
fn arc_rounded_down(span: f64, hw: f64, tol: f64) -> bool {
    let t = tol.min(hw);
    let step = 2.0 * ((hw - t) / hw).acos();
    if !(step > 0.0) {
        return true;
    }
    let ratio = span / step;
    let margin = 1.0e-3 / step + 2.0e-3 * ratio;
    [ratio - margin, ratio, ratio + margin].iter().any(|r| {
        let n = r.ceil().max(0.0);
        if n < 1.0 {
            return false;
        }
        let k = n.log2().round();
        2f64.powf(k) < n
    })
}

fn has_rounded_down_arc(poly: &Poly, cfg: &Cfg) -> bool {
    let hw = cfg.w as f64 * 0.5;
    let tol = cfg.tol as f64;
    let open = !poly.closed || poly.segments().len() <= 2;
    (open && arc_rounded_down(std::f64::consts::FRAC_PI_2, hw, tol))
        || poly.joins().iter().any(|(_, t0, t1)| {
            let (_, span) = outer_wedge(*t0, *t1);
            span > 1e-3 && arc_rounded_down(span, hw, tol)
        })
}

#[derive(Clone, Copy, PartialEq)]
enum Fam {
    Cover,
    Reach,
    RoundIn,
    RoundOut,
}

fn stroke_case(ctx: &mut Ctx, fam: Fam) {
    let name = match fam {
        Fam::Cover => "chk_cover",
        Fam::Reach => "chk_reach",
        Fam::RoundIn => "chk_round_in",
        Fam::RoundOut => "chk_round_out",
    };
    ctx.case_check(name, |rng| {
        let lattice = rng.chance(2, 5);
        let w = pick_width(rng, lattice);
        let round = fam == Fam::RoundIn || fam == Fam::RoundOut;
        let max_segs = if round { 4 } else { 7 };
        let poly = gen_poly(rng, w, lattice, max_segs);
        let mut cfg = gen_cfg(rng, w, round);
        // the call history (drawn after everything else: a case id keeps its polyline and configuration,
        // except that a program with shape helpers / setters runs on the builder entry)
        let hist = gen_hist(rng, &poly, &mut cfg, false);
        let mut args = Out::new();
        cfg.put(&mut args);
        args.b(poly.closed).u(poly.pts.len() as u64);
        for p in poly.f32pts() {
            args.p(p);
        }
        hist.put(&poly, &mut args);
        let nseg = poly.segments().len();
        let tag = format!(
            "{} {} {} {}/{} {} n={} {}",
            name,
            poly.kind,
            join_name(cfg.join),
            cap_name(cfg.cap1),
            cap_name(cfg.cap2),
            ENTRY[cfg.entry as usize],
            nseg,
            hist.tag()
        );
        (args, tag, move || {
            let mut rec = Rec::new(true);
            let res = run_hist(&poly, &cfg, &hist, &mut rec);
            // the triangles emitted for the sub-path under test (vertices by id: all are kept)
            let mesh = rec.selected();
            let mut o = Out::new();
            let mut orc = Oracle::new();
            if let Err(e) = res {
                o.t("err").t(&e.replace(' ', "_"));
                orc.check(false, "stroke/success", "generic", || format!("tessellation error {}", e));
                return (CaseOut { imp: o, orcl: orc.verdict }, None);
            }
            o.t("ok").u(rec.vsel.iter().filter(|s| **s).count() as u64).u((mesh.indices.len() / 3) as u64);
            let nv = mesh.vertices.len() as u32;
            orc.check(mesh.indices.len() % 3 == 0, "stroke/index-count", "generic", || "indices not a multiple of 3".into());
            orc.check(rec.tris.iter().all(|t| t.iter().all(|&i| i < nv)), "stroke/index-valid", "generic", || "index out of range".into());
            let fin = |p: &Point| p.x.is_finite() && p.y.is_finite();
            orc.check(
                mesh.vertices.iter().zip(rec.vsel.iter()).all(|(p, s)| !*s || fin(p)) && mesh.indices.iter().all(|&i| mesh.vertices.get(i as usize).map_or(true, fin)),
                "stroke/finite",
                "generic",
                || "non-finite vertex".into(),
            );
            orc.check(!mesh.indices.is_empty(), "stroke/nonempty", "generic", || "no triangles for a non-degenerate polyline".into());
            if orc.failed() {
                return (CaseOut { imp: o, orcl: orc.verdict }, None);
            }
            let hw = cfg.w as f64 * 0.5;
            let tol = cfg.tol as f64;
            let scale = poly.scale() + cfg.w as f64;
            // rounding allowance: f32 vertex arithmetic of the stroker
            let mut delta = 2.0e-6 * scale + 1.0e-5 * hw;
            if cfg.entry >= 4 {
                // the variable-width route measures every edge's direction with euclid's
                // `Vector2D::angle_from_x_axis` = `Trig::fast_atan2` (a polynomial with a documented error
                // of up to 2.04e-4 rad, Appendix A of DESIGN.md): the side points of an edge are rotated by
                // up to that angle about its end points, i.e. displaced by up to 2.04e-4 * hw, and a miter /
                // clip construction on top of them amplifies this by at most the join factor (< 3 in the
                // no-fold regime).  Observed: 1.3e-4 * hw.  Stated allowance for these entries:
                delta += 3.0 * 2.1e-4 * hw;
            }
            let eps = 1.0e-5;
            let (prefix, mode, region) = match fam {
                Fam::Cover => ("stroke.rect", 2, inner_region(&poly, hw, None)),
                Fam::Reach => ("stroke.reach", 3, outer_region(&poly, &cfg, eps, None)),
                Fam::RoundIn => {
                    // Inputs matching the witness predicate of the (fixed, lyon commit da84e187) finding
                    // C06-round-arc-subdivision-rounded-down keep their own clause, so a regression of
                    // that defect is reported under its name; the demand is the stated tolerance everywhere.
                    let member = has_rounded_down_arc(&poly, &cfg);
                    let prefix = if member { "stroke.round-inner.subdiv-rounded-down" } else { "stroke.round-inner" };
                    let allowed = tol;
                    let r = hw - allowed - eps * hw;
                    if r <= 0.05 * hw {
                        // nothing is demanded: the tolerance eats the whole half-width
                        orc.skip("tolerance-exceeds-half-width");
                        return (CaseOut { imp: o, orcl: orc.verdict }, None);
                    }
                    (prefix, 2, inner_region(&poly, r, Some((0.25 * tol).min(0.5 * r))))
                }
                Fam::RoundOut => ("stroke.round-outer", 3, outer_region(&poly, &cfg, eps, Some(0.5 * tol))),
            };
            let mut c = Out::new();
            c.t(prefix).u(1).u(mode).f(delta);
            region.put(&mut c);
            put_tris(&mut c, &mesh);
            (CaseOut { imp: o, orcl: orc.verdict }, Some(c))
        })
    });
}

// ---------------------------------------------------------------------------------------------
// numeric families: the component model of Model/Tess/StrokeQuad.lean against the real code

/// `math_utils::compute_normal` through the `verif_stroke` hook.
fn normal_case(ctx: &mut Ctx) {
    ctx.case("normal:32", |rng| {
        let kind = rng.below(5);
        let (v1, v2, kn) = match kind {
            0 => {
                // lattice directions (not normalised: the function is modelled for any input)
                let d = [(1.0, 0.0), (0.0, 1.0), (-1.0, 0.0), (0.0, -1.0), (1.0, 1.0), (-1.0, 1.0), (0.5, -0.5), (0.0, 0.0)];
                (*rng.pick(&d), *rng.pick(&d), "lattice")
            }
            1 => {
                // nearly opposite unit vectors: the `v12.square_length() < epsilon` guard
                let a = rng.uniform(0.0, 6.28);
                let e = rng.uniform(-0.02, 0.02);
                (dir(a), dir(a + std::f64::consts::PI + e), "near-opposite")
            }
            2 => {
                let a = rng.uniform(0.0, 6.28);
                let e = rng.uniform(-1e-3, 1e-3);
                (dir(a), dir(a + e), "near-straight")
            }
            _ => (dir(rng.uniform(0.0, 6.28)), dir(rng.uniform(0.0, 6.28)), "unit"),
        };
        let v1 = lyon_path::math::vector(v1.0 as f32, v1.1 as f32);
        let v2 = lyon_path::math::vector(v2.0 as f32, v2.1 as f32);
        let mut args = Out::new();
        args.v(v1).v(v2);
        (args, format!("normal {}", kn), move || {
            let n = lyon_tessellation::verif_stroke::compute_normal(v1, v2);
            let mut o = Out::new();
            o.v(n);
            let mut orc = Oracle::new();
            // for unit tangents away from the guards the result is the miter vector:
            // n . perp(v1) = 1 and |n|^2 = 2 / (1 + v1 . v2)
            let c = (v1.dot(v2)) as f64;
            let unit = ((v1.length() - 1.0).abs() < 1e-5) && ((v2.length() - 1.0).abs() < 1e-5);
            if unit && c > -0.99 {
                let n1 = lyon_path::math::vector(-v1.y, v1.x);
                let d = n.dot(n1) as f64;
                let l2 = n.square_length() as f64;
                orc.check((d - 1.0).abs() < 1e-4, "compute_normal/offset", "generic", || format!("n.n1 = {}", d));
                orc.check((l2 - 2.0 / (1.0 + c)).abs() < 1e-3 * (2.0 / (1.0 + c)), "compute_normal/length", "generic", || format!("|n|^2 = {} c = {}", l2, c));
            }
            CaseOut { imp: o, orcl: orc.verdict }
        })
    });
}

/// The whole mesh of an open two-segment polyline (non-round join, butt/square caps) against
/// `StrokeQuad.stroke2`: vertex positions in emission order and triangle ids.
fn stroke2_case(ctx: &mut Ctx) {
    ctx.case("stroke2:32", |rng| {
        let kind = rng.below(4);
        let (w, pts, kn): (f64, [V; 3], &str) = match kind {
            0 => {
                // axis-aligned lattice: side points exactly representable
                let w = *rng.pick(&[0.5, 1.0, 2.0]);
                let a = (rng.range(-8, 8) as f64, rng.range(-8, 8) as f64);
                let d = rng.below(4) as usize;
                let dirs = [(1.0, 0.0), (0.0, 1.0), (-1.0, 0.0), (0.0, -1.0)];
                let j = add(a, mul(dirs[d], rng.range(4, 12) as f64));
                let d2 = (d + *rng.pick(&[0usize, 1, 3])) % 4;
                let b = add(j, mul(dirs[d2], rng.range(4, 12) as f64));
                (w, [a, j, b], "axis")
            }
            1 => {
                // 8-direction lattice
                let w = *rng.pick(&[0.5, 1.0, 2.0]);
                let a = (rng.range(-8, 8) as f64, rng.range(-8, 8) as f64);
                let dirs = [(1.0, 0.0), (1.0, 1.0), (0.0, 1.0), (-1.0, 1.0), (-1.0, 0.0), (-1.0, -1.0), (0.0, -1.0), (1.0, -1.0)];
                let d = rng.below(8) as usize;
                let j = add(a, mul(dirs[d], rng.range(6, 12) as f64));
                let d2 = (d + *rng.pick(&[0usize, 1, 2, 3, 5, 6, 7])) % 8;
                let b = add(j, mul(dirs[d2], rng.range(6, 12) as f64));
                (w, [a, j, b], "diag")
            }
            2 => {
                // no-fold regime, any angle up to 150 degrees
                let w = 10f64.powf(rng.uniform(-1.0, 0.6));
                let a = (rng.uniform(-20.0, 20.0), rng.uniform(-20.0, 20.0));
                let h = rng.uniform(0.0, 6.28);
                let j = add(a, mul(dir(h), w * rng.uniform(4.1, 12.0)));
                let h2 = h + rng.uniform(-149.0f64, 149.0).to_radians();
                let b = add(j, mul(dir(h2), w * rng.uniform(4.1, 12.0)));
                (w, [a, j, b], "regime")
            }
            _ => {
                // anything: short edges against the width, turns up to 179 degrees (fold branch)
                let w = 10f64.powf(rng.uniform(-1.0, 0.6));
                let a = (rng.uniform(-20.0, 20.0), rng.uniform(-20.0, 20.0));
                let h = rng.uniform(0.0, 6.28);
                let j = add(a, mul(dir(h), w * rng.uniform(0.4, 6.0)));
                let h2 = h + rng.uniform(-179.0f64, 179.0).to_radians();
                let b = add(j, mul(dir(h2), w * rng.uniform(0.4, 6.0)));
                (w, [a, j, b], "any")
            }
        };
        let poly = Poly { pts: pts.to_vec(), closed: false, kind: kn };
        let cfg = Cfg {
            w: w as f32,
            join: *rng.pick(&[LineJoin::Miter, LineJoin::MiterClip, LineJoin::Bevel]),
            cap1: *rng.pick(&[LineCap::Butt, LineCap::Square]),
            cap2: *rng.pick(&[LineCap::Butt, LineCap::Square]),
            ml: *rng.pick(&[1.0f32, 1.25, 2.0, 4.0]),
            tol: 0.01,
            entry: rng.below(4) as u8,
        };
        let mut args = Out::new();
        for p in poly.f32pts() {
            args.p(p);
        }
        args.f(cfg.w).f(cfg.ml).t(join_name(cfg.join)).t(cap_name(cfg.cap1)).t(cap_name(cfg.cap2));
        let tag = format!("stroke2 {} {} {}/{} {}", kn, join_name(cfg.join), cap_name(cfg.cap1), cap_name(cfg.cap2), ENTRY[cfg.entry as usize]);
        (args, tag, move || {
            let mut mesh = Mesh::new();
            let res = run_stroke(&poly, &cfg, &mut mesh);
            let mut o = Out::new();
            let mut orc = Oracle::new();
            match res {
                Err(e) => {
                    o.t("err").t(&e.replace(' ', "_"));
                    orc.check(false, "stroke/success", "generic", || format!("tessellation error {}", e));
                }
                Ok(()) => {
                    o.t("ok").u(mesh.vertices.len() as u64).u((mesh.indices.len() / 3) as u64).t("v");
                    for p in &mesh.vertices {
                        o.p(*p);
                    }
                    o.t("t");
                    for i in &mesh.indices {
                        o.u(*i as u64);
                    }
                }
            }
            CaseOut { imp: o, orcl: orc.verdict }
        })
    });
}

/// The whole mesh of a polyline of the explored regime (1..7 segments, open or closed, every join, every
/// cap, the four fixed-width entry points) against the COMPLETE stroker model `StrokeFull.tessellateFw`
/// (the model `Props/C06b.lean` proves coverage and reach about): vertex positions in emission order and
/// triangle ids.
fn fullmesh_case(ctx: &mut Ctx) {
    ctx.case("fullmesh:32", |rng| {
        let lattice = rng.chance(1, 3);
        let w = pick_width(rng, lattice);
        let poly = gen_poly(rng, w, lattice, 7);
        let mut cfg = gen_cfg(rng, w, false);
        cfg.entry = rng.below(4) as u8;
        if rng.chance(2, 3) {
            // the sub-regime of the theorems: Bevel / Miter, butt / square
            cfg.join = *rng.pick(&[LineJoin::Miter, LineJoin::Bevel]);
            cfg.cap1 = *rng.pick(&[LineCap::Butt, LineCap::Square]);
            cfg.cap2 = *rng.pick(&[LineCap::Butt, LineCap::Square]);
        }
        let mut args = Out::new();
        args.f(cfg.tol).f(cfg.w).f(cfg.ml).t(join_name(cfg.join)).t(cap_name(cfg.cap1)).t(cap_name(cfg.cap2));
        args.u(if poly.closed { 1 } else { 0 }).u(poly.pts.len() as u64);
        for p in poly.f32pts() {
            args.p(p);
        }
        let tag = format!(
            "fullmesh {} {} {}/{} {} segs={}",
            poly.kind,
            join_name(cfg.join),
            cap_name(cfg.cap1),
            cap_name(cfg.cap2),
            ENTRY[cfg.entry as usize],
            poly.segments().len()
        );
        (args, tag, move || {
            let mut mesh = Mesh::new();
            let res = run_stroke(&poly, &cfg, &mut mesh);
            let mut o = Out::new();
            let mut orc = Oracle::new();
            match res {
                Err(e) => {
                    o.t("err").t(&e.replace(' ', "_"));
                    orc.check(false, "stroke/success", "generic", || format!("tessellation error {}", e));
                }
                Ok(()) => {
                    o.t("ok").u(mesh.vertices.len() as u64).u((mesh.indices.len() / 3) as u64).t("v");
                    for p in &mesh.vertices {
                        o.p(*p);
                    }
                    o.t("t");
                    for i in &mesh.indices {
                        o.u(*i as u64);
                    }
                }
            }
            CaseOut { imp: o, orcl: orc.verdict }
        })
    });
}

/// The whole output of a PROGRAM on one `StrokeBuilder` - the call histories of the checker families (other
/// sub-paths, every shape helper incl. thin / borderline / flat rectangles, option setters, a builder created
/// with other options, a tessellator used before), then a polyline of the explored regime as the last
/// sub-path - against the program model `StrokeBuilderProg.tessellateProg`: every vertex position in emission
/// order, every triangle id.  (The model threads the vertex scratch by value: state that lyon forgets to
/// re-assign between sub-paths shows up here as a position mismatch.)
fn progmesh_case(ctx: &mut Ctx) {
    ctx.case("progmesh:32", |rng| {
        let lattice = rng.chance(1, 3);
        let w = pick_width(rng, lattice);
        let poly = gen_poly(rng, w, lattice, 5);
        let mut cfg = gen_cfg(rng, w, false);
        let hist = gen_hist(rng, &poly, &mut cfg, true);
        let mut args = Out::new();
        args.f(cfg.tol).f(cfg.w).f(hist.init.3).t(join_name(hist.init.0)).t(cap_name(hist.init.1)).t(cap_name(hist.init.2));
        put_cmds(&mut args, &prog_cmds(&poly, &hist));
        let tag = format!(
            "progmesh {} {} {}/{} {} attrs={} segs={}",
            poly.kind,
            join_name(cfg.join),
            cap_name(cfg.cap1),
            cap_name(cfg.cap2),
            hist.tag(),
            hist.n_attr,
            poly.segments().len()
        );
        (args, tag, move || {
            let mut rec = Rec::new(true);
            let res = run_hist(&poly, &cfg, &hist, &mut rec);
            let mut o = Out::new();
            let mut orc = Oracle::new();
            match res {
                Err(e) => {
                    o.t("err").t(&e.replace(' ', "_"));
                    orc.check(false, "stroke/success", "generic", || format!("tessellation error {}", e));
                }
                Ok(()) => {
                    o.t("ok").u(rec.verts.len() as u64).u(rec.tris.len() as u64).t("v");
                    for p in &rec.verts {
                        o.p(*p);
                    }
                    o.t("t");
                    for t in &rec.tris {
                        for i in t {
                            o.u(*i as u64);
                        }
                    }
                }
            }
            CaseOut { imp: o, orcl: orc.verdict }
        })
    });
}

fn main() {
    let mut ctx = Ctx::from_args("C06");
    let n = ctx.n(250, 5000);
    for _ in 0..n {
        stroke_case(&mut ctx, Fam::Cover);
        stroke_case(&mut ctx, Fam::Reach);
        stroke_case(&mut ctx, Fam::Cover);
        stroke_case(&mut ctx, Fam::Reach);
        stroke_case(&mut ctx, Fam::RoundIn);
        stroke_case(&mut ctx, Fam::RoundOut);
        for _ in 0..4 {
            stroke2_case(&mut ctx);
            normal_case(&mut ctx);
            fullmesh_case(&mut ctx);
        }
    }
    // after everything else: the case ids of the older families do not move
    for _ in 0..2 * n {
        progmesh_case(&mut ctx);
    }
    ctx.finish();
}
