//! C15 — SVG-style builder (`WithSvg`): any command sequence gives a well-formed path with SVG
//! semantics.
//!
//! The real `WithSvg` wraps a *recording* `PathBuilder` (release build: lyon's own debug
//! assertions are off, so protocol violations would go unnoticed by lyon itself).
//!
//! IMPL  per command: the calls the wrapped builder received, then `; <current_position>`;
//!       finally `build` and the calls made by `build()`.  Several sequences per case are
//!       separated by `|`.
//! CASE  the commands with their operands only (arc commands: `A x y rx ry rot large sweep`,
//!       `a dx dy rx ry rot large sweep`, `R cx cy rx ry sweep rot`).  NO advice from lyon_geom: the
//!       model computes the whole arc geometry itself (`Model/Path/SvgConcrete.lean` `geoF32`:
//!       `is_straight_line`, `SvgArc::to_arc`, the atan2 start angle, `Arc::from`, `approx_eq(center)`,
//!       the `< 0.01` test, the f64 pieces and their cast to f32).
//! ORCL  (1) recorded calls are `(begin edge* end)*`; (2) an independent reference interpreter of
//!       the SVG path rules (f64) predicts every command's calls and current point: relative
//!       resolution, H/V, implicit move-to, close, smooth reflection only after a curve of the
//!       same kind, arcs start at the current point and end at their target; (3) attributes
//!       handed down are `num_attributes` zeros; (4) the `Path` built by the same commands
//!       iterates to the events the recorded calls denote.
//!
//! Families: `wit` fixed sequences (finding witnesses, lyon's own tests); `exh` all sequences of length ≤ 3 over a 39-letter alphabet (19 trait commands +
//! `arc`, two operand choices each); `exhm` the same after `M 1 2`; `blk` (thorough) all sequences of length 4 in blocks of 39; `rnd` random
//! sequences up to length 60; `pat` short random sequences biased to curves/arcs/smooth/close;
//! `svg_arc_e2e:32` arc-heavy sequences with NON-integer operands (radii around lyon's `S::EPSILON`,
//! negative radii, any rotation, centre-form sweeps from 0 to beyond a turn).  In ALL families the
//! model runs `concreteGeo` (the `Geo` instance the theorems of `Props/C15b.lean` are about).

use lyon_path::builder::{Build, PathBuilder, SvgPathBuilder, WithSvg};
use lyon_path::geom::{Arc, ArcFlags, SvgArc};
use lyon_path::math::{point, vector, Angle, Point, Rotation, Vector};
use lyon_path::{Attributes, EndpointId, Path, PathEvent};
use std::cell::RefCell;
use std::rc::Rc;
use vh::{CaseOut, Ctx, Oracle, Out, Rng, Verdict};

// ---------------------------------------------------------------------------------------------
// recording builder

#[derive(Clone, Copy, Debug, PartialEq)]
enum Call {
    B(Point),
    L(Point),
    Q(Point, Point),
    C(Point, Point, Point),
    E(bool),
}

#[derive(Default)]
struct Log {
    calls: Vec<Call>,
    bad_attr: Option<String>,
}

const NATTR: usize = 2;

struct Rec {
    log: Rc<RefCell<Log>>,
}

impl Rec {
    fn push(&mut self, c: Call, a: Option<Attributes>) -> EndpointId {
        let mut l = self.log.borrow_mut();
        if let Some(a) = a {
            if a.len() != NATTR || a.iter().any(|x| *x != 0.0) {
                let n = l.calls.len();
                l.bad_attr.get_or_insert_with(|| format!("call {} got attributes {:?}", n, a));
            }
        }
        l.calls.push(c);
        EndpointId(l.calls.len() as u32)
    }
}

impl PathBuilder for Rec {
    fn num_attributes(&self) -> usize {
        NATTR
    }
    fn begin(&mut self, at: Point, a: Attributes) -> EndpointId {
        self.push(Call::B(at), Some(a))
    }
    fn end(&mut self, close: bool) {
        self.push(Call::E(close), None);
    }
    fn line_to(&mut self, to: Point, a: Attributes) -> EndpointId {
        self.push(Call::L(to), Some(a))
    }
    fn quadratic_bezier_to(&mut self, ctrl: Point, to: Point, a: Attributes) -> EndpointId {
        self.push(Call::Q(ctrl, to), Some(a))
    }
    fn cubic_bezier_to(&mut self, c1: Point, c2: Point, to: Point, a: Attributes) -> EndpointId {
        self.push(Call::C(c1, c2, to), Some(a))
    }
}

impl Build for Rec {
    type PathType = ();
    fn build(self) {}
}

// ---------------------------------------------------------------------------------------------
// commands

#[derive(Clone, Copy, Debug)]
struct ArcP {
    radii: Vector,
    rot: f32, // radians
    large: bool,
    sweep: bool,
}

#[derive(Clone, Copy, Debug)]
enum Cmd {
    M(Point),
    Mr(Vector),
    Z,
    L(Point),
    Lr(Vector),
    H(f32),
    Hr(f32),
    V(f32),
    Vr(f32),
    Q(Point, Point),
    Qr(Vector, Vector),
    T(Point),
    Tr(Vector),
    C(Point, Point, Point),
    Cr(Vector, Vector, Vector),
    S(Point, Point),
    Sr(Vector, Vector),
    A(ArcP, Point),
    Ar(ArcP, Vector),
    /// inherent `WithSvg::arc(center, radii, sweep_angle, x_rotation)`
    R(Point, Vector, f32, f32),
}

impl Cmd {
    fn letter(&self) -> &'static str {
        match self {
            Cmd::M(..) => "M",
            Cmd::Mr(..) => "m",
            Cmd::Z => "Z",
            Cmd::L(..) => "L",
            Cmd::Lr(..) => "l",
            Cmd::H(..) => "H",
            Cmd::Hr(..) => "h",
            Cmd::V(..) => "V",
            Cmd::Vr(..) => "v",
            Cmd::Q(..) => "Q",
            Cmd::Qr(..) => "q",
            Cmd::T(..) => "T",
            Cmd::Tr(..) => "t",
            Cmd::C(..) => "C",
            Cmd::Cr(..) => "c",
            Cmd::S(..) => "S",
            Cmd::Sr(..) => "s",
            Cmd::A(..) => "A",
            Cmd::Ar(..) => "a",
            Cmd::R(..) => "R",
        }
    }
    fn is_arc(&self) -> bool {
        matches!(self, Cmd::A(..) | Cmd::Ar(..) | Cmd::R(..))
    }
    /// `arc_to` with |rx| != |ry| (and not a straight line by its radii)
    fn is_elliptic_arc(&self) -> bool {
        match self {
            Cmd::A(a, _) | Cmd::Ar(a, _) => a.radii.x.abs() != a.radii.y.abs() && a.radii.x != 0.0 && a.radii.y != 0.0,
            _ => false,
        }
    }
    fn is_smooth(&self) -> bool {
        matches!(self, Cmd::T(..) | Cmd::Tr(..) | Cmd::S(..) | Cmd::Sr(..))
    }
}

/// What lyon_geom computes for an arc command at the adapter's current position: the centre
/// (`SvgArc::to_arc().center`, or the given one for `arc`), `Arc::from()` and the `(ctrl, to)`
/// pairs of `for_each_quadratic_bezier`.  Used by the ORACLE only (witness class of
/// `svg.arc/current-point-sync`, centre-form end points); it is not handed to the model.
#[derive(Clone, Debug)]
struct AGeo {
    radii: Vector,
    center: Point,
    start: Point,
    quads: Vec<(Point, Point)>,
}

impl AGeo {
    fn none(radii: Vector) -> AGeo {
        AGeo { radii, center: point(0., 0.), start: point(0., 0.), quads: vec![] }
    }
}

fn center_geo(cur: Point, center: Point, radii: Vector, sweep_angle: Angle, x_rotation: Angle, cmd_radii: Vector) -> AGeo {
    vh::guarded(|| {
        let v = Rotation::new(-x_rotation).transform_vector(cur - center);
        let start_angle = Angle::radians((v.y / radii.y).atan2(v.x / radii.x));
        let arc = Arc { center, radii, start_angle, sweep_angle, x_rotation };
        let start = arc.from();
        let mut quads = Vec::new();
        arc.cast::<f64>().for_each_quadratic_bezier(&mut |c| {
            let c = c.cast::<f32>();
            quads.push((c.ctrl, c.to));
        });
        AGeo { radii: cmd_radii, center, start, quads }
    })
    .unwrap_or(AGeo { radii: cmd_radii, center, start: point(0., 0.), quads: vec![] })
}

fn endpoint_geo(cur: Point, to: Point, p: &ArcP) -> AGeo {
    let svg_arc = SvgArc {
        from: cur,
        to,
        radii: p.radii,
        x_rotation: Angle::radians(p.rot),
        flags: ArcFlags { large_arc: p.large, sweep: p.sweep },
    };
    // only to avoid feeding zero radii to the conversion (NaNs); the model makes its own decision
    if svg_arc.is_straight_line() {
        AGeo::none(p.radii)
    } else {
        let arc = svg_arc.to_arc();
        center_geo(cur, arc.center, arc.radii, arc.sweep_angle, arc.x_rotation, p.radii)
    }
}

fn apply<B: PathBuilder>(b: &mut WithSvg<B>, c: &Cmd) {
    match *c {
        Cmd::M(p) => SvgPathBuilder::move_to(b, p),
        Cmd::Mr(v) => SvgPathBuilder::relative_move_to(b, v),
        Cmd::Z => SvgPathBuilder::close(b),
        Cmd::L(p) => SvgPathBuilder::line_to(b, p),
        Cmd::Lr(v) => SvgPathBuilder::relative_line_to(b, v),
        Cmd::H(x) => SvgPathBuilder::horizontal_line_to(b, x),
        Cmd::Hr(x) => SvgPathBuilder::relative_horizontal_line_to(b, x),
        Cmd::V(y) => SvgPathBuilder::vertical_line_to(b, y),
        Cmd::Vr(y) => SvgPathBuilder::relative_vertical_line_to(b, y),
        Cmd::Q(c, p) => SvgPathBuilder::quadratic_bezier_to(b, c, p),
        Cmd::Qr(c, v) => SvgPathBuilder::relative_quadratic_bezier_to(b, c, v),
        Cmd::T(p) => SvgPathBuilder::smooth_quadratic_bezier_to(b, p),
        Cmd::Tr(v) => SvgPathBuilder::smooth_relative_quadratic_bezier_to(b, v),
        Cmd::C(c1, c2, p) => SvgPathBuilder::cubic_bezier_to(b, c1, c2, p),
        Cmd::Cr(c1, c2, v) => SvgPathBuilder::relative_cubic_bezier_to(b, c1, c2, v),
        Cmd::S(c2, p) => SvgPathBuilder::smooth_cubic_bezier_to(b, c2, p),
        Cmd::Sr(c2, v) => SvgPathBuilder::smooth_relative_cubic_bezier_to(b, c2, v),
        Cmd::A(a, p) => SvgPathBuilder::arc_to(b, a.radii, Angle::radians(a.rot), ArcFlags { large_arc: a.large, sweep: a.sweep }, p),
        Cmd::Ar(a, v) => {
            SvgPathBuilder::relative_arc_to(b, a.radii, Angle::radians(a.rot), ArcFlags { large_arc: a.large, sweep: a.sweep }, v)
        }
        Cmd::R(center, radii, sweep, rot) => b.arc(center, radii, Angle::radians(sweep), Angle::radians(rot)),
    }
}

struct Run {
    per_cmd: Vec<Vec<Call>>,
    curs: Vec<Point>,
    geos: Vec<Option<AGeo>>,
    build_calls: Vec<Call>,
    bad_attr: Option<String>,
}

fn run(cmds: &[Cmd]) -> Run {
    let log = Rc::new(RefCell::new(Log::default()));
    let mut b = WithSvg::new(Rec { log: log.clone() });
    let mut r = Run { per_cmd: vec![], curs: vec![], geos: vec![], build_calls: vec![], bad_attr: None };
    let mut seen = 0;
    for c in cmds {
        let cur = b.current_position();
        r.geos.push(match c {
            Cmd::A(a, to) => Some(endpoint_geo(cur, *to, a)),
            Cmd::Ar(a, v) => Some(endpoint_geo(cur, cur + *v, a)),
            Cmd::R(center, radii, sweep, rot) => Some(center_geo(cur, *center, *radii, Angle::radians(*sweep), Angle::radians(*rot), *radii)),
            _ => None,
        });
        apply(&mut b, c);
        let l = log.borrow();
        r.per_cmd.push(l.calls[seen..].to_vec());
        seen = l.calls.len();
        r.curs.push(b.current_position());
    }
    b.build();
    let l = log.borrow();
    r.build_calls = l.calls[seen..].to_vec();
    r.bad_attr = l.bad_attr.clone();
    r
}

// ---------------------------------------------------------------------------------------------
// printing

/// the command with its operands only: NO lyon_geom advice (the model computes the arc geometry)
fn put_cmd(o: &mut Out, c: &Cmd) {
    o.t(c.letter());
    match *c {
        Cmd::M(p) | Cmd::L(p) | Cmd::T(p) => {
            o.p(p);
        }
        Cmd::Mr(v) | Cmd::Lr(v) | Cmd::Tr(v) => {
            o.v(v);
        }
        Cmd::Z => {}
        Cmd::H(x) | Cmd::Hr(x) | Cmd::V(x) | Cmd::Vr(x) => {
            o.f(x);
        }
        Cmd::Q(c, p) | Cmd::S(c, p) => {
            o.p(c).p(p);
        }
        Cmd::Qr(c, v) | Cmd::Sr(c, v) => {
            o.v(c).v(v);
        }
        Cmd::C(a, b, p) => {
            o.p(a).p(b).p(p);
        }
        Cmd::Cr(a, b, v) => {
            o.v(a).v(b).v(v);
        }
        Cmd::A(a, p) => {
            o.p(p).v(a.radii).f(a.rot).b(a.large).b(a.sweep);
        }
        Cmd::Ar(a, v) => {
            o.v(v).v(a.radii).f(a.rot).b(a.large).b(a.sweep);
        }
        Cmd::R(center, radii, sweep, rot) => {
            o.p(center).v(radii).f(sweep).f(rot);
        }
    }
}

fn put_call(o: &mut Out, c: &Call) {
    match *c {
        Call::B(p) => {
            o.t("B").p(p);
        }
        Call::L(p) => {
            o.t("L").p(p);
        }
        Call::Q(c, p) => {
            o.t("Q").p(c).p(p);
        }
        Call::C(a, b, p) => {
            o.t("C").p(a).p(b).p(p);
        }
        Call::E(cl) => {
            o.t("E").b(cl);
        }
    }
}

fn put_run(o: &mut Out, r: &Run) {
    for (calls, cur) in r.per_cmd.iter().zip(&r.curs) {
        for c in calls {
            put_call(o, c);
        }
        o.t(";").p(*cur);
    }
    o.t("build");
    for c in &r.build_calls {
        put_call(o, c);
    }
}

// ---------------------------------------------------------------------------------------------
// oracle: reference interpreter of the SVG path rules, independent of lyon (f64)

type P2 = (f64, f64);

fn p2(p: Point) -> P2 {
    (p.x as f64, p.y as f64)
}
fn add(a: P2, b: P2) -> P2 {
    (a.0 + b.0, a.1 + b.1)
}
fn reflect(c: P2, about: P2) -> P2 {
    (2.0 * about.0 - c.0, 2.0 * about.1 - c.1)
}
fn dist(a: P2, b: P2) -> f64 {
    ((a.0 - b.0).powi(2) + (a.1 - b.1).powi(2)).sqrt()
}
fn mag(a: P2) -> f64 {
    a.0.abs().max(a.1.abs())
}

#[derive(Clone, Copy, PartialEq, Debug)]
enum Prev {
    Other,
    Quad(P2),
    Cubic(P2),
    Arc,
}

/// expected call for one command
#[derive(Clone, Copy, Debug)]
enum Exp {
    B(P2),
    L(P2),
    Q(P2, P2),
    C(P2, P2, P2),
    E(bool),
    /// optional (near) zero-length line to the current point, then ≥ 1 quadratics ending at `to`
    ArcChain { from: P2, to: P2, tol: f64, or_line: bool },
    /// `WithSvg::arc` (not an SVG command): any edges
    FreeEdges,
}

struct Ref {
    cur: P2,
    start: P2,
    open: bool,
    /// no move-to (explicit or substituted) happened yet
    empty: bool,
    prev: Prev,
    /// a genuine arc was drawn: from then on the implementation's coordinates are rounded f32
    /// values (before, all arithmetic on the integer operands is exact and compared exactly)
    inexact: bool,
    /// largest coordinate magnitude seen so far (scale of the rounding allowance)
    maxmag: f64,
}

impl Ref {
    fn new() -> Ref {
        Ref { cur: (0.0, 0.0), start: (0.0, 0.0), open: false, empty: true, prev: Prev::Other, inexact: false, maxmag: 0.0 }
    }

    fn move_to(&mut self, p: P2, out: &mut Vec<Exp>) {
        if self.open {
            out.push(Exp::E(false));
        }
        out.push(Exp::B(p));
        self.open = true;
        self.empty = false;
        self.start = p;
        self.cur = p;
        self.prev = Prev::Other;
    }

    /// A drawing command with target `to`.  Returns false if the command is replaced by
    /// `move_to(to)` (lyon's documented rule for the very first command of a path).
    fn start_drawing(&mut self, to: P2, out: &mut Vec<Exp>) -> bool {
        if self.open {
            return true;
        }
        if self.empty {
            self.move_to(to, out);
            return false;
        }
        // after a close: the next sub-path starts at the same initial point
        let s = self.start;
        self.move_to(s, out);
        true
    }

    fn line(&mut self, to: P2, out: &mut Vec<Exp>) {
        if self.start_drawing(to, out) {
            out.push(Exp::L(to));
            self.cur = to;
            self.prev = Prev::Other;
        }
    }
    fn quad(&mut self, c: P2, to: P2, out: &mut Vec<Exp>) {
        if self.start_drawing(to, out) {
            out.push(Exp::Q(c, to));
            self.cur = to;
            self.prev = Prev::Quad(c);
        }
    }
    fn cubic(&mut self, c1: P2, c2: P2, to: P2, out: &mut Vec<Exp>) {
        if self.start_drawing(to, out) {
            out.push(Exp::C(c1, c2, to));
            self.cur = to;
            self.prev = Prev::Cubic(c2);
        }
    }
    fn smooth_q(&self) -> P2 {
        match self.prev {
            Prev::Quad(c) => reflect(c, self.cur),
            _ => self.cur,
        }
    }
    fn smooth_c(&self) -> P2 {
        match self.prev {
            Prev::Cubic(c) => reflect(c, self.cur),
            _ => self.cur,
        }
    }

    fn arc_to(&mut self, a: &ArcP, to: P2, out: &mut Vec<Exp>) {
        // SVG implementation notes: zero radius => straight line; identical endpoints => nothing
        // drawn (lyon draws a zero-length line: accepted, it does not change the geometry)
        let from = self.cur;
        // SVG: an arc whose endpoints are identical is omitted.  Once coordinates are rounded f32
        // values (after an earlier arc) "identical" is only meaningful up to the rounding
        // envelope `tol()` = 1e-4 * (1 + largest coordinate magnitude seen so far) — far above
        // 16 ulp of that magnitude and above the thresholds lyon itself uses here
        // (`is_straight_line`: |r| <= f32::EPSILON or from == to exactly; `arc`: centre
        // `approx_eq` within 1e-6).  Within that envelope the implementation may legitimately see
        // identical endpoints (a line), nearly identical ones (a tiny chain, or no piece at all
        // when the sweep rounds to zero), so `or_line` accepts: one line to the target, a chain
        // ending at the target, or no edge at all with the current point left within the
        // envelope of the target.
        let allowance = self.tol();
        let same = dist(from, to) <= allowance;
        if a.radii.x == 0.0 || a.radii.y == 0.0 || (same && !self.inexact) {
            self.line(to, out);
            self.prev = Prev::Arc;
            return;
        }
        let or_line = same;
        if !self.open {
            // no SVG rule (a path must start with a move-to); "the arc starts at the current
            // point" (doc of arc_to): sub-path start resp. the origin
            let s = self.cur;
            self.move_to(s, out);
        }
        let scale = 1.0 + mag(from).max(mag(to)).max(a.radii.x.abs() as f64).max(a.radii.y.abs() as f64).max(dist(from, to));
        // f32 version of Props/C15b.lean `svg_arc_to_semantics_real` (exact over the reals), explicit
        // rounding bound: the chain starts within `tol` of the current point and ends within `tol`
        // of the target, `tol = 4e-3 * (1 + max(|from|, |to|, |rx|, |ry|, |to - from|))` (+ `Ref::tol`)
        let tol = 4e-3 * scale;
        out.push(Exp::ArcChain { from, to, tol, or_line });
        self.cur = to;
        self.inexact = true;
        self.prev = Prev::Arc;
    }

    /// adopt what the implementation did for one command (after a failure of a listed class)
    fn resync(&mut self, got: &[Call], cur: Point, arc: bool) {
        for c in got {
            match *c {
                Call::B(q) => {
                    self.start = p2(q);
                    self.open = true;
                    self.empty = false;
                    self.prev = Prev::Other;
                }
                Call::Q(k, _) => self.prev = Prev::Quad(p2(k)),
                Call::C(_, k, _) => self.prev = Prev::Cubic(p2(k)),
                _ => {}
            }
        }
        if arc {
            self.prev = Prev::Arc;
        }
        self.cur = p2(cur);
        self.inexact = true;
        self.see(self.cur);
    }

    fn see(&mut self, p: P2) {
        self.maxmag = self.maxmag.max(mag(p));
    }

    /// rounding allowance for comparisons with the implementation's f32 values
    fn tol(&self) -> f64 {
        if self.inexact {
            1e-4 * (1.0 + self.maxmag)
        } else {
            0.0
        }
    }

    fn step(&mut self, c: &Cmd) -> Vec<Exp> {
        let mut out = Vec::new();
        let cur = self.cur;
        let rel = |v: Vector| add(cur, (v.x as f64, v.y as f64));
        match c {
            Cmd::M(p) => self.move_to(p2(*p), &mut out),
            Cmd::Mr(v) => self.move_to(rel(*v), &mut out),
            Cmd::Z => {
                if self.open {
                    out.push(Exp::E(true));
                    self.open = false;
                    self.cur = self.start;
                }
                self.prev = Prev::Other;
            }
            Cmd::L(p) => self.line(p2(*p), &mut out),
            Cmd::Lr(v) => self.line(rel(*v), &mut out),
            Cmd::H(x) => self.line((*x as f64, cur.1), &mut out),
            Cmd::Hr(dx) => self.line((cur.0 + *dx as f64, cur.1), &mut out),
            Cmd::V(y) => self.line((cur.0, *y as f64), &mut out),
            Cmd::Vr(dy) => self.line((cur.0, cur.1 + *dy as f64), &mut out),
            Cmd::Q(c, p) => self.quad(p2(*c), p2(*p), &mut out),
            Cmd::Qr(c, v) => self.quad(rel(*c), rel(*v), &mut out),
            Cmd::T(p) => {
                let k = self.smooth_q();
                self.quad(k, p2(*p), &mut out)
            }
            Cmd::Tr(v) => {
                let k = self.smooth_q();
                self.quad(k, rel(*v), &mut out)
            }
            Cmd::C(a, b, p) => self.cubic(p2(*a), p2(*b), p2(*p), &mut out),
            Cmd::Cr(a, b, v) => self.cubic(rel(*a), rel(*b), rel(*v), &mut out),
            Cmd::S(b, p) => {
                let k = self.smooth_c();
                self.cubic(k, p2(*b), p2(*p), &mut out)
            }
            Cmd::Sr(b, v) => {
                let k = self.smooth_c();
                self.cubic(k, rel(*b), rel(*v), &mut out)
            }
            Cmd::A(a, p) => self.arc_to(a, p2(*p), &mut out),
            Cmd::Ar(a, v) => self.arc_to(a, rel(*v), &mut out),
            Cmd::R(..) => {
                out.push(Exp::FreeEdges);
                self.prev = Prev::Arc;
            }
        }
        out
    }
}

/// Centre-form `arc(center, radii, sweep, x_rotation)` issued at `cur` (f32 values), checked against
/// an independent f64 evaluation of what Props/C15b.lean `svg_arc_semantics_real` states over the
/// reals: the start angle is `atan2` of the un-rotated, un-scaled offset of `cur`; the calls are
/// `begin(start)` (no sub-path open) / `line_to(start)` (start less than 0.1 away) / nothing, then
/// `ceil(min(|sweep|, 2 pi) / (pi/4))` quadratics, the last one ending at the ellipse point at
/// `start_angle + sweep` for `|sweep| <= 2 pi` and back at `start` beyond a turn.
/// ROUNDING BOUND (explicit): every compared point within
///     `CENTER_ARC_ULPS * f32::EPSILON * (1 + |center| + |cur| + rmax) * (1 + rmax / rmin) * (1 + |sweep|)`
/// of its f64 value: `f32::EPSILON * magnitude` is the rounding of one f32 operation; `rmax / rmin`
/// is the conditioning of the start angle (the offset is divided by the radii before `atan2`, so a
/// rounding error along the short axis is magnified by the ratio when mapped back to the ellipse);
/// the angle error is carried over `sweep`.  Not applied to radii that are zero / not finite, nor
/// when nothing was emitted (arc skipped: `approx_eq(center)`; or no connecting line and no piece).
/// Largest error observed over 1.2e5 centre-form arcs of the thorough tier: 0.48 of the unit
/// `f32::EPSILON * (...)`, i.e. 17 times below the bound.
const CENTER_ARC_ULPS: f64 = 8.0;

fn center_arc_check(cur: Point, open: bool, center: Point, radii: Vector, sweep: f32, rot: f32, got: &[Call]) -> Option<String> {
    let (rx, ry) = (radii.x as f64, radii.y as f64);
    if !(rx != 0.0 && ry != 0.0 && rx.is_finite() && ry.is_finite()) || got.is_empty() {
        return None;
    }
    let (cx, cy) = (center.x as f64, center.y as f64);
    let (px, py) = (cur.x as f64, cur.y as f64);
    let (phi, sw) = (rot as f64, sweep as f64);
    let (dx, dy) = (px - cx, py - cy);
    let (sn, cs) = ((-phi).sin(), (-phi).cos());
    let v = (dx * cs - dy * sn, dy * cs + dx * sn);
    let theta = (v.1 / ry).atan2(v.0 / rx);
    let at = |a: f64| -> P2 {
        let (ex, ey) = (rx * a.cos(), ry * a.sin());
        (cx + ex * phi.cos() - ey * phi.sin(), cy + ey * phi.cos() + ex * phi.sin())
    };
    let two_pi = 2.0 * std::f64::consts::PI;
    let start = at(theta);
    let end = if sw.abs() <= two_pi { at(theta + sw) } else { start };
    let n_expected = (sw.abs().min(two_pi) / std::f64::consts::FRAC_PI_4).ceil() as usize;
    let rmax = rx.abs().max(ry.abs());
    let rmin = rx.abs().min(ry.abs());
    let tol = CENTER_ARC_ULPS * f32::EPSILON as f64 * (1.0 + mag((cx, cy)) + mag((px, py)) + rmax) * (1.0 + rmax / rmin) * (1.0 + sw.abs());
    let mut k = 0;
    if let Some(Call::E(_)) = got.get(k) {
        k += 1;
    }
    match got.get(k) {
        Some(Call::B(q)) => {
            if open {
                return Some(format!("begin inside an open sub-path: {:?}", got));
            }
            if dist(p2(*q), start) > tol {
                return Some(format!("begin at {:?}, the ellipse point at the start angle is {:?} (bound {:e})", q, start, tol));
            }
            k += 1;
        }
        Some(Call::L(q)) => {
            if !open {
                return Some(format!("line_to without an open sub-path: {:?}", got));
            }
            if dist(p2(*q), start) > tol {
                return Some(format!("line to {:?}, the ellipse point at the start angle is {:?} (bound {:e})", q, start, tol));
            }
            // the code draws the line only when the start is less than 0.1 away
            if dist(p2(*q), (px, py)) >= 0.1 + tol {
                return Some(format!("connecting line to {:?} from {:?}: 0.1 or more away", q, cur));
            }
            k += 1;
        }
        _ => {
            if !open {
                return Some(format!("no begin although no sub-path was open: {:?}", got));
            }
            // no connecting line: the start must be 0.1 or more away (up to rounding)
            if dist((px, py), start) < 0.1 - tol {
                return Some(format!("no connecting line although the start {:?} is less than 0.1 from {:?}", start, cur));
            }
        }
    }
    let mut n = 0;
    let mut last = None;
    while let Some(Call::Q(_, q)) = got.get(k) {
        last = Some(*q);
        n += 1;
        k += 1;
    }
    if k != got.len() {
        return Some(format!("unexpected calls {:?}", got));
    }
    if n != n_expected {
        return Some(format!("{} quadratics, expected ceil(min(|sweep|, 2 pi) / (pi/4)) = {}", n, n_expected));
    }
    if let Some(q) = last {
        let e = dist(p2(q), end);
        if e > tol {
            return Some(format!("last quadratic ends at {:?}, expected {:?} (distance {:e}, bound {:e})", q, end, e, tol));
        }
    }
    None
}

fn well_nested(calls: &[Call]) -> Result<(), String> {
    let mut inside = false;
    for (i, c) in calls.iter().enumerate() {
        match c {
            Call::B(_) => {
                if inside {
                    return Err(format!("call {}: begin inside a sub-path", i));
                }
                inside = true;
            }
            Call::E(_) => {
                if !inside {
                    return Err(format!("call {}: end without begin", i));
                }
                inside = false;
            }
            _ => {
                if !inside {
                    return Err(format!("call {}: edge {:?} outside a sub-path", i, c));
                }
            }
        }
    }
    if inside {
        return Err("build() reached inside a sub-path".to_string());
    }
    Ok(())
}

fn events_of(calls: &[Call]) -> Vec<PathEvent> {
    let mut ev = Vec::new();
    let (mut first, mut cur) = (point(0.0, 0.0), point(0.0, 0.0));
    for c in calls {
        match *c {
            Call::B(p) => {
                first = p;
                cur = p;
                ev.push(PathEvent::Begin { at: p });
            }
            Call::L(p) => {
                ev.push(PathEvent::Line { from: cur, to: p });
                cur = p;
            }
            Call::Q(k, p) => {
                ev.push(PathEvent::Quadratic { from: cur, ctrl: k, to: p });
                cur = p;
            }
            Call::C(a, b, p) => {
                ev.push(PathEvent::Cubic { from: cur, ctrl1: a, ctrl2: b, to: p });
                cur = p;
            }
            Call::E(cl) => ev.push(PathEvent::End { last: cur, first, close: cl }),
        }
    }
    ev
}

fn clause_of(c: &Cmd) -> &'static str {
    match c {
        Cmd::M(..) => "svg.move_to",
        Cmd::Mr(..) | Cmd::Lr(..) | Cmd::Qr(..) | Cmd::Cr(..) => "svg.relative",
        Cmd::Z => "svg.close",
        Cmd::L(..) | Cmd::Q(..) | Cmd::C(..) => "svg.draw",
        Cmd::H(..) | Cmd::Hr(..) | Cmd::V(..) | Cmd::Vr(..) => "svg.hv",
        Cmd::T(..) | Cmd::Tr(..) | Cmd::S(..) | Cmd::Sr(..) => "svg.smooth",
        Cmd::A(..) | Cmd::Ar(..) | Cmd::R(..) => "svg.arc/endpoints",
    }
}

fn fmt_seq(cmds: &[Cmd]) -> String {
    cmds.iter().map(|c| format!("{:?}", c)).collect::<Vec<_>>().join(" ").replace("  ", " ")
}

/// Evaluate the property on one run of the real implementation.
fn oracle(cmds: &[Cmd], r: &Run, orc: &mut Oracle) {
    oracle_with(cmds, r, orc, false)
}

/// `rounded`: the operands are not lattice values (family `svg_arc_e2e`): `current + v` is rounded
/// to f32 by the implementation from the first command on, so the reference (f64) compares up to
/// the rounding allowance `Ref::tol` = 1e-4 * (1 + largest magnitude) throughout instead of exactly.
fn oracle_with(cmds: &[Cmd], r: &Run, orc: &mut Oracle, rounded: bool) {
    // (1) protocol
    let all: Vec<Call> = r.per_cmd.iter().flatten().chain(r.build_calls.iter()).cloned().collect();
    let nest = well_nested(&all);
    orc.check(nest.is_ok(), "svg.nesting", "generic", || format!("{} in {}", nest.clone().unwrap_err(), fmt_seq(cmds)));
    // every prefix followed by build is well nested too: build() only ever adds one end(false)
    orc.check(
        r.build_calls.len() <= 1 && r.build_calls.iter().all(|c| *c == Call::E(false)),
        "svg.build/end",
        "generic",
        || format!("build() emitted {:?}", r.build_calls),
    );
    // (3) attributes
    orc.check(r.bad_attr.is_none(), "svg.attributes/zero-buffer", "generic", || r.bad_attr.clone().unwrap());
    // (2) SVG rules
    let mut rf = Ref::new();
    rf.inexact = rounded;
    let mut deferred: Vec<(String, &'static str, String)> = Vec::new();
    for (i, c) in cmds.iter().enumerate() {
        let open_before = rf.open;
        let exp = rf.step(c);
        let got = &r.per_cmd[i];
        let after_arc = i > 0 && cmds[i - 1].is_arc();
        let class = if c.is_smooth() && after_arc {
            "smooth-after-arc"
        } else if c.is_elliptic_arc() {
            "elliptic-arc"
        } else {
            "generic"
        };
        rf.see(rf.cur);
        for g in got {
            match *g {
                Call::B(p) | Call::L(p) => rf.see(p2(p)),
                Call::Q(a, p) => {
                    rf.see(p2(a));
                    rf.see(p2(p))
                }
                Call::C(a, b, p) => {
                    rf.see(p2(a));
                    rf.see(p2(b));
                    rf.see(p2(p))
                }
                Call::E(_) => {}
            }
        }
        // an arc's implicit begin is at the arc's computed start: arc allowance applies to it too
        let arc_at = exp.iter().find_map(|e| if let Exp::ArcChain { tol, .. } = e { Some(*tol) } else { None }).unwrap_or(0.0);
        let tol = rf.tol() + arc_at;
        let near = |a: Point, b: P2| dist(p2(a), b) <= tol;
        let mut k = 0usize; // position in got
        let mut problem: Option<(String, &'static str)> = None;
        for e in &exp {
            let implicit = matches!(e, Exp::B(_) | Exp::E(false)) && !matches!(c, Cmd::M(..) | Cmd::Mr(..));
            let clause: &'static str = if implicit && !c.is_arc() { "svg.implicit-move-to" } else { clause_of(c) };
            let ok = match (e, got.get(k)) {
                (Exp::B(p), Some(Call::B(q))) => near(*q, *p),
                (Exp::L(p), Some(Call::L(q))) => near(*q, *p),
                (Exp::Q(a, p), Some(Call::Q(b, q))) => near(*b, *a) && near(*q, *p),
                (Exp::C(a1, a2, p), Some(Call::C(b1, b2, q))) => near(*b1, *a1) && near(*b2, *a2) && near(*q, *p),
                (Exp::E(x), Some(Call::E(y))) => x == y,
                (Exp::ArcChain { from, to, tol: at, or_line }, _) => {
                    let _ = at;
                    let t = tol;
                    let mut j = k;
                    if *or_line && got.len() == k {
                        // arc omitted: nothing drawn, current point unchanged or set to the target
                        if dist(p2(r.curs[i]), *to) <= t + dist(*from, *to) {
                            continue;
                        }
                    }
                    if *or_line && got.len() == k + 1 {
                        if let Some(Call::L(q)) = got.get(k) {
                            if dist(p2(*q), *to) <= t {
                                k += 1;
                                continue;
                            }
                        }
                    }
                    if let Some(Call::L(q)) = got.get(j) {
                        if dist(p2(*q), *from) <= t {
                            j += 1;
                        }
                    }
                    let mut n = 0;
                    let mut last = None;
                    while let Some(Call::Q(_, q)) = got.get(j) {
                        last = Some(*q);
                        n += 1;
                        j += 1;
                    }
                    k = j;
                    n >= 1 && j == got.len() && dist(p2(last.unwrap()), *to) <= t
                }
                (Exp::FreeEdges, _) => {
                    if !open_before {
                        if let Some(Call::B(q)) = got.get(k) {
                            rf.start = p2(*q);
                            rf.open = true;
                            rf.empty = false;
                            k += 1;
                        }
                    }
                    while let Some(Call::L(_) | Call::Q(..)) = got.get(k) {
                        k += 1;
                    }
                    if !got.is_empty() {
                        rf.cur = p2(r.curs[i]);
                        rf.inexact = true;
                    }
                    k == got.len()
                }
                _ => false,
            };
            if !matches!(e, Exp::ArcChain { .. } | Exp::FreeEdges) {
                k += 1;
            }
            if !ok && problem.is_none() {
                problem = Some((format!("command {} ({:?}): expected {:?}, calls were {:?}", i, c, exp, got), clause));
            }
        }
        if problem.is_none() && k != got.len() {
            problem = Some((format!("command {} ({:?}): expected {:?}, calls were {:?}", i, c, exp, got), clause_of(c)));
        }
        if let Some((d, clause)) = problem {
            let d = format!("{} in {}", d, fmt_seq(cmds));
            if class == "generic" {
                orc.check(false, clause, class, || d);
                return;
            }
            // matches a listed finding's witness class: remember it, re-synchronise the reference
            // with what lyon did and go on, so that a different violation later in the same
            // sequence is still found (and reported in preference)
            deferred.push((clause.to_string(), class, d));
            rf.resync(got, r.curs[i], c.is_arc());
            continue;
        }
        // current point (close returns to the sub-path start, arcs end at their target, …)
        // arcs: the end point was compared with the target above (arc allowance); from here on the
        // reference continues from the implementation's own (rounded) end point, so that the
        // rules for the following commands are again checked up to f32 rounding only
        if let Some(Exp::ArcChain { .. }) = exp.last() {
            rf.resync(got, r.curs[i], true);
        }
        let tol2 = rf.tol();
        let cp_ok = dist(p2(r.curs[i]), rf.cur) <= tol2;
        if !cp_ok {
            let cl = if c.is_arc() { clause_of(c).to_string() } else { format!("{}/current-point", clause_of(c)) };
            let d = format!("command {} ({:?}): current_position {:?}, SVG rules give {:?} in {}", i, c, r.curs[i], rf.cur, fmt_seq(cmds));
            if class == "generic" {
                orc.check(false, &cl, class, || d);
                return;
            }
            deferred.push((cl, class, d));
            rf.resync(got, r.curs[i], c.is_arc());
        }
        // (2a) centre-form `arc`, the f32 version of Props/C15b.lean `svg_arc_semantics_real` with an
        // explicit rounding bound (see `center_arc_check`)
        if let Cmd::R(center, radii, sweep, rot) = c {
            let cur0 = if i == 0 { point(0.0, 0.0) } else { r.curs[i - 1] };
            if let Some(d) = center_arc_check(cur0, open_before, *center, *radii, *sweep, *rot, got) {
                let d = format!("command {} ({:?}): {} in {}", i, c, d, fmt_seq(cmds));
                orc.check(false, "svg.arc/center-endpoints", "generic", || d);
                return;
            }
        }
        // (2b) arc commands: `current_position` is exactly the last point handed to the wrapped
        // builder (the adapter copies it: `current_position = curve.to`, `move_to(arc_start)`,
        // `line_to(to)`); Props/C15b.lean `svg_arc_to_semantics_real` / `svg_arc_semantics_real`.
        // Class `arc-zero-sweep`: lyon_geom produces no piece for this arc at this position and a
        // sub-path was open (the witness predicate of finding C15-arc-zero-sweep-stale-position,
        // repaired by lyon commit 250152af: the connecting `line_to(arc_start)` did not update
        // `current_position`; the class stays active).
        if c.is_arc() {
            let last = got.iter().rev().find_map(|g| match *g {
                Call::B(p) | Call::L(p) | Call::Q(_, p) | Call::C(_, _, p) => Some(p),
                Call::E(_) => None,
            });
            if let Some(p) = last {
                let cur = r.curs[i];
                let same = p.x == cur.x && p.y == cur.y;
                if !same {
                    let no_piece = r.geos[i].as_ref().map_or(false, |g| g.quads.is_empty());
                    let class2 = if no_piece && open_before { "arc-zero-sweep" } else { "generic" };
                    let d = format!(
                        "command {} ({:?}): current_position {:?} but the last point handed to the builder is {:?} in {}",
                        i,
                        c,
                        cur,
                        p,
                        fmt_seq(cmds)
                    );
                    if class2 == "generic" {
                        orc.check(false, "svg.arc/current-point-sync", class2, || d);
                        return;
                    }
                    deferred.push(("svg.arc/current-point-sync".to_string(), class2, d));
                    rf.resync(got, r.curs[i], true);
                }
            }
        }
    }
    // (4) the same commands through the real storage
    if nest.is_ok() {
        let mut pb = Path::builder().with_svg();
        for c in cmds {
            apply(&mut pb, c);
        }
        let path = pb.build();
        let got: Vec<PathEvent> = path.iter().collect();
        let want = events_of(&all);
        orc.check(got == want, "svg.path/events", "generic", || format!("Path events {:?} but recorded calls denote {:?}", got, want));
    }
    if let Some((clause, class, d)) = deferred.into_iter().next() {
        orc.check(false, &clause, class, || d);
    }
}

// ---------------------------------------------------------------------------------------------
// generators

fn alphabet() -> Vec<Cmd> {
    let p = |x: f32, y: f32| point(x, y);
    let v = |x: f32, y: f32| vector(x, y);
    vec![
        Cmd::M(p(3., 1.)),
        Cmd::M(p(-2., 4.)),
        Cmd::Mr(v(2., -1.)),
        Cmd::Mr(v(-3., 2.)),
        Cmd::Z,
        Cmd::L(p(5., -3.)),
        Cmd::L(p(1., 6.)),
        Cmd::Lr(v(1., 2.)),
        Cmd::Lr(v(-4., 1.)),
        Cmd::H(7.),
        Cmd::H(-1.),
        Cmd::Hr(2.),
        Cmd::Hr(-3.),
        Cmd::V(4.),
        Cmd::V(-2.),
        Cmd::Vr(1.),
        Cmd::Vr(-5.),
        Cmd::Q(p(2., 5.), p(6., 1.)),
        Cmd::Q(p(-1., -2.), p(3., 3.)),
        Cmd::Qr(v(1., 3.), v(4., 0.)),
        Cmd::Qr(v(-2., 1.), v(-1., -3.)),
        Cmd::T(p(8., 2.)),
        Cmd::T(p(-3., -1.)),
        Cmd::Tr(v(2., 2.)),
        Cmd::Tr(v(-1., 4.)),
        Cmd::C(p(1., 4.), p(5., 4.), p(6., 0.)),
        Cmd::C(p(-2., -2.), p(0., -5.), p(4., -1.)),
        Cmd::Cr(v(0., 3.), v(3., 3.), v(3., 0.)),
        Cmd::Cr(v(-1., 1.), v(-2., 3.), v(-4., 2.)),
        Cmd::S(p(7., 5.), p(9., 1.)),
        Cmd::S(p(-4., 0.), p(-6., 3.)),
        Cmd::Sr(v(2., -2.), v(4., 1.)),
        Cmd::Sr(v(-3., -1.), v(-2., -4.)),
        Cmd::A(ArcP { radii: v(4., 3.), rot: 0.5, large: false, sweep: true }, p(6., 2.)),
        Cmd::A(ArcP { radii: v(0., 5.), rot: 0.0, large: true, sweep: false }, p(2., 7.)),
        Cmd::Ar(ArcP { radii: v(5., 5.), rot: 0.0, large: true, sweep: false }, v(3., -4.)),
        Cmd::Ar(ArcP { radii: v(2., 2.), rot: 1.0, large: false, sweep: false }, v(0., 0.)),
        Cmd::R(p(0., 0.), v(5., 5.), std::f32::consts::PI, 0.0),
        Cmd::R(p(3., 1.), v(4., 2.), -2.0, 0.5),
    ]
}

fn rnd_cmd(rng: &mut Rng, weights: &[u64; 20], span: i64) -> Cmd {
    let total: u64 = weights.iter().sum();
    let mut x = rng.below(total);
    let mut k = 0;
    while x >= weights[k] {
        x -= weights[k];
        k += 1;
    }
    let mut c = |rng: &mut Rng| rng.range(-span, span) as f32;
    let mut arcp = |rng: &mut Rng| ArcP {
        radii: vector(
            if rng.chance(1, 8) { 0.0 } else { rng.range(1, 2 * span) as f32 * if rng.chance(1, 6) { -1.0 } else { 1.0 } },
            if rng.chance(1, 8) { 0.0 } else { rng.range(1, 2 * span) as f32 },
        ),
        rot: rng.range(-12, 12) as f32 * 0.25,
        large: rng.chance(1, 2),
        sweep: rng.chance(1, 2),
    };
    match k {
        0 => Cmd::M(point(c(rng), c(rng))),
        1 => Cmd::Mr(vector(c(rng), c(rng))),
        2 => Cmd::Z,
        3 => Cmd::L(point(c(rng), c(rng))),
        4 => Cmd::Lr(vector(c(rng), c(rng))),
        5 => Cmd::H(c(rng)),
        6 => Cmd::Hr(c(rng)),
        7 => Cmd::V(c(rng)),
        8 => Cmd::Vr(c(rng)),
        9 => Cmd::Q(point(c(rng), c(rng)), point(c(rng), c(rng))),
        10 => Cmd::Qr(vector(c(rng), c(rng)), vector(c(rng), c(rng))),
        11 => Cmd::T(point(c(rng), c(rng))),
        12 => Cmd::Tr(vector(c(rng), c(rng))),
        13 => Cmd::C(point(c(rng), c(rng)), point(c(rng), c(rng)), point(c(rng), c(rng))),
        14 => Cmd::Cr(vector(c(rng), c(rng)), vector(c(rng), c(rng)), vector(c(rng), c(rng))),
        15 => Cmd::S(point(c(rng), c(rng)), point(c(rng), c(rng))),
        16 => Cmd::Sr(vector(c(rng), c(rng)), vector(c(rng), c(rng))),
        17 => {
            let a = arcp(rng);
            Cmd::A(a, point(c(rng), c(rng)))
        }
        18 => {
            let a = arcp(rng);
            Cmd::Ar(a, vector(c(rng), c(rng)))
        }
        _ => Cmd::R(
            point(c(rng), c(rng)),
            vector(rng.range(1, 2 * span) as f32, rng.range(1, 2 * span) as f32),
            rng.range(-25, 25) as f32 * 0.25,
            rng.range(-12, 12) as f32 * 0.25,
        ),
    }
}

fn features(seqs: &[Vec<Cmd>]) -> String {
    let any = |f: &dyn Fn(&Cmd) -> bool| seqs.iter().flatten().any(|c| f(c));
    let mut s = String::new();
    if any(&|c| c.is_arc()) {
        s.push_str(" arc");
    }
    if any(&|c| c.is_smooth()) {
        s.push_str(" smooth");
    }
    if any(&|c| matches!(c, Cmd::Z)) {
        s.push_str(" close");
    }
    if seqs.iter().any(|q| q.first().map_or(false, |c| !matches!(c, Cmd::M(..) | Cmd::Mr(..)))) {
        s.push_str(" no-initial-move");
    }
    if seqs.iter().any(|q| q.windows(2).any(|w| matches!(w[0], Cmd::Z) && !matches!(w[1], Cmd::M(..) | Cmd::Mr(..) | Cmd::Z))) {
        s.push_str(" draw-after-close");
    }
    s
}

/// One case = one or more sequences.  The implementation is run once here (guarded); the closure
/// reports that run (or re-runs it un-guarded if it panicked, so that the panic is reported through
/// the normal path).  The CASE line carries the commands' operands only.
fn emit(ctx: &mut Ctx, family: &str, make: impl FnOnce(&mut Rng) -> (String, Vec<Vec<Cmd>>)) {
    ctx.case(family, move |rng| {
        let (kind, seqs) = make(rng);
        let runs: Option<Vec<Run>> = vh::guarded(|| seqs.iter().map(|s| run(s)).collect());
        let mut args = Out::new();
        for (si, s) in seqs.iter().enumerate() {
            if si > 0 {
                args.t("|");
            }
            for c in s.iter() {
                put_cmd(&mut args, c);
            }
        }
        let triv = if seqs.iter().all(|s| s.is_empty()) { " trivial" } else { "" };
        let tag = format!("{} {}{}{}", family, kind, features(&seqs), triv);
        (args, tag, move || {
            let runs = match runs {
                Some(r) => r,
                None => seqs.iter().map(|s| run(s)).collect(),
            };
            let mut o = Out::new();
            let mut orc = Oracle::new();
            for (si, (s, r)) in seqs.iter().zip(&runs).enumerate() {
                if si > 0 {
                    o.t("|");
                }
                put_run(&mut o, r);
                if !orc.failed() {
                    oracle(s, r, &mut orc);
                }
            }
            CaseOut { imp: o, orcl: orc.verdict }
        })
    });
}

/// lyon's `S::EPSILON` for f32: `SvgArc::is_straight_line` is `|r| <= 1e-4`
const LYON_EPS: f32 = 1e-4;

/// `arc_to` with a non-zero radius that lyon treats as zero
fn has_tiny_radius_arc(cmds: &[Cmd]) -> bool {
    cmds.iter().any(|c| match c {
        Cmd::A(a, _) | Cmd::Ar(a, _) => {
            (a.radii.x != 0.0 && a.radii.x.abs() <= LYON_EPS) || (a.radii.y != 0.0 && a.radii.y.abs() <= LYON_EPS)
        }
        _ => false,
    })
}

/// which branches of `arc_to` / `arc` a run took, as tag words (evidence distribution)
fn arc_branches(cmds: &[Cmd], r: &Run) -> String {
    let mut w: Vec<&'static str> = Vec::new();
    for (i, c) in cmds.iter().enumerate() {
        if !c.is_arc() {
            continue;
        }
        let calls = &r.per_cmd[i];
        let nq = calls.iter().filter(|k| matches!(k, Call::Q(..))).count();
        let has_b = calls.iter().any(|k| matches!(k, Call::B(..)));
        let has_l = calls.iter().any(|k| matches!(k, Call::L(..)));
        w.push(match (nq > 0, has_b, has_l) {
            (true, true, _) => "arc:begin+pieces",
            (true, false, true) => "arc:line+pieces",
            (true, false, false) => "arc:far-start",
            (false, true, _) => "arc:begin-only",
            (false, false, true) => "arc:line-only",
            (false, false, false) => "arc:no-call",
        });
        if let Cmd::R(_, _, sweep, _) = c {
            if sweep.abs() > 2.0 * std::f32::consts::PI {
                w.push("arc:beyond-turn");
            }
            if *sweep == 0.0 {
                w.push("arc:zero-sweep");
            }
        }
        if nq == 8 {
            w.push("arc:8-pieces");
        }
    }
    w.sort();
    w.dedup();
    w.iter().map(|x| format!(" {}", x)).collect()
}

/// family `svg_arc_e2e:32`: one sequence per case, CASE line without advice
fn emit_e2e(ctx: &mut Ctx, make: impl FnOnce(&mut Rng) -> (String, Vec<Cmd>)) {
    ctx.case("svg_arc_e2e:32", move |rng| {
        let (kind, seq) = make(rng);
        let mut args = Out::new();
        for c in &seq {
            put_cmd(&mut args, c);
        }
        let seqs = vec![seq.clone()];
        // one guarded run for the branch words of the tag (which paths of arc / arc_to were taken)
        let branches = vh::guarded(|| arc_branches(&seq, &run(&seq))).unwrap_or_else(|| " arc:panic".to_string());
        let tag = format!("svg_arc_e2e {}{}{}", kind, features(&seqs), branches);
        (args, tag, move || {
            let r = run(&seq);
            let mut o = Out::new();
            let mut orc = Oracle::new();
            put_run(&mut o, &r);
            if has_tiny_radius_arc(&seq) {
                // observation, outside the property's statement (C13's subject): SVG scales too small
                // radii up, lyon draws a straight line for 0 < |r| <= S::EPSILON = 1e-4
                orc.skip("arc_to with a radius in (0, 1e-4]: lyon's SvgArc::is_straight_line draws a straight line");
            } else {
                oracle_with(&seq, &r, &mut orc, true);
            }
            CaseOut { imp: o, orcl: orc.verdict }
        })
    });
}

fn e2e_coord(rng: &mut Rng, span: i64) -> f32 {
    match rng.below(4) {
        0 => rng.range(-span, span) as f32,
        1 => rng.range(-4 * span, 4 * span) as f32 * 0.25,
        _ => rng.uniform(-(span as f64), span as f64) as f32,
    }
}

fn e2e_radius(rng: &mut Rng, span: i64, allow_tiny: bool) -> f32 {
    let r = match rng.below(10) {
        0 => rng.range(1, 2 * span) as f32,
        1 if allow_tiny => *rng.pick(&[0.0f32, 1e-7, 1e-5, 5e-5, 1e-4, 1.0001e-4, 2e-4, 1e-3]),
        2 => rng.log_uniform(-2.0, 3.0) as f32,
        3 => span as f32 * 0.01,
        _ => rng.uniform(0.05, 2.0 * span as f64) as f32,
    };
    if rng.chance(1, 6) {
        -r
    } else {
        r
    }
}

fn e2e_angle(rng: &mut Rng, wide: f64) -> f32 {
    match rng.below(6) {
        0 => 0.0,
        1 => rng.range(-12, 12) as f32 * 0.25,
        2 => rng.range(-8, 8) as f32 * std::f32::consts::FRAC_PI_4,
        _ => rng.uniform(-wide, wide) as f32,
    }
}

fn e2e_cmd(rng: &mut Rng, span: i64) -> Cmd {
    let mut c = |rng: &mut Rng| e2e_coord(rng, span);
    let arcp = |rng: &mut Rng| ArcP {
        radii: vector(e2e_radius(rng, span, true), e2e_radius(rng, span, true)),
        rot: e2e_angle(rng, 7.0),
        large: rng.chance(1, 2),
        sweep: rng.chance(1, 2),
    };
    match rng.below(20) {
        0 | 1 => Cmd::M(point(c(rng), c(rng))),
        2 => Cmd::Mr(vector(c(rng), c(rng))),
        3 | 4 => Cmd::Z,
        5 => Cmd::L(point(c(rng), c(rng))),
        6 => Cmd::Lr(vector(c(rng), c(rng))),
        7 => Cmd::Hr(c(rng)),
        8 => Cmd::Q(point(c(rng), c(rng)), point(c(rng), c(rng))),
        9 => Cmd::Tr(vector(c(rng), c(rng))),
        10 => Cmd::Sr(vector(c(rng), c(rng)), vector(c(rng), c(rng))),
        11 | 12 | 13 | 14 => {
            let a = arcp(rng);
            Cmd::A(a, point(c(rng), c(rng)))
        }
        15 | 16 | 17 => {
            let a = arcp(rng);
            Cmd::Ar(a, vector(c(rng), c(rng)))
        }
        _ => {
            let sweep = match rng.below(8) {
                0 => 0.0,
                1 => std::f32::consts::PI * 2.0 * if rng.chance(1, 2) { -1.0 } else { 1.0 },
                2 => rng.uniform(-20.0, 20.0) as f32,
                3 => 1e-6,
                _ => rng.uniform(-6.5, 6.5) as f32,
            };
            Cmd::R(
                point(c(rng), c(rng)),
                vector(e2e_radius(rng, span, false).abs().max(1e-3), e2e_radius(rng, span, false).abs().max(1e-3)),
                sweep,
                e2e_angle(rng, 7.0),
            )
        }
    }
}

fn decode(mut k: u64, len: usize, alpha: &[Cmd]) -> Vec<Cmd> {
    let n = alpha.len() as u64;
    let mut v = vec![alpha[0]; len];
    for i in (0..len).rev() {
        v[i] = alpha[(k % n) as usize];
        k /= n;
    }
    v
}

fn main() {
    let mut ctx = Ctx::from_args("C15");
    let alpha = alphabet();
    let n = alpha.len() as u64;

    // wit: fixed sequences — the witnesses of the two findings and lyon's own svg_builder tests
    let circ = ArcP { radii: vector(5., 5.), rot: 0.0, large: false, sweep: true };
    let fixed: Vec<(&str, Vec<Cmd>)> = vec![
        (
            "smooth-cubic-after-arc",
            vec![
                Cmd::M(point(0., 0.)),
                Cmd::C(point(0., 10.), point(10., 10.), point(10., 0.)),
                Cmd::A(circ, point(20., 0.)),
                Cmd::S(point(30., 10.), point(30., 0.)),
            ],
        ),
        (
            "smooth-quad-after-arc",
            vec![Cmd::M(point(0., 0.)), Cmd::Q(point(5., 10.), point(10., 0.)), Cmd::A(circ, point(20., 0.)), Cmd::T(point(30., 0.))],
        ),
        (
            "elliptic-arc",
            vec![
                Cmd::M(point(3., 1.)),
                Cmd::A(ArcP { radii: vector(4., 3.), rot: 0.5, large: false, sweep: true }, point(6., 2.)),
                Cmd::Lr(vector(1., 0.)),
            ],
        ),
        ("line-to-after-close", vec![Cmd::L(point(1., 0.)), Cmd::Z, Cmd::L(point(2., 0.))]),
        ("relative-curves", vec![Cmd::M(point(0., 0.)), Cmd::Qr(vector(0., 100.), vector(-100., 100.)), Cmd::Lr(vector(-50., 0.))]),
        (
            "arc-to-update-position",
            vec![Cmd::M(point(0., 0.)), Cmd::A(ArcP { radii: vector(100., 100.), rot: 0.0, large: false, sweep: false }, point(0., 100.))],
        ),
        ("issue-650", vec![Cmd::R(point(0., 0.), vector(50., 50.), std::f32::consts::PI, 0.0)]),
        (
            "straight-line-arc",
            vec![Cmd::M(point(100., 0.)), Cmd::A(ArcP { radii: vector(100., 100.), rot: 0.0, large: false, sweep: false }, point(100., 0.))],
        ),
    ];
    // witness of finding C15-arc-zero-sweep-stale-position (repaired by lyon commit 250152af;
    // Props/C15b.lean svg_arc_zero_sweep_repaired): zero-sweep `arc` inside a sub-path, current point
    // 0.05 off the circle: `line_to(1, 0)`; before the repair `current_position` stayed (1.05, 0) and
    // `l 1 0` was resolved against it
    let stale: Vec<Cmd> = vec![Cmd::M(point(1.05, 0.)), Cmd::R(point(0., 0.), vector(1., 1.), 0.0, 0.0), Cmd::Lr(vector(1., 0.))];
    let mut fixed = fixed;
    fixed.push(("arc-zero-sweep-stale", stale.clone()));
    let fixed_e2e: Vec<(&str, Vec<Cmd>)> = fixed.iter().filter(|(_, s)| s.iter().any(|c| c.is_arc())).cloned().collect();
    for (name, seq) in fixed {
        emit(&mut ctx, "wit", move |_| (name.to_string(), vec![seq]));
    }
    // svg_arc_e2e: the arc witnesses again, then arc-heavy sequences with non-integer operands; the
    // model gets the operands only
    for (name, seq) in fixed_e2e {
        emit_e2e(&mut ctx, move |_| (format!("wit-{}", name), seq));
    }
    for _ in 0..ctx.n(4000, 60000) {
        emit_e2e(&mut ctx, |rng| {
            let len = rng.range(1, 10) as usize;
            let span = *rng.pick(&[4i64, 16, 100]);
            let s: Vec<Cmd> = (0..len).map(|_| e2e_cmd(rng, span)).collect();
            (format!("len{}", bucket(len)), s)
        });
    }
    // exh: every sequence of length 0..=3
    for len in 0..=3usize {
        for k in 0..n.pow(len as u32) {
            emit(&mut ctx, "exh", |_| (format!("len{}", len), vec![decode(k, len, &alpha)]));
        }
    }
    // exhm: inside a sub-path (after `M 1 2`)
    for len in 1..=3 {
        for k in 0..n.pow(len as u32) {
            emit(&mut ctx, "exhm", |_| {
                let mut s = vec![Cmd::M(point(1., 2.))];
                s.extend(decode(k, len, &alpha));
                (format!("M+len{}", len), vec![s])
            });
        }
    }
    // blk (thorough): all sequences of length 4, one case per 3-prefix
    if ctx.thorough {
        for k in 0..n.pow(3) {
            emit(&mut ctx, "blk", |_| {
                let pre = decode(k, 3, &alpha);
                let seqs: Vec<Vec<Cmd>> = alpha
                    .iter()
                    .map(|c| {
                        let mut s = pre.clone();
                        s.push(*c);
                        s
                    })
                    .collect();
                ("len4x39".to_string(), seqs)
            });
        }
    }
    // rnd: random sequences up to length 60
    let uniform = [3, 2, 3, 3, 3, 1, 1, 1, 1, 3, 2, 3, 2, 3, 2, 3, 2, 3, 2, 1];
    for _ in 0..ctx.n(6000, 60000) {
        emit(&mut ctx, "rnd", |rng| {
            let len = if rng.chance(1, 3) { rng.range(1, 8) } else { rng.range(1, 60) } as usize;
            let span = *rng.pick(&[4i64, 16, 16, 100]);
            let s: Vec<Cmd> = (0..len).map(|_| rnd_cmd(rng, &uniform, span)).collect();
            (format!("len{}", bucket(len)), vec![s])
        });
    }
    // pat: short, biased to curves / smooth / arcs / close
    let biased = [2, 1, 3, 1, 1, 0, 1, 0, 1, 3, 2, 5, 4, 3, 2, 5, 4, 4, 3, 2];
    for _ in 0..ctx.n(6000, 60000) {
        emit(&mut ctx, "pat", |rng| {
            let len = rng.range(2, 9) as usize;
            let s: Vec<Cmd> = (0..len).map(|_| rnd_cmd(rng, &biased, 8)).collect();
            (format!("len{}", bucket(len)), vec![s])
        });
    }
    ctx.finish();
}

fn bucket(len: usize) -> &'static str {
    match len {
        0..=3 => "1-3",
        4..=8 => "4-8",
        9..=20 => "9-20",
        21..=40 => "21-40",
        _ => "41-60",
    }
}
