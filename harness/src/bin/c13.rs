//! C13 — elliptic arcs: end-point and centre forms agree; Bézier approximations follow.
//!
//! Families
//!   `svg:{32,64}`  an `SvgArc` (end points, radii incl. negative / too small / degenerate,
//!                  x-rotation, the four flag combinations): `is_straight_line`, `to_arc`
//!                  (= `Arc::from_svg_arc`), `Arc::{from,to,to_svg_arc}`,
//!                  `SvgArc::for_each_{quadratic_bezier_with_t,cubic_bezier}`
//!   `arc:{32,64}`  a centre-form `Arc` (sweeps up to and beyond a full turn): `to_svg_arc`,
//!                  `sample_tangent`, `for_each_quadratic_bezier_with_t`, `for_each_cubic_bezier`
//!   `atan:{32,64}` euclid's `angle_from_x_axis`, `Vector2D::angle_to`, `Angle::{positive,angle_to}`
//!   `api:32`       oracle only: `WithSvg::arc_to` and the path parser's `A` command
//!
//! IMPL prints every modelled function's result; ORCL evaluates the property on lyon's outputs
//! against an independent f64 reference conversion (SVG implementation notes F.6.5/F.6.6 with libm
//! `atan2`) and the implicit ellipse equation.
//!
//! Rounding allowance: `K·eps·M·ecc` with `M` the magnitude of the coordinates and radii and
//! `ecc = max(rx/ry, ry/rx)` (the conversion divides coordinate differences by each radius).
//! Deviations above that are failures; they are *classified* (never tolerated) when they match the
//! witness predicate of a recorded defect.  Only the first is still open; the other classes belong
//! to findings that are fixed in /repo and stay active so that a regression is reported under its name
//! (a `fixed` entry of known_findings.json suppresses nothing):
//!   `sweep-beyond-full-turn`     OPEN.  |sweep| > 2π: the Bézier sequences stop after one full turn
//!   `fast-atan2-endpoint-drift`  fixed efc24b99 / 40e30eb0.  end point off by at most
//!                                (max |fast_atan2 − atan2| ≈ 2.04e-4 rad) × larger radius
//!   `tiny-radii-abs-epsilon`     fixed 863c17b2.  rx·ry·|sin step| ≤ S::EPSILON: `Line::intersection`
//!                                called the two tangents parallel, control point = start point
//!   `ctrl-intersection-cancellation`  fixed 863c17b2.  quadratic control point off by no more than the
//!                                a-priori rounding bound of `Line::intersection` on absolute positions
//!   `fast-atan2-sweep-wrap`      never observed: a sweep off by a whole turn near 0 / 2π

use lyon_extra::parser::{ParserOptions, PathParser, Source};
use lyon_geom::euclid::Angle;
use lyon_geom::{point, vector, Arc, ArcFlags, CubicBezierSegment, Point, QuadraticBezierSegment, SvgArc, Vector};
use lyon_path::builder::SvgPathBuilder;
use lyon_path::{Event, Path};
use vh::fl::Gen;
use vh::{CaseOut, Ctx, Fl, Oracle, Out, Rng};

const PI: f64 = std::f64::consts::PI;
const TWO_PI: f64 = 2.0 * PI;
/// max |fast_atan2 − atan2| (measured 2.035e-4 at the octant diagonals) with a little slack
const ATAN_ERR: f64 = 2.1e-4;
/// normalised radial deviation bounds = the bounds PROVED for exact arithmetic in Props/C13.lean and
/// Props/C13b.lean (`arc_quads_near_ellipse_real`: 3.2e-3 for steps up to 45 degrees, exact maximum
/// 3.136e-3; `arc_cubics_near_ellipse_real`: 2.0e-3 for steps up to 90 degrees, exact maximum
/// 1.963e-3 = 1 - sqrt(1 - (8 - 3 sqrt 7)/16): lyon's alpha formula gives kappa = 0.5486 for a quarter
/// turn); rounding is covered by the allowance added where the bound is used.  (Until the bounds were
/// theorems these constants were 3 x the measured maxima: 1e-2 / 6e-3.)
const QUAD_DEV: f64 = 3.2e-3;
const CUBIC_DEV: f64 = 2.0e-3;
/// the former bounds (3 x measured), kept as a cap where the rounding allowance of the proved bounds
/// grows without limit (eccentricity beyond 1e6): the oracle is nowhere looser than it was
const QUAD_DEV_CAP: f64 = 1.0e-2;
const CUBIC_DEV_CAP: f64 = 6.0e-3;

fn lyon_eps<S: Fl>() -> f64 {
    S::EPSILON.f()
}

// ---------------------------------------------------------------------------------------------
// printing

fn put_arc<S: Fl>(o: &mut Out, a: &Arc<S>) {
    o.p(a.center).v(a.radii).f(a.start_angle.radians).f(a.sweep_angle.radians).f(a.x_rotation.radians);
}
fn put_svg<S: Fl>(o: &mut Out, s: &SvgArc<S>) {
    o.p(s.from).p(s.to).v(s.radii).f(s.x_rotation.radians).b(s.flags.large_arc).b(s.flags.sweep);
}
fn put_quads<S: Fl>(o: &mut Out, qs: &[(QuadraticBezierSegment<S>, S, S)]) {
    o.t("quads").u(qs.len() as u64);
    for (q, t0, t1) in qs {
        o.p(q.from).p(q.ctrl).p(q.to).f(*t0).f(*t1);
    }
}
fn put_cubics<S: Fl>(o: &mut Out, cs: &[CubicBezierSegment<S>]) {
    o.t("cubics").u(cs.len() as u64);
    for c in cs {
        o.p(c.from).p(c.ctrl1).p(c.ctrl2).p(c.to);
    }
}

fn put_flat<S: Fl>(o: &mut Out, fs: &[(Point<S>, Point<S>, S, S)]) {
    o.t("flat").u(fs.len() as u64);
    for (a, b, t0, t1) in fs {
        o.p(*a).p(*b).f(*t0).f(*t1);
    }
}

// ---------------------------------------------------------------------------------------------
// f64 reference

#[derive(Clone, Copy, Debug)]
struct Ell {
    cx: f64,
    cy: f64,
    rx: f64,
    ry: f64,
    phi: f64,
}

impl Ell {
    fn of<S: Fl>(a: &Arc<S>) -> Ell {
        Ell { cx: a.center.x.f(), cy: a.center.y.f(), rx: a.radii.x.f(), ry: a.radii.y.f(), phi: a.x_rotation.radians.f() }
    }
    fn at(&self, ang: f64) -> (f64, f64) {
        let (ex, ey) = (self.rx * ang.cos(), self.ry * ang.sin());
        let (s, c) = self.phi.sin_cos();
        (self.cx + ex * c - ey * s, self.cy + ey * c + ex * s)
    }
    /// coordinates in the frame where the ellipse is the unit circle
    fn unit(&self, p: (f64, f64)) -> (f64, f64) {
        let (s, c) = self.phi.sin_cos();
        let (dx, dy) = (p.0 - self.cx, p.1 - self.cy);
        ((dx * c + dy * s) / self.rx, (-dx * s + dy * c) / self.ry)
    }
    /// |radius − 1| in the unit-circle frame: distance to the ellipse ≤ this × larger radius
    fn dev(&self, p: (f64, f64)) -> f64 {
        let (u, v) = self.unit(p);
        (u.hypot(v) - 1.0).abs()
    }
    fn rmax(&self) -> f64 {
        self.rx.abs().max(self.ry.abs())
    }
    fn rmin(&self) -> f64 {
        self.rx.abs().min(self.ry.abs())
    }
    fn ecc(&self) -> f64 {
        (self.rmax() / self.rmin()).max(1.0)
    }
}

struct RefArc {
    e: Ell,
    th1: f64,
    dth: f64,
    rf: f64,
}

/// SVG implementation notes F.6.5 / F.6.6 in f64 with libm atan2 (independent of lyon's code)
fn ref_convert(from: (f64, f64), to: (f64, f64), r: (f64, f64), phi: f64, large: bool, sweep: bool) -> RefArc {
    let (s, c) = phi.sin_cos();
    let (dx, dy) = ((from.0 - to.0) / 2.0, (from.1 - to.1) / 2.0);
    let (x1p, y1p) = (c * dx + s * dy, -s * dx + c * dy);
    let (mut rx, mut ry) = (r.0.abs(), r.1.abs());
    let rf = x1p * x1p / (rx * rx) + y1p * y1p / (ry * ry);
    if rf > 1.0 {
        rx *= rf.sqrt();
        ry *= rf.sqrt();
    }
    let den = rx * rx * y1p * y1p + ry * ry * x1p * x1p;
    let num = rx * rx * ry * ry - den;
    let mut co = (num / den).max(0.0).sqrt();
    if large == sweep {
        co = -co;
    }
    let (cxp, cyp) = (co * rx * y1p / ry, -co * ry * x1p / rx);
    let cx = c * cxp - s * cyp + (from.0 + to.0) / 2.0;
    let cy = s * cxp + c * cyp + (from.1 + to.1) / 2.0;
    let th1 = ((y1p - cyp) / ry).atan2((x1p - cxp) / rx);
    let th2 = ((-y1p - cyp) / ry).atan2((-x1p - cxp) / rx);
    let mut dth = (th2 - th1) % TWO_PI;
    if sweep && dth < 0.0 {
        dth += TWO_PI;
    } else if !sweep && dth > 0.0 {
        dth -= TWO_PI;
    }
    RefArc { e: Ell { cx, cy, rx, ry, phi }, th1, dth, rf }
}

fn d2(a: (f64, f64), b: (f64, f64)) -> f64 {
    (a.0 - b.0).hypot(a.1 - b.1)
}
fn pf<S: Fl>(p: Point<S>) -> (f64, f64) {
    (p.x.f(), p.y.f())
}
/// a − b reduced to (−π, π]
fn angdiff(a: f64, b: f64) -> f64 {
    let mut d = (a - b) % TWO_PI;
    if d > PI {
        d -= TWO_PI;
    } else if d <= -PI {
        d += TWO_PI;
    }
    d
}
fn quad_at<S: Fl>(q: &QuadraticBezierSegment<S>, t: f64) -> (f64, f64) {
    let (a, c, b) = (pf(q.from), pf(q.ctrl), pf(q.to));
    let u = 1.0 - t;
    (u * u * a.0 + 2.0 * u * t * c.0 + t * t * b.0, u * u * a.1 + 2.0 * u * t * c.1 + t * t * b.1)
}
fn cubic_at<S: Fl>(q: &CubicBezierSegment<S>, t: f64) -> (f64, f64) {
    let (a, c1, c2, b) = (pf(q.from), pf(q.ctrl1), pf(q.ctrl2), pf(q.to));
    let u = 1.0 - t;
    let (w0, w1, w2, w3) = (u * u * u, 3.0 * u * u * t, 3.0 * u * t * t, t * t * t);
    (w0 * a.0 + w1 * c1.0 + w2 * c2.0 + w3 * b.0, w0 * a.1 + w1 * c1.1 + w2 * c2.1 + w3 * b.1)
}

/// rounding allowance for points of an arc: coordinates, radii, and the angle's rounding × radius
fn round_tol<S: Fl>(e: &Ell, angmag: f64, extra: f64) -> f64 {
    let m = e.cx.abs().max(e.cy.abs()).max(e.rmax()).max(extra);
    64.0 * S::EPS * m * (1.0 + angmag) * e.ecc().min(1e6)
}

// ---------------------------------------------------------------------------------------------
// the Bézier-sequence clauses, shared by `svg` (through the SvgArc wrappers) and `arc`

fn collect_quads<S: Fl>(f: impl FnOnce(&mut dyn FnMut(&QuadraticBezierSegment<S>, std::ops::Range<S>))) -> Vec<(QuadraticBezierSegment<S>, S, S)> {
    let mut v = Vec::new();
    f(&mut |q, r| v.push((*q, r.start, r.end)));
    v
}

/// `site` = "arc" or "svg"
fn bezier_oracle<S: Fl>(
    orc: &mut Oracle,
    site: &str,
    arc: &Arc<S>,
    quads: &[(QuadraticBezierSegment<S>, S, S)],
    plain_quads: &[QuadraticBezierSegment<S>],
    cubics: &[CubicBezierSegment<S>],
) {
    let e = Ell::of(arc);
    let start = arc.start_angle.radians.f();
    let sweep = arc.sweep_angle.radians.f();
    let cl = |c: &str| format!("{}.{}", site, c);
    if !(e.rmin() > 0.0) || !sweep.is_finite() || !start.is_finite() {
        orc.skip("degenerate-ellipse");
        return;
    }
    let beyond = sweep.abs() > TWO_PI * (1.0 + 4.0 * S::EPS);
    let cls_end = if beyond { "sweep-beyond-full-turn" } else { "generic" };
    let eff = sweep.abs().min(TWO_PI);
    let tol = round_tol::<S>(&e, start.abs() + sweep.abs(), 0.0);
    let from = pf(arc.from());
    let to = pf(arc.to());

    // the version without ranges is the same sequence
    let same = plain_quads.len() == quads.len()
        && plain_quads.iter().zip(quads).all(|(a, b)| a.from == b.0.from && a.ctrl == b.0.ctrl && a.to == b.0.to);
    orc.check(same || quads.iter().any(|q| !q.0.ctrl.x.finite()), &cl("quads/with_t-same"), "generic", || "for_each_quadratic_bezier differs from _with_t".into());

    for (kind, step_max, n, dev_bound, dev_cap) in
        [("quads", PI / 4.0, quads.len(), QUAD_DEV, QUAD_DEV_CAP), ("cubics", PI / 2.0, cubics.len(), CUBIC_DEV, CUBIC_DEV_CAP)]
    {
        let endp = |i: usize| -> ((f64, f64), (f64, f64)) {
            if kind == "quads" {
                (pf(quads[i].0.from), pf(quads[i].0.to))
            } else {
                (pf(cubics[i].from), pf(cubics[i].to))
            }
        };
        let at = |i: usize, t: f64| -> (f64, f64) {
            if kind == "quads" {
                quad_at(&quads[i].0, t)
            } else {
                cubic_at(&cubics[i], t)
            }
        };
        // count: no step larger than 45° / 90°: ceil(covered / step) pieces, where `covered` is the whole
        // |sweep| or (what lyon does today) one full turn when the sweep is longer; either value when the
        // quotient is within rounding of an integer
        let count_ok = |x: f64| {
            let near_int = (x - x.round()).abs() <= 8.0 * S::EPS * x.max(1.0);
            n == x.ceil() as usize || (near_int && (n == x.round() as usize || n == x.round() as usize + 1))
        };
        let whole = beyond && count_ok(sweep.abs() / step_max);
        let eff = if whole { sweep.abs() } else { eff };
        let x = eff / step_max;
        orc.check(count_ok(x), &cl(&format!("{}/count", kind)), "generic", || format!("n={} expected ceil({})", n, x));
        if n == 0 {
            continue;
        }
        // connected
        for i in 0..n - 1 {
            let dgap = d2(endp(i).1, endp(i + 1).0);
            orc.check(dgap <= tol, &cl(&format!("{}/connected", kind)), "generic", || format!("piece {} gap={:e} tol={:e}", i, dgap, tol));
        }
        // starts on the arc's start point
        let es = d2(endp(0).0, from);
        orc.check(es <= tol, &cl(&format!("{}/starts-at-from", kind)), "generic", || format!("err={:e} tol={:e}", es, tol));
        // pieces' end points are on the arc, in parameter order: piece i spans [i/n, (i+1)/n] of the arc
        let sgn = if sweep < 0.0 { -1.0 } else { 1.0 };
        for i in 0..n {
            let (a, b) = endp(i);
            let ea = d2(a, e.at(start + sweep * (i as f64 / n as f64)));
            let eb = d2(b, e.at(start + sweep * ((i + 1) as f64 / n as f64)));
            let err = ea.max(eb);
            orc.check(err <= tol, &cl(&format!("{}/on-arc-in-order", kind)), cls_end, || {
                format!("piece {}/{} err={:e} tol={:e} sweep={}", i, n, err, tol, sweep)
            });
        }
        // ends on the arc's end point
        let ee = d2(endp(n - 1).1, to);
        orc.check(ee <= tol, &cl(&format!("{}/ends-at-to", kind)), cls_end, || format!("err={:e} tol={:e} sweep={}", ee, tol, sweep));
        // stays near the true ellipse, and runs through it in the arc's direction
        let step = eff / n as f64 * sgn;
        let det = e.rx.abs() * e.ry.abs() * step.sin().abs();
        let tiny = kind == "quads" && det <= lyon_eps::<S>() * 1.01;
        // proved bound + rounding allowance proportional to the conditioning (offset / smaller radius,
        // eccentricity); never above the former bound with its capped allowance
        let allow = 64.0 * S::EPS * (1.0 + (e.cx.abs().max(e.cy.abs())) / e.rmin());
        let dev_tol = (dev_bound + allow * e.ecc()).min(dev_cap + allow * e.ecc().min(1e6));
        // `Line::intersection` works with cross products of absolute positions `p × (p + v)`: a-priori
        // rounding bound 4·eps·M²·|v| / det on the control point (M = distance from the origin,
        // v = tangent, det = cross product of the tangents), here in units of the smaller radius
        let mm = e.cx.abs().max(e.cy.abs()) + e.rmax();
        let amp = if kind == "quads" { 4.0 * S::EPS * mm * mm * e.rmax() / det / e.rmin() } else { 0.0 };
        let mut worst = 0.0f64;
        let mut worst_ang = 0.0f64;
        for i in 0..n {
            for k in 0..=8 {
                let t = k as f64 / 8.0;
                let p = at(i, t);
                worst = worst.max(e.dev(p));
                let (u, v) = e.unit(p);
                // the quadratic/cubic parameter is not the arc parameter, but it is within 0.02·step of it
                let expect = start + step * (i as f64 + t);
                worst_ang = worst_ang.max(angdiff(v.atan2(u), expect).abs());
            }
        }
        let cls_dev = if tiny {
            "tiny-radii-abs-epsilon"
        } else if amp > dev_bound * 0.01 && worst <= dev_tol + amp {
            "ctrl-intersection-cancellation"
        } else {
            "generic"
        };
        orc.check(worst <= dev_tol, &cl(&format!("{}/near-ellipse", kind)), cls_dev, || {
            format!("normalised deviation {:e} bound {:e} (n={} step={} cancellation-estimate {:e})", worst, dev_tol, n, step, amp)
        });
        // 0.03 x |step|: for quadratics this is the bound PROVED for exact arithmetic in Props/C13e.lean
        // (`quad_angular_offset_real`, `arc_quads_angular_offset_real`; measured maximum 5.43e-3 x |step|);
        // for cubics it is still a measured bound (maximum 3.89e-3 x |step|)
        let ang_tol = 0.03 * step.abs() + 1e-3 + 64.0 * S::EPS * (1.0 + start.abs() + sweep.abs()) + tol / e.rmin() + amp;
        orc.check(worst_ang <= ang_tol || tiny, &cl(&format!("{}/direction", kind)), "generic", || {
            format!("angular offset {:e} tol {:e}", worst_ang, ang_tol)
        });
    }
    // parameter ranges of the quadratic pieces: 0 → 1, consecutive, increasing
    if !quads.is_empty() {
        let n = quads.len();
        let first = quads[0].1.f();
        let last = quads[n - 1].2.f();
        orc.check(first == 0.0, &cl("quads/range-starts-0"), "generic", || format!("t0={}", first));
        orc.check(last == 1.0, &cl("quads/range-ends-1"), "generic", || format!("t1={}", last));
        for i in 0..n {
            orc.check(quads[i].1.f() < quads[i].2.f(), &cl("quads/range-increasing"), "generic", || format!("piece {}: {}..{}", i, quads[i].1.f(), quads[i].2.f()));
            if i + 1 < n {
                orc.check(quads[i].2 == quads[i + 1].1, &cl("quads/range-consecutive"), "generic", || format!("piece {}", i));
            }
        }
    }
}

// ---------------------------------------------------------------------------------------------
// generators

#[derive(Clone, Copy, PartialEq, Debug)]
enum RadMode {
    Generous,
    TooSmall,
    HalfChord,
    Eccentric,
    Tiny,
    Zero,
    BelowEps,
}

fn gen_svg<S: Fl>(rng: &mut Rng) -> (SvgArc<S>, String) {
    let g = Gen::pick(rng);
    let from: Point<S> = g.point(rng);
    let mut to: Point<S> = g.point(rng);
    let mut note = "";
    if g == Gen::Degenerate && rng.chance(1, 3) {
        to = from;
        note = " trivial same-point";
    }
    let chord = d2(pf(from), pf(to)).max(1e-3);
    let mode = match rng.below(16) {
        0..=6 => RadMode::Generous,
        7..=9 => RadMode::TooSmall,
        10 => RadMode::HalfChord,
        11..=12 => RadMode::Eccentric,
        13 => RadMode::Tiny,
        14 => RadMode::Zero,
        _ => RadMode::BelowEps,
    };
    let lat = g == Gen::Lattice || g == Gen::Degenerate;
    let q = |x: f64| if lat { (x * 4.0).round().max(1.0) / 4.0 } else { x };
    let (mut rx, mut ry) = match mode {
        RadMode::Generous => (q(chord * rng.uniform(0.55, 3.0)), q(chord * rng.uniform(0.55, 3.0))),
        RadMode::TooSmall => (q(chord * rng.uniform(0.02, 0.5)), q(chord * rng.uniform(0.02, 0.5))),
        RadMode::HalfChord => (chord / 2.0, chord / 2.0),
        RadMode::Eccentric => {
            let r = chord * rng.uniform(0.3, 2.0);
            (r, r * 10f64.powf(rng.uniform(-3.0, 3.0)))
        }
        RadMode::Tiny => (rng.uniform(0.001, 0.02), rng.uniform(0.001, 0.02)),
        RadMode::Zero => (if rng.chance(1, 2) { 0.0 } else { chord }, if rng.chance(1, 2) { 0.0 } else { chord }),
        RadMode::BelowEps => (lyon_eps::<S>() * rng.uniform(0.1, 2.0), chord * rng.uniform(0.1, 2.0)),
    };
    // the 4 sign combinations of the radii × the 4 flag combinations
    let signs = rng.below(4);
    if signs & 1 != 0 {
        rx = -rx;
    }
    if signs & 2 != 0 {
        ry = -ry;
    }
    let flags = rng.below(4);
    let xrot = match rng.below(6) {
        0 => 0.0,
        1 => rng.range(-8, 8) as f64 * PI / 4.0,
        2 => rng.uniform(-50.0, 50.0),
        3 => rng.range(-16, 16) as f64 / 4.0,
        _ => rng.uniform(-7.0, 7.0),
    };
    let s = SvgArc {
        from,
        to,
        radii: vector(S::of(rx), S::of(ry)),
        x_rotation: Angle::radians(S::of(xrot)),
        flags: ArcFlags { large_arc: flags & 1 != 0, sweep: flags & 2 != 0 },
    };
    let tag = format!("{} {:?} flags{} rsign{}{}", g.name(), mode, flags, signs, note);
    (s, tag)
}

fn svg_case<S: Fl>(ctx: &mut Ctx) {
    ctx.case(&format!("svg:{}", S::BITS), |rng| {
        let (s, gtag) = gen_svg::<S>(rng);
        let mut args = Out::new();
        put_svg(&mut args, &s);
        // flattening tolerance: a fraction of the larger radius (or of the chord), so that the
        // number of segments stays moderate
        let straight = s.is_straight_line();
        let scale = if straight {
            1.0
        } else {
            // the radii after the F.6.6 scaling (which can be huge for a radius just above S::EPSILON)
            let a = s.to_arc();
            let m = a.radii.x.f().abs().max(a.radii.y.f().abs());
            if m.is_finite() { m.max(1e-6) } else { 1.0 }
        };
        let tol: S = S::of(scale * 10f64.powf(rng.uniform(-3.0, -0.5)));
        args.f(tol);
        let tag = format!("svg {} {}{}", S::BITS, gtag, if straight { " straight" } else { "" });
        (args, tag, move || {
            let mut o = Out::new();
            let mut orc = Oracle::new();
            o.t("straight").b(straight);
            let quads = collect_quads::<S>(|cb| s.for_each_quadratic_bezier_with_t(&mut |q, r| cb(q, r)));
            let mut plain = Vec::new();
            s.for_each_quadratic_bezier(&mut |q| plain.push(*q));
            let mut cubics = Vec::new();
            s.for_each_cubic_bezier(&mut |c| cubics.push(*c));
            let mut flat_t = Vec::new();
            s.for_each_flattened_with_t(tol, &mut |l, r| flat_t.push((l.from, l.to, r.start, r.end)));
            let mut flat = Vec::new();
            s.for_each_flattened(tol, &mut |l| flat.push((l.from, l.to)));
            if straight {
                put_quads(&mut o, &quads);
                put_cubics(&mut o, &cubics);
                put_flat(&mut o, &flat_t);
                let okf = flat_t.len() == 1 && flat_t[0].0 == s.from && flat_t[0].1 == s.to && flat_t[0].2.f() == 0.0 && flat_t[0].3.f() == 1.0;
                orc.check(okf, "svg.straight/flattened_with_t", "generic", || format!("n={}", flat_t.len()));
                // SVG: an arc with a zero radius or coincident end points is a straight line
                let okq = quads.len() == 1 && quads[0].0.from == s.from && quads[0].0.to == s.to && quads[0].1.f() == 0.0 && quads[0].2.f() == 1.0;
                let okc = cubics.len() == 1 && cubics[0].from == s.from && cubics[0].to == s.to;
                let okp = plain.len() == 1 && plain[0].from == s.from && plain[0].to == s.to;
                orc.check(okq && okc && okp, "svg.straight/line", "generic", || "straight-line arc is not one segment from→to".into());
                let mut n = 0;
                let mut last = s.from;
                s.for_each_flattened(S::of(0.01), &mut |l| {
                    n += 1;
                    last = l.to;
                });
                orc.check(n == 1 && last == s.to, "svg.straight/flattened", "generic", || format!("n={}", n));
                return CaseOut { imp: o, orcl: orc.verdict };
            }
            let arc = s.to_arc();
            o.t("arc");
            put_arc(&mut o, &arc);
            o.t("fromto").p(arc.from()).p(arc.to());
            let back = arc.to_svg_arc();
            o.t("back");
            put_svg(&mut o, &back);
            put_quads(&mut o, &quads);
            put_cubics(&mut o, &cubics);
            put_flat(&mut o, &flat_t);

            // ---- oracle
            let r = ref_convert(pf(s.from), pf(s.to), (s.radii.x.f(), s.radii.y.f()), s.x_rotation.radians.f(), s.flags.large_arc, s.flags.sweep);
            let e = Ell::of(&arc);
            let finite = [arc.center.x, arc.center.y, arc.radii.x, arc.radii.y, arc.start_angle.radians, arc.sweep_angle.radians].iter().all(|v| v.finite());
            orc.check(finite, "svg.to_arc/finite", "generic", || format!("{:?}", arc));
            if !finite {
                return CaseOut { imp: o, orcl: orc.verdict };
            }
            let ecc = r.e.ecc().min(1e6);
            let krel = 64.0 * S::EPS * ecc * ecc;
            // radii: |given| when they span the chord, scaled by sqrt(rf) otherwise
            let near_one = (r.rf - 1.0).abs() <= krel;
            let er = ((e.rx - r.e.rx).abs() / r.e.rx).max((e.ry - r.e.ry).abs() / r.e.ry);
            orc.check(er <= krel * (1.0 + r.rf.max(1.0).ln()), "svg.to_arc/radii", "generic", || {
                format!("radii ({},{}) expected ({},{}) rf={}", e.rx, e.ry, r.e.rx, r.e.ry, r.rf)
            });
            if r.rf <= 1.0 && !near_one {
                orc.check(e.rx == s.radii.x.f().abs() && e.ry == s.radii.y.f().abs(), "svg.to_arc/radii-kept", "generic", || "radii changed although they span the chord".into());
            }
            // x-rotation kept
            orc.check(arc.x_rotation == s.x_rotation, "svg.to_arc/x_rotation", "generic", || "x_rotation changed".into());
            // sweep: direction by the sweep flag, size by the large-arc flag, never more than a turn
            let sw = arc.sweep_angle.radians.f();
            orc.check(sw.abs() <= TWO_PI * (1.0 + 4.0 * S::EPS), "svg.to_arc/sweep-at-most-turn", "generic", || format!("sweep={}", sw));
            if sw != 0.0 {
                orc.check((sw > 0.0) == s.flags.sweep, "svg.to_arc/sweep-direction", "generic", || format!("sweep={} flag={}", sw, s.flags.sweep));
            }
            // the angles are ill-conditioned when the radii barely span the chord (rf ≈ 1: the centre moves
            // by sqrt(eps)); the size clause is about the choice among the candidate arcs, hence a coarse bound
            let ang_tol = 2.0 * ATAN_ERR + 64.0 * (S::EPS * ecc * ecc).sqrt();
            let wrap_zone = r.dth.abs() <= ang_tol || r.dth.abs() >= TWO_PI - ang_tol;
            let esw = (sw - r.dth).abs();
            let cls = if wrap_zone && (esw - TWO_PI).abs() <= ang_tol { "fast-atan2-sweep-wrap" } else { "generic" };
            orc.check(esw <= ang_tol, "svg.to_arc/sweep-size", cls, || format!("sweep={} reference={} rf={}", sw, r.dth, r.rf));
            if (sw.abs() - PI).abs() > ang_tol && r.rf < 1.0 - krel {
                orc.check((sw.abs() >= PI) == s.flags.large_arc, "svg.to_arc/large-arc", "generic", || format!("sweep={} large={}", sw, s.flags.large_arc));
            }
            // round trip: to_svg_arc ∘ from_svg_arc
            let rt_geom = back.from == arc.from() && back.to == arc.to() && back.radii == arc.radii && back.x_rotation == s.x_rotation;
            orc.check(rt_geom, "svg.roundtrip/geometry", "generic", || format!("{:?}", back));
            if sw != 0.0 {
                orc.check(back.flags.sweep == s.flags.sweep, "svg.roundtrip/sweep-flag", "generic", || format!("sweep={}", sw));
            }
            if (sw.abs() - PI).abs() > ang_tol && r.rf < 1.0 - krel {
                orc.check(back.flags.large_arc == s.flags.large_arc, "svg.roundtrip/large-flag", "generic", || format!("sweep={}", sw));
            }
            // Bézier sequences of the wrappers, against the converted arc
            bezier_oracle(&mut orc, "svg", &arc, &quads, &plain, &cubics);
            // flattening wrappers: same polyline with and without ranges; connected from the arc's start to
            // its end; ranges 0 → 1 in order; every vertex on the ellipse; every chord within the tolerance
            {
                let same = flat.len() == flat_t.len() && flat.iter().zip(&flat_t).all(|(a, b)| a.0 == b.0 && a.1 == b.1);
                orc.check(same, "svg.flattened/with_t-same", "generic", || format!("{} vs {} segments", flat.len(), flat_t.len()));
                let n = flat_t.len();
                let ftol = round_tol::<S>(&e, e.rmin().recip() * 0.0 + arc.start_angle.radians.f().abs() + sw.abs() * (1.0 + n as f64), 0.0);
                orc.check(n >= 1, "svg.flattened/nonempty", "generic", || "no segment".into());
                if n >= 1 {
                    orc.check(d2(pf(flat_t[0].0), pf(arc.from())) <= ftol, "svg.flattened/starts-at-from", "generic", || format!("{:?}", flat_t[0].0));
                    orc.check(flat_t[n - 1].1 == arc.to(), "svg.flattened/ends-at-to", "generic", || format!("{:?}", flat_t[n - 1].1));
                    orc.check(flat_t[0].2.f() == 0.0 && flat_t[n - 1].3.f() == 1.0, "svg.flattened/range-0-1", "generic", || format!("{}..{}", flat_t[0].2.f(), flat_t[n - 1].3.f()));
                    let mut worst = 0.0f64;
                    let mut worst_v = 0.0f64;
                    for i in 0..n {
                        if i + 1 < n {
                            orc.check(flat_t[i].1 == flat_t[i + 1].0 && flat_t[i].3 == flat_t[i + 1].2, "svg.flattened/connected", "generic", || format!("segment {}", i));
                        }
                        orc.check(flat_t[i].2.f() <= flat_t[i].3.f(), "svg.flattened/range-ordered", "generic", || format!("segment {}", i));
                        worst_v = worst_v.max(e.dev(pf(flat_t[i].1)));
                        let (a, b) = (pf(flat_t[i].0), pf(flat_t[i].1));
                        let mid = ((a.0 + b.0) / 2.0, (a.1 + b.1) / 2.0);
                        // distance of the chord's mid point to the ellipse ≤ normalised deviation × larger radius
                        worst = worst.max(e.dev(mid) * e.rmax());
                    }
                    let vtol = ftol / e.rmin();
                    orc.check(worst_v <= vtol, "svg.flattened/vertices-on-ellipse", "generic", || format!("normalised deviation {:e} tol {:e}", worst_v, vtol));
                    // the step is sized for a circle of the larger radius, so the sagitta bound holds for the unit-frame
                    // deviation scaled by the larger radius
                    let sag = tol.f() * (1.0 + 1e-3) + ftol * e.ecc().min(1e6);
                    orc.check(worst <= sag, "svg.flattened/tolerance", "generic", || format!("chord deviation {:e} tolerance {:e}", worst, tol.f()));
                }
            }
            // end points (last: the known fast_atan2 drift must not mask the clauses above)
            let m = pf(s.from).0.abs().max(pf(s.from).1.abs()).max(pf(s.to).0.abs()).max(pf(s.to).1.abs());
            let tol = round_tol::<S>(&r.e, TWO_PI, m) + 64.0 * S::EPS * ecc * r.e.rmax();
            let err = d2(pf(arc.from()), pf(s.from)).max(d2(pf(arc.to()), pf(s.to)));
            let drift = ATAN_ERR * r.e.rmax();
            let cls = if err <= tol + drift { "fast-atan2-endpoint-drift" } else { "generic" };
            orc.check(err <= tol, "svg.to_arc/endpoints", cls, || {
                format!("from {:?} to {:?} arc.from {:?} arc.to {:?} err={:e} tol={:e} drift-bound={:e}", pf(s.from), pf(s.to), pf(arc.from()), pf(arc.to()), err, tol, drift)
            });
            CaseOut { imp: o, orcl: orc.verdict }
        })
    });
}

fn gen_arc<S: Fl>(rng: &mut Rng) -> (Arc<S>, String) {
    let g = Gen::pick(rng);
    let lat = g == Gen::Lattice || g == Gen::Degenerate;
    let center: Point<S> = g.point(rng);
    let (rmode, rx, ry) = match rng.below(10) {
        0 => ("tiny-r", rng.uniform(0.0005, 0.02), rng.uniform(0.0005, 0.02)),
        1 => {
            let r = g.coord(rng).abs() + 0.25;
            ("ecc", r, r * 10f64.powf(rng.uniform(-3.0, 3.0)))
        }
        2 => {
            let r = g.coord(rng).abs() + 0.25;
            ("circle", r, r)
        }
        _ => ("r", g.coord(rng).abs() + 0.25, g.coord(rng).abs() + 0.25),
    };
    let ang = |rng: &mut Rng| if lat { rng.range(-28, 28) as f64 / 4.0 } else { rng.uniform(-7.0, 7.0) };
    let (smode, sweep) = match rng.below(12) {
        0 => ("multiple", rng.range(-8, 8) as f64 * PI / 4.0),
        1 => ("multiple32", (rng.range(-8, 8) as f32 * std::f32::consts::FRAC_PI_4) as f64),
        2 => ("beyond", rng.uniform(TWO_PI, 20.0) * if rng.chance(1, 2) { -1.0 } else { 1.0 }),
        3 => ("small", rng.log_uniform(-7.0, -1.0)),
        4 => ("trivial zero", 0.0),
        5 => ("near-multiple", rng.range(-8, 8) as f64 * PI / 4.0 + rng.uniform(-1e-6, 1e-6)),
        _ => ("sweep", ang(rng).max(-TWO_PI).min(TWO_PI)),
    };
    let a = Arc {
        center,
        radii: vector(S::of(rx), S::of(ry)),
        start_angle: Angle::radians(S::of(ang(rng))),
        sweep_angle: Angle::radians(S::of(sweep)),
        x_rotation: Angle::radians(S::of(if rng.chance(1, 3) { 0.0 } else { ang(rng) })),
    };
    (a, format!("{} {} {}", g.name(), rmode, smode))
}

fn arc_case<S: Fl>(ctx: &mut Ctx) {
    ctx.case(&format!("arc:{}", S::BITS), |rng| {
        let (a, gtag) = gen_arc::<S>(rng);
        let g = Gen::pick(rng);
        let t: S = g.param(rng);
        let mut args = Out::new();
        put_arc(&mut args, &a);
        args.f(t);
        let tag = format!("arc {} {}", S::BITS, gtag);
        (args, tag, move || {
            let mut o = Out::new();
            let mut orc = Oracle::new();
            let svg = a.to_svg_arc();
            o.t("svg");
            put_svg(&mut o, &svg);
            o.t("tan").v(a.sample_tangent(t));
            let quads = collect_quads::<S>(|cb| a.for_each_quadratic_bezier_with_t(&mut |q, r| cb(q, r)));
            let mut plain = Vec::new();
            a.for_each_quadratic_bezier(&mut |q| plain.push(*q));
            let mut cubics = Vec::new();
            a.for_each_cubic_bezier(&mut |c| cubics.push(*c));
            put_quads(&mut o, &quads);
            put_cubics(&mut o, &cubics);

            // to_svg_arc: end points are the arc's, flags describe the sweep
            let sw = a.sweep_angle.radians.f();
            orc.check(svg.from == a.from() && svg.to == a.to() && svg.radii == a.radii && svg.x_rotation == a.x_rotation, "arc.to_svg_arc/geometry", "generic", || format!("{:?}", svg));
            orc.check(svg.flags.sweep == (sw >= 0.0), "arc.to_svg_arc/sweep-flag", "generic", || format!("sweep={}", sw));
            if (sw.abs() - PI).abs() > 8.0 * S::EPS {
                orc.check(svg.flags.large_arc == (sw.abs() >= PI), "arc.to_svg_arc/large-flag", "generic", || format!("sweep={}", sw));
            }
            // tangent = derivative of the ellipse point with respect to the angle (central difference in f64)
            let e = Ell::of(&a);
            let ang = a.start_angle.radians.f() + sw * t.f();
            let h = 1e-5;
            let e0 = Ell { cx: 0.0, cy: 0.0, ..e };
            let (p1, p0) = (e0.at(ang + h), e0.at(ang - h));
            let d = ((p1.0 - p0.0) / (2.0 * h), (p1.1 - p0.1) / (2.0 * h));
            let tv = a.sample_tangent(t);
            let et = d2((tv.x.f(), tv.y.f()), d);
            let ttol = (64.0 * S::EPS * (1.0 + ang.abs()) + 1e-9) * e.rmax();
            orc.check(et <= ttol, "arc.sample_tangent/derivative", "generic", || format!("err={:e} tol={:e}", et, ttol));
            bezier_oracle(&mut orc, "arc", &a, &quads, &plain, &cubics);
            CaseOut { imp: o, orcl: orc.verdict }
        })
    });
}

fn atan_case<S: Fl>(ctx: &mut Ctx) {
    ctx.case(&format!("atan:{}", S::BITS), |rng| {
        let g = Gen::pick(rng);
        let mut a: Point<S> = g.point(rng);
        let mut b: Point<S> = g.point(rng);
        let mut kind = g.name().to_string();
        match rng.below(8) {
            0 => {
                // octant diagonals and axes
                let k = rng.range(-8, 8) as f64;
                let r = rng.uniform(0.5, 10.0);
                a = point(S::of(r * (k * PI / 4.0).cos()), S::of(r * (k * PI / 4.0).sin()));
                kind.push_str(" diagonal");
            }
            1 => {
                a = point(S::of(rng.range(-3, 3) as f64), S::of(rng.range(-3, 3) as f64));
                b = point(S::of(rng.range(-3, 3) as f64), S::of(rng.range(-3, 3) as f64));
                kind.push_str(" small-int");
            }
            2 => {
                a = point(S::of(rng.uniform(-60.0, 60.0)), S::of(rng.uniform(-60.0, 60.0)));
                kind.push_str(" angle-range");
            }
            _ => {}
        }
        let mut args = Out::new();
        args.p(a).p(b);
        let tag = format!("atan {} {}", S::BITS, kind);
        (args, tag, move || {
            let mut o = Out::new();
            let mut orc = Oracle::new();
            let (va, vb): (Vector<S>, Vector<S>) = (a.to_vector(), b.to_vector());
            o.t("afx").f(va.angle_from_x_axis().radians).f(vb.angle_from_x_axis().radians);
            o.t("vto").f(va.angle_to(vb).radians);
            o.t("pos").f(Angle::radians(a.x).positive().radians).f(Angle::radians(b.y).positive().radians);
            o.t("ato").f(Angle::radians(a.x).angle_to(Angle::radians(a.y)).radians);
            // what the rest of the check relies on: the approximation error of fast_atan2 is below ATAN_ERR
            if (a.x.f() != 0.0 || a.y.f() != 0.0) && a.x.finite() && a.y.finite() {
                let err = angdiff(va.angle_from_x_axis().radians.f(), a.y.f().atan2(a.x.f())).abs();
                orc.check(err <= ATAN_ERR, "euclid.fast_atan2/error-bound", "generic", || format!("err={:e}", err));
            }
            let p = Angle::radians(a.x).positive().radians.f();
            orc.check((0.0..=TWO_PI * (1.0 + S::EPS)).contains(&p) || !p.is_finite(), "euclid.positive/range", "generic", || format!("{}", p));
            CaseOut { imp: o, orcl: orc.verdict }
        })
    });
}

// ---------------------------------------------------------------------------------------------
// consumers through the public API (oracle only)

/// the path's single sub-path as (start, pieces) with the pieces' deviation from the reference ellipse
fn check_path(orc: &mut Oracle, site: &str, path: &Path, s: &SvgArc<f32>, straight: bool) {
    let cl = |c: &str| format!("{}/{}", site, c);
    let mut first = None;
    let mut last = None;
    let mut n_curves = 0;
    let mut n_lines = 0;
    let mut worst = 0.0f64;
    let r = ref_convert(pf(s.from), pf(s.to), (s.radii.x.f(), s.radii.y.f()), s.x_rotation.radians.f(), s.flags.large_arc, s.flags.sweep);
    for ev in path.iter() {
        match ev {
            Event::Begin { at } => first = Some(at),
            Event::Line { to, .. } => {
                n_lines += 1;
                last = Some(to);
            }
            Event::Quadratic { from, ctrl, to } => {
                n_curves += 1;
                last = Some(to);
                let q = QuadraticBezierSegment { from, ctrl, to };
                for k in 0..=8 {
                    worst = worst.max(r.e.dev(quad_at(&q, k as f64 / 8.0)));
                }
            }
            Event::Cubic { to, .. } => last = Some(to),
            Event::End { .. } => {}
        }
    }
    orc.check(first == Some(s.from), &cl("begins-at-from"), "generic", || format!("{:?}", first));
    if straight {
        orc.check(n_curves == 0 && n_lines == 1 && last == Some(s.to), &cl("straight-line"), "generic", || format!("lines={} curves={} last={:?}", n_lines, n_curves, last));
        return;
    }
    let last = match last {
        Some(l) => l,
        None => {
            orc.check(false, &cl("emits-curves"), "generic", || "no segment emitted".into());
            return;
        }
    };
    let ecc = r.e.ecc().min(1e6);
    let m = pf(s.from).0.abs().max(pf(s.from).1.abs()).max(pf(s.to).0.abs()).max(pf(s.to).1.abs());
    let tol = round_tol::<f32>(&r.e, TWO_PI, m) + 64.0 * f32::EPS * ecc * r.e.rmax();
    let err = d2(pf(last), pf(s.to));
    // arc_to: fast_atan2 once more for the start angle in WithSvg::arc, on top of start and end in to_arc
    let drift = 3.0 * ATAN_ERR * r.e.rmax();
    let cls = if err <= tol + drift {
        "fast-atan2-endpoint-drift"
    } else {
        "generic"
    };
    // near the reference ellipse (drift of the centre-form arc included in the bound)
    // WithSvg::arc converts in f64 (S::EPSILON = 1e-8, eps 2^-52), the parser in f32
    let (leps, meps) = if site == "api.arc_to" { (1e-8, f64::EPS) } else { (1e-4, f32::EPS) };
    let nref = (r.dth.abs() / (PI / 4.0)).ceil().max(1.0);
    let det = r.e.rx * r.e.ry * (r.dth.abs() / nref).sin().abs();
    let tiny = det <= leps * 1.01;
    let mm = r.e.cx.abs().max(r.e.cy.abs()) + r.e.rmax();
    let amp = 4.0 * meps * mm * mm * r.e.rmax() / det / r.e.rmin();
    let dev_tol = QUAD_DEV + (tol + drift) / r.e.rmin();
    let cls_dev = if tiny {
        "tiny-radii-abs-epsilon"
    } else if amp > QUAD_DEV * 0.01 && worst <= dev_tol + amp {
        "ctrl-intersection-cancellation"
    } else {
        "generic"
    };
    orc.check(worst <= dev_tol, &cl("near-ellipse"), cls_dev, || format!("normalised deviation {:e} bound {:e}", worst, dev_tol));
    orc.check(err <= tol, &cl("ends-at-to"), cls, || format!("last {:?} to {:?} err={:e} tol={:e} drift-bound={:e}", pf(last), pf(s.to), err, tol, drift));
}

fn api_case(ctx: &mut Ctx) {
    ctx.case("api:32", |rng| {
        let (mut s, gtag) = gen_svg::<f32>(rng);
        let via_parser = rng.chance(1, 2);
        if via_parser {
            // the parser reads degrees; keep the harness's value exactly representable through the round trip
            let deg = (s.x_rotation.radians.to_degrees() * 4.0).round() / 4.0;
            s.x_rotation = Angle::degrees(deg);
        }
        let mut args = Out::new();
        put_svg(&mut args, &s);
        args.b(via_parser);
        let straight = s.is_straight_line();
        let tag = format!("api {} {}{}", if via_parser { "parser" } else { "arc_to" }, gtag, if straight { " straight" } else { "" });
        (args, tag, move || {
            let mut o = Out::new();
            let mut orc = Oracle::new();
            if via_parser {
                let deg = s.x_rotation.radians.to_degrees();
                let deg = (deg * 4.0).round() / 4.0;
                let src = format!(
                    "M {} {} A {} {} {} {} {} {} {}",
                    s.from.x, s.from.y, s.radii.x, s.radii.y, deg, s.flags.large_arc as u8, s.flags.sweep as u8, s.to.x, s.to.y
                );
                let mut b = Path::builder();
                let res = PathParser::new().parse(&ParserOptions::DEFAULT, &mut Source::new(src.chars()), &mut b);
                orc.check(res.is_ok(), "api.parser/parses", "generic", || format!("{:?} on {}", res, src));
                let path = b.build();
                o.t("events").u(path.iter().count() as u64);
                if res.is_ok() {
                    check_path(&mut orc, "api.parser", &path, &s, straight);
                }
            } else {
                let mut b = Path::builder().with_svg();
                b.move_to(s.from);
                b.arc_to(s.radii, s.x_rotation, s.flags, s.to);
                let path = b.build();
                o.t("events").u(path.iter().count() as u64);
                check_path(&mut orc, "api.arc_to", &path, &s, straight);
            }
            CaseOut { imp: o, orcl: orc.verdict }
        })
    });
}

fn main() {
    let mut ctx = Ctx::from_args("C13");
    let n = ctx.n(1200, 60000);
    for i in 0..n {
        svg_case::<f32>(&mut ctx);
        svg_case::<f64>(&mut ctx);
        arc_case::<f32>(&mut ctx);
        arc_case::<f64>(&mut ctx);
        if i % 2 == 0 {
            atan_case::<f32>(&mut ctx);
            atan_case::<f64>(&mut ctx);
        }
        api_case(&mut ctx);
    }
    ctx.finish();
}
