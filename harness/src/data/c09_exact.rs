//! Exact dyadic arithmetic and the harness-side mirror of the exact flattening checker
//! `Lyon.FlatChk` (lean/LyonVerif/Model/Geom/FlattenCertExact.lean, driver Drive/FlatChkIO.lean).
//!
//! Every IEEE float is a dyadic rational `m·2^e`; sums, differences and products of dyadics are
//! dyadic, and every comparison the checker makes between quotients can be cross-multiplied
//! (denominators are positive), so the whole verdict is computed here with big integers, division
//! free. The verdict STRING computed here goes into the TAG (evidence) and into the CHECK line; the
//! verified Lean checker recomputes it on exact rationals and answers `MISMATCH` when it differs.

use std::cmp::Ordering;

/// `(-1)^neg · mag · 2^exp`, `mag` little-endian base 2^32 without leading zero limbs (zero = empty)
#[derive(Clone, Debug)]
pub struct Dy {
    neg: bool,
    mag: Vec<u32>,
    exp: i64,
}

fn trim(v: &mut Vec<u32>) {
    while let Some(&0) = v.last() {
        v.pop();
    }
}

fn cmp_mag(a: &[u32], b: &[u32]) -> Ordering {
    if a.len() != b.len() {
        return a.len().cmp(&b.len());
    }
    for i in (0..a.len()).rev() {
        if a[i] != b[i] {
            return a[i].cmp(&b[i]);
        }
    }
    Ordering::Equal
}

fn add_mag(a: &[u32], b: &[u32]) -> Vec<u32> {
    let (a, b) = if a.len() >= b.len() { (a, b) } else { (b, a) };
    let mut r = Vec::with_capacity(a.len() + 1);
    let mut c = 0u64;
    for i in 0..a.len() {
        let s = a[i] as u64 + if i < b.len() { b[i] as u64 } else { 0 } + c;
        r.push(s as u32);
        c = s >> 32;
    }
    if c > 0 {
        r.push(c as u32);
    }
    r
}

/// a − b for a ≥ b
fn sub_mag(a: &[u32], b: &[u32]) -> Vec<u32> {
    let mut r = Vec::with_capacity(a.len());
    let mut br = 0i64;
    for i in 0..a.len() {
        let mut s = a[i] as i64 - br - if i < b.len() { b[i] as i64 } else { 0 };
        if s < 0 {
            s += 1 << 32;
            br = 1;
        } else {
            br = 0;
        }
        r.push(s as u32);
    }
    trim(&mut r);
    r
}

fn mul_mag(a: &[u32], b: &[u32]) -> Vec<u32> {
    if a.is_empty() || b.is_empty() {
        return vec![];
    }
    let mut r = vec![0u32; a.len() + b.len()];
    for i in 0..a.len() {
        let mut c = 0u64;
        let ai = a[i] as u64;
        for j in 0..b.len() {
            let t = ai * b[j] as u64 + r[i + j] as u64 + c;
            r[i + j] = t as u32;
            c = t >> 32;
        }
        let mut k = i + b.len();
        while c > 0 {
            let t = r[k] as u64 + c;
            r[k] = t as u32;
            c = t >> 32;
            k += 1;
        }
    }
    trim(&mut r);
    r
}

fn shl_mag(a: &[u32], bits: u64) -> Vec<u32> {
    if a.is_empty() {
        return vec![];
    }
    let limbs = (bits / 32) as usize;
    let sh = (bits % 32) as u32;
    let mut r = vec![0u32; limbs];
    if sh == 0 {
        r.extend_from_slice(a);
    } else {
        let mut c = 0u32;
        for &x in a {
            r.push((x << sh) | c);
            c = x >> (32 - sh);
        }
        if c > 0 {
            r.push(c);
        }
    }
    r
}

impl Dy {
    pub fn zero() -> Dy {
        Dy { neg: false, mag: vec![], exp: 0 }
    }
    pub fn int(n: i64) -> Dy {
        let u = n.unsigned_abs();
        let mut mag = vec![u as u32, (u >> 32) as u32];
        trim(&mut mag);
        Dy { neg: n < 0, mag, exp: 0 }
    }
    /// exact value of a finite double
    pub fn from_f64(x: f64) -> Dy {
        assert!(x.is_finite());
        let bits = x.to_bits();
        let neg = bits >> 63 == 1;
        let ex = ((bits >> 52) & 0x7ff) as i64;
        let man = bits & ((1u64 << 52) - 1);
        let (m, e) = if ex == 0 { (man, -1074) } else { (man | (1u64 << 52), ex - 1075) };
        let mut mag = vec![m as u32, (m >> 32) as u32];
        trim(&mut mag);
        Dy { neg: neg && !mag.is_empty(), mag, exp: e }
    }
    pub fn is_zero(&self) -> bool {
        self.mag.is_empty()
    }
    pub fn neg(&self) -> Dy {
        Dy { neg: !self.neg && !self.is_zero(), mag: self.mag.clone(), exp: self.exp }
    }
    pub fn abs(&self) -> Dy {
        Dy { neg: false, mag: self.mag.clone(), exp: self.exp }
    }
    pub fn mul(&self, o: &Dy) -> Dy {
        let mag = mul_mag(&self.mag, &o.mag);
        let z = mag.is_empty();
        Dy { neg: (self.neg != o.neg) && !z, mag, exp: if z { 0 } else { self.exp + o.exp } }
    }
    pub fn sq(&self) -> Dy {
        self.mul(self)
    }
    /// multiplication by 2^k
    pub fn shl(&self, k: i64) -> Dy {
        Dy { neg: self.neg, mag: self.mag.clone(), exp: if self.is_zero() { 0 } else { self.exp + k } }
    }
    pub fn mul_i(&self, n: i64) -> Dy {
        self.mul(&Dy::int(n))
    }
    fn aligned(a: &Dy, b: &Dy) -> (Vec<u32>, Vec<u32>, i64) {
        if a.is_zero() {
            return (vec![], b.mag.clone(), b.exp);
        }
        if b.is_zero() {
            return (a.mag.clone(), vec![], a.exp);
        }
        let e = a.exp.min(b.exp);
        (shl_mag(&a.mag, (a.exp - e) as u64), shl_mag(&b.mag, (b.exp - e) as u64), e)
    }
    pub fn add(&self, o: &Dy) -> Dy {
        let (x, y, e) = Dy::aligned(self, o);
        if self.neg == o.neg {
            let mag = add_mag(&x, &y);
            let z = mag.is_empty();
            Dy { neg: self.neg && !z, mag, exp: if z { 0 } else { e } }
        } else {
            match cmp_mag(&x, &y) {
                Ordering::Equal => Dy::zero(),
                Ordering::Greater => Dy { neg: self.neg, mag: sub_mag(&x, &y), exp: e },
                Ordering::Less => Dy { neg: o.neg, mag: sub_mag(&y, &x), exp: e },
            }
        }
    }
    pub fn sub(&self, o: &Dy) -> Dy {
        self.add(&o.neg())
    }
    pub fn sign(&self) -> i32 {
        if self.is_zero() {
            0
        } else if self.neg {
            -1
        } else {
            1
        }
    }
    pub fn cmp(&self, o: &Dy) -> Ordering {
        self.sub(o).sign().cmp(&0)
    }
    pub fn le(&self, o: &Dy) -> bool {
        self.cmp(o) != Ordering::Greater
    }
    pub fn lt(&self, o: &Dy) -> bool {
        self.cmp(o) == Ordering::Less
    }
    pub fn eq(&self, o: &Dy) -> bool {
        self.cmp(o) == Ordering::Equal
    }
    /// rough value for diagnostics
    pub fn approx(&self) -> f64 {
        if self.is_zero() {
            return 0.0;
        }
        let n = self.mag.len();
        let mut v = 0.0f64;
        for i in (n.saturating_sub(3)..n).rev() {
            v = v * 4294967296.0 + self.mag[i] as f64;
        }
        let e = self.exp + 32 * (n.saturating_sub(3)) as i64;
        let r = v * 2f64.powi(e.clamp(-1000, 1000) as i32) * if e < -1000 { 2f64.powi((e + 1000).max(-1000) as i32) } else { 1.0 };
        if self.neg {
            -r
        } else {
            r
        }
    }
}

#[derive(Clone, Debug)]
pub struct Pt {
    pub x: Dy,
    pub y: Dy,
}

impl Pt {
    pub fn of(x: f64, y: f64) -> Pt {
        Pt { x: Dy::from_f64(x), y: Dy::from_f64(y) }
    }
    pub fn add(&self, o: &Pt) -> Pt {
        Pt { x: self.x.add(&o.x), y: self.y.add(&o.y) }
    }
    pub fn sub(&self, o: &Pt) -> Pt {
        Pt { x: self.x.sub(&o.x), y: self.y.sub(&o.y) }
    }
    pub fn smul(&self, s: &Dy) -> Pt {
        Pt { x: self.x.mul(s), y: self.y.mul(s) }
    }
    pub fn dot(&self, o: &Pt) -> Dy {
        self.x.mul(&o.x).add(&self.y.mul(&o.y))
    }
    pub fn cross(&self, o: &Pt) -> Dy {
        self.x.mul(&o.y).sub(&self.y.mul(&o.x))
    }
    pub fn sq_len(&self) -> Dy {
        self.x.sq().add(&self.y.sq())
    }
    pub fn eq(&self, o: &Pt) -> bool {
        self.x.eq(&o.x) && self.y.eq(&o.y)
    }
}

#[derive(Clone, Debug)]
pub struct QuadX {
    pub a: Pt,
    pub c: Pt,
    pub b: Pt,
}

impl QuadX {
    /// a(1−t)² + 2c(1−t)t + b t²
    pub fn sample(&self, t: &Dy) -> Pt {
        let one_t = Dy::int(1).sub(t);
        self.a.smul(&one_t.sq()).add(&self.c.smul(&one_t.mul(t).mul_i(2))).add(&self.b.smul(&t.sq()))
    }
    pub fn second_diff(&self) -> Pt {
        self.a.sub(&self.c.smul(&Dy::int(2))).add(&self.b)
    }
}

#[derive(Clone, Debug)]
pub struct CubicX {
    pub a: Pt,
    pub c1: Pt,
    pub c2: Pt,
    pub b: Pt,
}

impl CubicX {
    pub fn sample(&self, t: &Dy) -> Pt {
        let u = Dy::int(1).sub(t);
        let (u2, t2) = (u.sq(), t.sq());
        self.a
            .smul(&u2.mul(&u))
            .add(&self.c1.smul(&u2.mul(t).mul_i(3)))
            .add(&self.c2.smul(&u.mul(&t2).mul_i(3)))
            .add(&self.b.smul(&t2.mul(t)))
    }
    pub fn third_diff(&self) -> Pt {
        self.b.sub(&self.c2.smul(&Dy::int(3))).add(&self.c1.smul(&Dy::int(3))).sub(&self.a)
    }
    /// `split_range(t0..t1).to_quadratic()` in exact arithmetic
    pub fn piece_exact(&self, t0: &Dy, t1: &Dy) -> QuadX {
        let a = self.sample(t0);
        let b = self.sample(t1);
        let d = QuadX { a: self.c1.sub(&self.a), c: self.c2.sub(&self.c1), b: self.b.sub(&self.c2) };
        let dt = t1.sub(t0);
        let c1 = a.add(&d.sample(t0).smul(&dt));
        let c2 = b.sub(&d.sample(t1).smul(&dt));
        let half = Dy::int(1).shl(-1);
        let k1 = c1.smul(&Dy::int(3)).sub(&a).smul(&half);
        let k2 = c2.smul(&Dy::int(3)).sub(&b).smul(&half);
        QuadX { a, c: k1.add(&k2).smul(&half), b }
    }
}

#[derive(Clone, Debug)]
pub struct SegX {
    pub a: Pt,
    pub b: Pt,
    pub t0: Dy,
    pub t1: Dy,
}

pub struct PieceX {
    pub q: QuadX,
    pub t0: Dy,
    pub t1: Dy,
    pub l: Vec<SegX>,
}

/// `(k numerator, k denominator, name)`: 1, 1.11, 1.15, 1.5, 2, 4 (Drive/FlatChkIO.lean `kBuckets`)
pub const K_BUCKETS: [(i64, i64, &str); 6] = [(1, 1, "1"), (111, 100, "1.11"), (115, 100, "1.15"), (3, 2, "1.5"), (2, 1, "2"), (4, 1, "4")];

/// `devKind`: 0 degenerate chord, 1 perpendicular, 2 hairpin
pub fn dev_kind(v: &Pt, dd: &Pt) -> usize {
    let vv = v.sq_len();
    if vv.sign() > 0 {
        if dd.dot(v).abs().le(&vv) {
            1
        } else {
            2
        }
    } else {
        0
    }
}

/// `devSq v dd ≤ bn / bd` (`bd > 0`), cross-multiplied
pub fn dev_le(v: &Pt, dd: &Pt, bn: &Dy, bd: &Dy) -> bool {
    let vv = v.sq_len();
    if vv.sign() > 0 {
        let dv = dd.dot(v);
        let cr = dd.cross(v);
        let cr2 = cr.sq();
        // perpSq = cr²/(16·vv)
        let perp_le = cr2.mul(bd).le(&vv.mul(bn).mul_i(16));
        let adv = dv.abs();
        if adv.le(&vv) {
            perp_le
        } else {
            let ex = adv.sub(&vv);
            let ex2 = ex.sq();
            let ex4 = ex2.sq();
            let dv2 = dv.sq();
            let hair_le = if adv.le(&vv.mul_i(2)) {
                // W = ex·vv/dv²: (16·ex²·vv²·cr² + ex⁴·dv²)/(16·dv⁴·vv)
                let num = ex2.mul(&vv.sq()).mul(&cr2).mul_i(16).add(&ex4.mul(&dv2));
                num.mul(bd).le(&dv2.sq().mul(&vv).mul(bn).mul_i(16))
            } else {
                // W = 1/4: (cr²·dv² + ex⁴)/(16·dv²·vv)
                let num = cr2.mul(&dv2).add(&ex4);
                num.mul(bd).le(&dv2.mul(&vv).mul(bn).mul_i(16))
            };
            perp_le && hair_le
        }
    } else {
        dd.sq_len().mul(bd).le(&bn.mul_i(16))
    }
}

/// `r2 < sqDistSeg p a b`
pub fn far_seg(p: &Pt, r2: &Dy, a: &Pt, b: &Pt) -> bool {
    let v = b.sub(a);
    let w = p.sub(a);
    let l2 = v.sq_len();
    if l2.is_zero() {
        return r2.lt(&w.sq_len());
    }
    let wv = w.dot(&v);
    if wv.sign() <= 0 {
        r2.lt(&w.sq_len())
    } else if l2.le(&wv) {
        r2.lt(&p.sub(b).sq_len())
    } else {
        // |w|² − (w·v)²/l2 = (w × v)²/l2
        r2.mul(&l2).lt(&w.cross(&v).sq())
    }
}

pub fn far_from(p: &Pt, r2: &Dy, l: &[&SegX]) -> bool {
    l.iter().all(|s| far_seg(p, r2, &s.a, &s.b))
}

/// `chainOK p t pe te l`
pub fn chain_ok(p: &Pt, t: &Dy, pe: &Pt, te: &Dy, l: &[SegX]) -> bool {
    if l.is_empty() {
        return false;
    }
    let (mut p, mut t) = (p.clone(), t.clone());
    for s in l {
        if !(s.a.eq(&p) && s.t0.eq(&t) && s.t0.lt(&s.t1)) {
            return false;
        }
        p = s.b.clone();
        t = s.t1.clone();
    }
    p.eq(pe) && t.eq(te)
}

pub struct SegEval {
    pub v: Pt,
    pub dd: Pt,
    pub kind: usize,
    pub vtx_ok: bool,
}

pub fn eval_seg(q: &QuadX, sdiff: &Pt, s: &SegX, eps2: &Dy) -> SegEval {
    let s0 = q.sample(&s.t0);
    let s1 = q.sample(&s.t1);
    let d = s.t1.sub(&s.t0);
    let dd = sdiff.smul(&d.sq());
    let v = s1.sub(&s0);
    let vtx_ok = s.a.sub(&s0).sq_len().le(eps2) && s.b.sub(&s1).sq_len().le(eps2);
    let kind = dev_kind(&v, &dd);
    SegEval { v, dd, kind, vtx_ok }
}

pub struct Verdict {
    pub structure: bool,
    pub vtx: bool,
    pub k_idx: usize,
    pub kinds: [usize; 3],
    /// convex-hull certificate: least accepted bucket below `k_idx` (tried only when `k_idx > 0`
    /// and no violation is proved)
    pub hull: Option<usize>,
    /// eps-free verdict (hull checker at r2 = tol²), evaluated on request
    pub free: Option<bool>,
    pub viol: Option<(usize, usize)>,
}

impl Verdict {
    pub fn string(&self) -> String {
        let x = match self.viol {
            None => "x-".to_string(),
            Some((c, j)) => format!("x{}.{}", c, j),
        };
        let h = match self.hull {
            None => "h-".to_string(),
            Some(i) => format!("h{}", i),
        };
        let e = match self.free {
            None => "e-".to_string(),
            Some(b) => format!("e{}", b as u8),
        };
        format!("s{}:v{}:k{}:n{}.{}.{}:{}:{}:{}", self.structure as u8, self.vtx as u8, self.k_idx, self.kinds[0], self.kinds[1], self.kinds[2], h, e, x)
    }
    /// the factor finally proved: the hull certificate's if it succeeded, else the chord certificate's
    pub fn final_idx(&self) -> usize {
        self.hull.unwrap_or(self.k_idx)
    }
    /// `k<=1`, `k<=1.11`, …, `k>4`, `violation`, `vertex-eps`, `structure`
    pub fn bucket(&self) -> String {
        if !self.structure {
            "structure".to_string()
        } else if self.viol.is_some() {
            "violation".to_string()
        } else if !self.vtx && self.hull.is_none() {
            "vertex-eps".to_string()
        } else if self.final_idx() < K_BUCKETS.len() {
            format!("k<={}", K_BUCKETS[self.final_idx()].2)
        } else {
            "k>4".to_string()
        }
    }
}

fn first_viol(pt: &dyn Fn(&Dy) -> Pt, r2: &Dy, all: &[&SegX], cands: &[(usize, Dy, Dy)]) -> Option<(usize, usize)> {
    for (i, t0, t1) in cands {
        let d = t1.sub(t0);
        for j in 1..8i64 {
            let t = t0.add(&d.mul(&Dy::int(j).shl(-3)));
            if far_from(&pt(&t), r2, all) {
                return Some((*i, j as usize));
            }
        }
    }
    None
}

/// `epsFree` of Drive/FlatChkIO.lean
fn eps_free(eflag: bool, structure: bool, k_idx: usize, hull: Option<usize>, accept: &dyn Fn() -> bool) -> Option<bool> {
    if !eflag || !structure {
        None
    } else if hull == Some(0) {
        Some(true)
    } else if k_idx == 0 {
        Some(accept())
    } else {
        Some(false)
    }
}

/// mirror of `Drive/FlatChkIO.lean handleQuad`
pub fn verdict_quad(q: &QuadX, tol: &Dy, eps: &Dy, l: &[SegX], eflag: bool) -> Verdict {
    let structure = chain_ok(&q.a, &Dy::zero(), &q.b, &Dy::int(1), l);
    let eps2 = eps.sq();
    let tol2 = tol.sq();
    let sdiff = q.second_diff();
    let evals: Vec<SegEval> = l.iter().map(|s| eval_seg(q, &sdiff, s, &eps2)).collect();
    let vtx = evals.iter().all(|e| e.vtx_ok);
    let mut kinds = [0usize; 3];
    for e in &evals {
        kinds[e.kind] += 1;
    }
    let mut k_idx = K_BUCKETS.len();
    for (i, (n, d, _)) in K_BUCKETS.iter().enumerate() {
        let bn = tol2.mul_i(n * n);
        let bd = Dy::int(d * d);
        if evals.iter().all(|e| dev_le(&e.v, &e.dd, &bn, &bd)) {
            k_idx = i;
            break;
        }
    }
    let mut viol = None;
    if k_idx != 0 && structure {
        let one = Dy::int(1);
        let cands: Vec<(usize, Dy, Dy)> =
            evals.iter().enumerate().filter(|(_, e)| !dev_le(&e.v, &e.dd, &tol2, &one)).take(4).map(|(i, _)| (i, l[i].t0.clone(), l[i].t1.clone())).collect();
        let all: Vec<&SegX> = l.iter().collect();
        let r2 = tol.add(eps).sq();
        viol = first_viol(&|t| q.sample(t), &r2, &all, &cands);
    }
    let hull = if k_idx == 0 || !structure || viol.is_some() {
        None
    } else {
        hull_bucket(&|rn, rd| chk_hull(&|t| q.sample(t), &|a, b| q.split_ctrl(a, b), &q.a, &q.b, rn, rd, &HULL_MS, HULL_W, l), tol, k_idx)
    };
    let free = eps_free(eflag, structure, k_idx, hull, &|| chk_hull(&|t| q.sample(t), &|a, b| q.split_ctrl(a, b), &q.a, &q.b, &tol2, &Dy::int(1), &HULL_MS, HULL_W, l));
    Verdict { structure, vtx, k_idx, kinds, hull, free, viol }
}

/// mirror of `Drive/FlatChkIO.lean handleCubic`
pub fn verdict_cubic(c: &CubicX, tol: &Dy, tolq: &Dy, tolc: &Dy, eps: &Dy, ps: &[PieceX], gl: &[SegX], eflag: bool) -> Verdict {
    let one = Dy::int(1);
    // rangesOK / joinsOK / chainOK of every piece
    let mut structure = !ps.is_empty();
    {
        let mut t = Dy::zero();
        let mut p = c.a.clone();
        for pc in ps {
            structure = structure && pc.t0.eq(&t) && pc.t0.lt(&pc.t1) && pc.q.a.eq(&p);
            t = pc.t1.clone();
            p = pc.q.b.clone();
            structure = structure && chain_ok(&pc.q.a, &Dy::zero(), &pc.q.b, &one, &pc.l);
        }
        structure = structure && t.eq(&one) && p.eq(&c.b);
        // the entry point's own segments with the ranges it reports
        structure = structure && chain_ok(&c.a, &Dy::zero(), &c.b, &one, gl);
    }
    let eps2 = eps.sq();
    let tolq2 = tolq.sq();
    let tolc2 = tolc.sq();
    let d3 = c.third_diff().sq_len();
    let mut vtx = true;
    let mut kinds = [0usize; 3];
    // per chord: (piece index, segment index, evaluation)
    let mut chords: Vec<(usize, usize, SegEval)> = vec![];
    let mut pdevs: Vec<Dy> = vec![];
    for (pi, pc) in ps.iter().enumerate() {
        let ex = c.piece_exact(&pc.t0, &pc.t1);
        vtx = vtx && pc.q.a.sub(&ex.a).sq_len().le(&eps2) && pc.q.c.sub(&ex.c).sq_len().le(&eps2) && pc.q.b.sub(&ex.b).sq_len().le(&eps2);
        let dt = pc.t1.sub(&pc.t0);
        let dt3 = dt.sq().mul(&dt);
        // |D|²·Δ⁶ (to be compared with 432·(k·tolc)²)
        pdevs.push(d3.mul(&dt3.sq()));
        let sdiff = pc.q.second_diff();
        for (si, s) in pc.l.iter().enumerate() {
            let e = eval_seg(&pc.q, &sdiff, s, &eps2);
            vtx = vtx && e.vtx_ok;
            kinds[e.kind] += 1;
            chords.push((pi, si, e));
        }
    }
    let mut k_idx = K_BUCKETS.len();
    for (i, (n, d, _)) in K_BUCKETS.iter().enumerate() {
        let bn = tolq2.mul_i(n * n);
        let bd = Dy::int(d * d);
        let pieces_ok = pdevs.iter().all(|pd| pd.mul(&bd).le(&tolc2.mul_i(432 * n * n)));
        if pieces_ok && chords.iter().all(|(_, _, e)| dev_le(&e.v, &e.dd, &bn, &bd)) {
            k_idx = i;
            break;
        }
    }
    let mut viol = None;
    if k_idx != 0 && structure {
        let cands: Vec<(usize, Dy, Dy)> = chords
            .iter()
            .enumerate()
            .filter(|(_, (_, _, e))| !dev_le(&e.v, &e.dd, &tolq2, &one))
            .take(4)
            .map(|(i, (pi, si, _))| {
                let pc = &ps[*pi];
                let dt = pc.t1.sub(&pc.t0);
                (i, pc.t0.add(&pc.l[*si].t0.mul(&dt)), pc.t0.add(&pc.l[*si].t1.mul(&dt)))
            })
            .collect();
        let all: Vec<&SegX> = ps.iter().flat_map(|pc| pc.l.iter()).collect();
        let r2 = tol.add(&eps.mul_i(2)).sq();
        viol = first_viol(&|t| c.sample(t), &r2, &all, &cands);
    }
    let hull = if k_idx == 0 || !structure || viol.is_some() {
        None
    } else {
        hull_bucket(&|rn, rd| chk_hull(&|t| c.sample(t), &|a, b| c.split_ctrl(a, b), &c.a, &c.b, rn, rd, &HULL_MS, HULL_W, gl), tol, k_idx)
    };
    let free = eps_free(eflag, structure, k_idx, hull, &|| chk_hull(&|t| c.sample(t), &|a, b| c.split_ctrl(a, b), &c.a, &c.b, &tol.sq(), &Dy::int(1), &HULL_MS, HULL_W, gl));
    Verdict { structure, vtx, k_idx, kinds, hull, free, viol }
}



// ---------------------------------------------------------------------------------------------
// convex-hull certificate (`chkHull` of Model/Geom/FlattenCertExact.lean)

/// `sqDistSeg p a b ≤ rn/rd` (`rd > 0`)
pub fn near_seg(p: &Pt, rn: &Dy, rd: &Dy, a: &Pt, b: &Pt) -> bool {
    let v = b.sub(a);
    let w = p.sub(a);
    let l2 = v.sq_len();
    if l2.is_zero() {
        return w.sq_len().mul(rd).le(rn);
    }
    let wv = w.dot(&v);
    if wv.sign() <= 0 {
        w.sq_len().mul(rd).le(rn)
    } else if l2.le(&wv) {
        p.sub(b).sq_len().mul(rd).le(rn)
    } else {
        w.cross(&v).sq().mul(rd).le(&rn.mul(&l2))
    }
}

impl QuadX {
    /// control points of `split_range(t0..t1)`
    pub fn split_ctrl(&self, t0: &Dy, t1: &Dy) -> Vec<Pt> {
        let a = self.sample(t0);
        let b = self.sample(t1);
        let one_t = Dy::int(1).sub(t0);
        let vl = self.c.sub(&self.a).smul(&one_t).add(&self.b.sub(&self.c).smul(t0));
        let c = a.add(&vl.smul(&t1.sub(t0)));
        vec![a, c, b]
    }
}

impl CubicX {
    /// control points of `split_range(t0..t1)`
    pub fn split_ctrl(&self, t0: &Dy, t1: &Dy) -> Vec<Pt> {
        let a = self.sample(t0);
        let b = self.sample(t1);
        let d = QuadX { a: self.c1.sub(&self.a), c: self.c2.sub(&self.c1), b: self.b.sub(&self.c2) };
        let dt = t1.sub(t0);
        let c1 = a.add(&d.sample(t0).smul(&dt));
        let c2 = b.sub(&d.sample(t1).smul(&dt));
        vec![a, c1, c2, b]
    }
}

/// `t0 + (t1 − t0)·j/m`, `m` a power of two
fn sub_param(t0: &Dy, t1: &Dy, m: u32, j: u32) -> Dy {
    assert!(m.is_power_of_two());
    t0.add(&t1.sub(t0).mul(&Dy::int(j as i64).shl(-(m.trailing_zeros() as i64))))
}

fn range_covered(ctrl: &dyn Fn(&Dy, &Dy) -> Vec<Pt>, rn: &Dy, rd: &Dy, cands: &[&SegX], t0: &Dy, t1: &Dy, m: u32) -> bool {
    (0..m).all(|j| {
        let pts = ctrl(&sub_param(t0, t1, m, j), &sub_param(t0, t1, m, j + 1));
        cands.iter().any(|sg| pts.iter().all(|p| near_seg(p, rn, rd, &sg.a, &sg.b)))
    })
}

/// `chkHull sample ctrl p0 p1 (rn/rd) ms w l`
pub fn chk_hull(sample: &dyn Fn(&Dy) -> Pt, ctrl: &dyn Fn(&Dy, &Dy) -> Vec<Pt>, p0: &Pt, p1: &Pt, rn: &Dy, rd: &Dy, ms: &[u32], w: usize, l: &[SegX]) -> bool {
    if !chain_ok(p0, &Dy::zero(), p1, &Dy::int(1), l) {
        return false;
    }
    if !l.iter().all(|sg| sg.b.sub(&sample(&sg.t1)).sq_len().mul(rd).le(rn)) {
        return false;
    }
    for (i, sg) in l.iter().enumerate() {
        // the segment itself first, then the window i−w … i+w
        let start = i.saturating_sub(w);
        let end = (start + 2 * w + 1).min(l.len());
        let mut cands: Vec<&SegX> = vec![sg];
        cands.extend(l[start.min(l.len())..end].iter());
        let ok = ms.iter().any(|&m| m > 0 && range_covered(ctrl, rn, rd, &cands, &sg.t0, &sg.t1, m));
        if !ok {
            return false;
        }
    }
    true
}

pub const HULL_MS: [u32; 3] = [2, 4, 8];
pub const HULL_W: usize = 2;

/// least bucket index below `k_idx` with which the hull checker accepts (`hullBucket`)
pub fn hull_bucket(accept: &dyn Fn(&Dy, &Dy) -> bool, tol: &Dy, k_idx: usize) -> Option<usize> {
    let tol2 = tol.sq();
    for b in 0..k_idx.min(K_BUCKETS.len()) {
        let (n, d, _) = K_BUCKETS[b];
        if accept(&tol2.mul_i(n * n), &Dy::int(d * d)) {
            return Some(b);
        }
    }
    None
}

/// largest squared distance between an emitted end point and the exact curve point at its parameter
pub fn max_vtx_sq(q: &QuadX, l: &[SegX]) -> Dy {
    let mut m = Dy::zero();
    for s in l {
        for e in [s.a.sub(&q.sample(&s.t0)).sq_len(), s.b.sub(&q.sample(&s.t1)).sq_len()] {
            if m.lt(&e) {
                m = e;
            }
        }
    }
    m
}

/// the same over all pieces of a cubic, together with the control points of the pieces against the
/// exact `to_quadratic` of the exact sub-range
pub fn max_vtx_sq_cubic(c: &CubicX, ps: &[PieceX]) -> Dy {
    let mut m = Dy::zero();
    for pc in ps {
        let ex = c.piece_exact(&pc.t0, &pc.t1);
        for e in [pc.q.a.sub(&ex.a).sq_len(), pc.q.c.sub(&ex.c).sq_len(), pc.q.b.sub(&ex.b).sq_len(), max_vtx_sq(&pc.q, &pc.l)] {
            if m.lt(&e) {
                m = e;
            }
        }
    }
    m
}

/// the rounding allowance stated to the checker: the smallest `f·unit`, `f ∈ {1,2,4,…,64}`, that
/// dominates the largest vertex error (`64·unit` if none does: the checker then reports `v0`)
pub fn choose_eps(max_sq: &Dy, unit: f64) -> (f64, u32) {
    for k in 0..7u32 {
        let f = (1u32 << k) as f64;
        let e = f * unit;
        if max_sq.le(&Dy::from_f64(e).sq()) {
            return (e, 1 << k);
        }
    }
    (64.0 * unit, 64)
}

/// largest vertex error of a quadratic's segments in units of `unit` (diagnostics: how large `eps` must be)
pub fn max_vtx_err(q: &QuadX, l: &[SegX]) -> f64 {
    let mut m = 0.0f64;
    for s in l {
        m = m.max(s.a.sub(&q.sample(&s.t0)).sq_len().approx()).max(s.b.sub(&q.sample(&s.t1)).sq_len().approx());
    }
    m.sqrt()
}

// ---------------------------------------------------------------------------------------------
// arcs: mirror of `Lyon.ArcChk` (Model/Geom/FlattenCertArc.lean) / `Drive/FlatChkIO.lean Arc.handle`

/// point of the unit circle `(nx, ny)/d` from a half-angle tangent `u` (negated if `flip`)
#[derive(Clone, Debug)]
pub struct UPt {
    pub nx: Dy,
    pub ny: Dy,
    pub d: Dy,
}

impl UPt {
    pub fn of(u: f64, flip: bool) -> UPt {
        let u = Dy::from_f64(u);
        let u2 = u.sq();
        let one = Dy::int(1);
        let (nx, ny) = (one.sub(&u2), u.mul_i(2));
        UPt { nx: if flip { nx.neg() } else { nx }, ny: if flip { ny.neg() } else { ny }, d: one.add(&u2) }
    }
    pub fn of_dy(u: &Dy, flip: bool) -> UPt {
        let u2 = u.sq();
        let one = Dy::int(1);
        let (nx, ny) = (one.sub(&u2), u.mul_i(2));
        UPt { nx: if flip { nx.neg() } else { nx }, ny: if flip { ny.neg() } else { ny }, d: one.add(&u2) }
    }
    /// sign of the cross product with another unit point (denominators are positive)
    pub fn cross_sign(&self, o: &UPt) -> i32 {
        self.nx.mul(&o.ny).sub(&self.ny.mul(&o.nx)).sign()
    }
    pub fn same(&self, o: &UPt) -> bool {
        self.nx.mul(&o.d).eq(&o.nx.mul(&self.d)) && self.ny.mul(&o.d).eq(&o.ny.mul(&self.d))
    }
}

pub struct FrameX {
    pub center: Pt,
    pub rx: Dy,
    pub ry: Dy,
    pub rot: UPt,
}

impl FrameX {
    /// `|v − A(p)|² ≤ eps²`, cross-multiplied by the denominators
    pub fn vtx_le(&self, v: &Pt, p: &UPt, eps2: &Dy) -> bool {
        let dd = self.rot.d.mul(&p.d);
        let (x, y) = (self.rx.mul(&p.nx), self.ry.mul(&p.ny));
        let num = Pt { x: self.rot.nx.mul(&x).sub(&self.rot.ny.mul(&y)), y: self.rot.ny.mul(&x).add(&self.rot.nx.mul(&y)) };
        let e = v.sub(&self.center).smul(&dd).sub(&num);
        e.sq_len().le(&eps2.mul(&dd.sq()))
    }
    /// largest squared vertex error as a pair (numerator, denominator) is not needed: the harness
    /// tries the candidate allowances in turn
    pub fn vtx_all(&self, l: &[ArcSegX], eps: f64) -> bool {
        let e2 = Dy::from_f64(eps).sq();
        l.iter().all(|x| self.vtx_le(&x.sg.a, &x.pa, &e2) && self.vtx_le(&x.sg.b, &x.pb, &e2))
    }
}

pub struct ArcSegX {
    pub sg: SegX,
    pub pa: UPt,
    pub pb: UPt,
}

pub struct ArcVerdict {
    pub structure: bool,
    pub vtx: bool,
    pub k_idx: usize,
    pub viol: Option<usize>,
}

/// `inCone p0 p1 q`
fn in_cone(p0: &UPt, p1: &UPt, q: &UPt) -> bool {
    let d = p0.cross_sign(p1);
    (d > 0 && p0.cross_sign(q) >= 0 && q.cross_sign(p1) >= 0) || (d < 0 && p0.cross_sign(q) <= 0 && q.cross_sign(p1) <= 0)
}

impl FrameX {
    /// `farFrom (A(q)) r2 segs`, everything scaled by the common denominator
    pub fn far_from_map(&self, q: &UPt, r2: &Dy, l: &[ArcSegX]) -> bool {
        let dd = self.rot.d.mul(&q.d);
        let (x, y) = (self.rx.mul(&q.nx), self.ry.mul(&q.ny));
        let p = Pt { x: self.center.x.mul(&dd).add(&self.rot.nx.mul(&x).sub(&self.rot.ny.mul(&y))), y: self.center.y.mul(&dd).add(&self.rot.ny.mul(&x).add(&self.rot.nx.mul(&y))) };
        let r2s = r2.mul(&dd.sq());
        l.iter().all(|s| far_seg(&p, &r2s, &s.sg.a.smul(&dd), &s.sg.b.smul(&dd)))
    }
}

impl ArcVerdict {
    pub fn string(&self) -> String {
        let x = match self.viol {
            None => "x-".to_string(),
            Some(i) => format!("x{}", i),
        };
        format!("s{}:v{}:k{}:{}", self.structure as u8, self.vtx as u8, self.k_idx, x)
    }
    pub fn bucket(&self) -> String {
        if !self.structure {
            "structure".to_string()
        } else if self.viol.is_some() {
            "violation".to_string()
        } else if !self.vtx {
            "vertex-eps".to_string()
        } else if self.k_idx < K_BUCKETS.len() {
            format!("k<={}", K_BUCKETS[self.k_idx].2)
        } else {
            "k>4".to_string()
        }
    }
}

pub fn verdict_arc(f: &FrameX, r: &Dy, tol: &Dy, eps: f64, p0: &Pt, pe: &Pt, l: &[ArcSegX], tans: &[(f64, bool, f64, bool)]) -> ArcVerdict {
    let segs: Vec<SegX> = l.iter().map(|x| x.sg.clone()).collect();
    let r2 = r.sq();
    let mut structure = r.sign() > 0 && f.rx.sq().le(&r2) && f.ry.sq().le(&r2) && chain_ok(p0, &Dy::zero(), pe, &Dy::int(1), &segs);
    for i in 1..l.len() {
        structure = structure && l[i - 1].pb.same(&l[i].pa);
    }
    let vtx = f.vtx_all(l, eps);
    // chords: L² = |pb − pa|² as a fraction
    let ls: Vec<(Dy, Dy)> = l
        .iter()
        .map(|x| {
            let dx = x.pb.nx.mul(&x.pa.d).sub(&x.pa.nx.mul(&x.pb.d));
            let dy = x.pb.ny.mul(&x.pa.d).sub(&x.pa.ny.mul(&x.pb.d));
            (dx.sq().add(&dy.sq()), x.pa.d.mul(&x.pb.d).sq())
        })
        .collect();
    let mut k_idx = K_BUCKETS.len();
    for (i, (n, m, _)) in K_BUCKETS.iter().enumerate() {
        // kt = k·tol + eps = nt/m
        let nt = tol.mul_i(*n).add(&Dy::from_f64(eps).mul_i(*m));
        let mr = r.mul_i(*m);
        let ok = if nt.le(&mr) {
            // τ = n·tol/(m·R): L² ≤ 4τ(2−τ) = 4·nt·(2·mr − nt)/mr²
            let rhs = nt.mul(&mr.mul_i(2).sub(&nt)).mul_i(4);
            ls.iter().all(|(ln, ld)| ln.mul(&mr.sq()).le(&rhs.mul(ld)))
        } else {
            ls.iter().all(|(ln, ld)| ln.le(&ld.mul_i(4)))
        };
        if ok {
            k_idx = i;
            break;
        }
    }
    // violation certificate: first 4 chords failing the test at k = 1 (kt = tol + eps)
    let mut viol = None;
    if k_idx != 0 && structure {
        let e = Dy::from_f64(eps);
        let nt = tol.add(&e);
        let fails = |ln: &Dy, ld: &Dy| -> bool {
            if nt.le(r) {
                let rhs = nt.mul(&r.mul_i(2).sub(&nt)).mul_i(4);
                rhs.mul(ld).lt(&ln.mul(&r.sq()))
            } else {
                ld.mul_i(4).lt(ln)
            }
        };
        let r2v = tol.add(&e.mul_i(2)).sq();
        let mut tried = 0;
        for (i, (ln, ld)) in ls.iter().enumerate() {
            if !fails(ln, ld) {
                continue;
            }
            tried += 1;
            if tried > 4 {
                break;
            }
            let (ua, fa, ub, fbb) = tans[i];
            if fa != fbb {
                continue;
            }
            let q = UPt::of_dy(&Dy::from_f64(ua).add(&Dy::from_f64(ub)).shl(-1), fa);
            if in_cone(&l[i].pa, &l[i].pb, &q) && f.far_from_map(&q, &r2v, l) {
                viol = Some(i);
                break;
            }
        }
    }
    ArcVerdict { structure, vtx, k_idx, viol }
}
