//! Polygon generators and fill-tessellation runners shared by C01 / C02 / C03 / C07 / C08 / C18.

use crate::{Out, Rng};
use lyon_path::math::{point, Point};
use lyon_path::{Path, Polygon};
use lyon_tessellation::geometry_builder::{BuffersBuilder, Positions, VertexBuffers};
use lyon_tessellation::{
    FillGeometryBuilder, FillOptions, FillRule, FillTessellator, FillVertex, GeometryBuilder, GeometryBuilderError, Orientation, VertexId,
};

#[derive(Clone, Debug)]
pub struct Poly {
    /// sub-paths: points + closed flag (open sub-paths are implicitly closed by the fill)
    pub subs: Vec<(Vec<Point>, bool)>,
    pub kind: &'static str,
}

impl Poly {
    pub fn num_edges(&self) -> usize {
        self.subs.iter().map(|s| s.0.len()).sum()
    }
    /// directed edges including the implicit closing edge of every sub-path
    pub fn edges(&self) -> Vec<(Point, Point)> {
        let mut v = Vec::new();
        for (pts, _) in &self.subs {
            let n = pts.len();
            if n == 0 {
                continue;
            }
            for i in 0..n {
                v.push((pts[i], pts[(i + 1) % n]));
            }
        }
        v
    }
    pub fn to_path(&self) -> Path {
        let mut b = Path::builder();
        for (pts, closed) in &self.subs {
            if pts.is_empty() {
                continue;
            }
            b.begin(pts[0]);
            for p in &pts[1..] {
                b.line_to(*p);
            }
            b.end(*closed);
        }
        b.build()
    }
    pub fn scale(&self) -> f32 {
        self.subs.iter().flat_map(|s| s.0.iter()).fold(1e-30f32, |m, p| m.max(p.x.abs()).max(p.y.abs()))
    }
    pub fn transform(&mut self, f: impl Fn(Point) -> Point) {
        for s in &mut self.subs {
            for p in &mut s.0 {
                *p = f(*p);
            }
        }
    }
}

fn lattice_pt(rng: &mut Rng, span: i64) -> Point {
    point(rng.range(0, span) as f32, rng.range(0, span) as f32)
}

fn regular(cx: f32, cy: f32, r: f32, n: usize, step: usize, phase: f32, ccw: bool) -> Vec<Point> {
    (0..n)
        .map(|i| {
            let k = (i * step) % n;
            let a = phase + (if ccw { 1.0 } else { -1.0 }) * (k as f32) * std::f32::consts::TAU / n as f32;
            point(cx + r * a.cos(), cy + r * a.sin())
        })
        .collect()
}

fn rect(x0: f32, y0: f32, x1: f32, y1: f32, ccw: bool) -> Vec<Point> {
    let v = vec![point(x0, y0), point(x1, y0), point(x1, y1), point(x0, y1)];
    if ccw {
        v
    } else {
        v.into_iter().rev().collect()
    }
}

/// A structured polygon generator: mostly valid shapes from several families plus degenerate ones.
pub fn gen_poly(rng: &mut Rng, max_edges: usize) -> Poly {
    // crossing-heavy families (self-intersecting polygons, spikes, grid multi-polygons) get extra weight:
    // missed-intersection defects of the sweep only show on a fraction of a percent of them
    let kind = match rng.below(28) { k @ 0..=15 => k, 16..=18 => 16, 19..=21 => 14, 22..=24 => 15, 25 => 6, _ => 1 };
    let mut p = match kind {
        0 | 1 => {
            // lattice polygon, possibly self-intersecting
            let n = rng.range(3, 7.min(max_edges as i64)) as usize;
            let pts = (0..n).map(|_| lattice_pt(rng, 8)).collect();
            Poly { subs: vec![(pts, rng.chance(3, 4))], kind: "lattice" }
        }
        2 => {
            // several lattice sub-paths
            let k = rng.range(2, 3) as usize;
            let mut subs = Vec::new();
            for _ in 0..k {
                let n = rng.range(3, 5) as usize;
                subs.push(((0..n).map(|_| lattice_pt(rng, 8)).collect(), rng.chance(3, 4)));
            }
            Poly { subs, kind: "multi-lattice" }
        }
        3 => {
            // square with a hole, either orientation for each
            let o = rect(0.0, 0.0, 8.0, 8.0, rng.chance(1, 2));
            let a = rng.range(1, 3) as f32;
            let b = rng.range(4, 7) as f32;
            let h = rect(a, a, b, b, rng.chance(1, 2));
            Poly { subs: vec![(o, true), (h, true)], kind: "hole" }
        }
        4 => {
            // star polygon {n/k}
            let n = *rng.pick(&[5usize, 7, 8, 9]);
            let step = if n == 8 { 3 } else { 2 };
            let pts = regular(4.0, 4.0, 4.0, n, step, rng.uniform(0.0, 1.0) as f32, rng.chance(1, 2));
            Poly { subs: vec![(pts, true)], kind: "star" }
        }
        5 => {
            // bow tie
            let pts = vec![point(0.0, 0.0), point(6.0, 4.0), point(6.0, 0.0), point(0.0, 4.0)];
            Poly { subs: vec![(pts, rng.chance(1, 2))], kind: "bowtie" }
        }
        6 => {
            // random float polygon
            let n = rng.range(3, 8.min(max_edges as i64)) as usize;
            let pts = (0..n).map(|_| point(rng.uniform(-10.0, 10.0) as f32, rng.uniform(-10.0, 10.0) as f32)).collect();
            Poly { subs: vec![(pts, rng.chance(3, 4))], kind: "random" }
        }
        7 => {
            // convex-ish regular polygon + random float polygon overlapping
            let a = regular(0.0, 0.0, 5.0, rng.range(3, 8) as usize, 1, rng.uniform(0.0, 6.0) as f32, rng.chance(1, 2));
            let n = rng.range(3, 5) as usize;
            let b = (0..n).map(|_| point(rng.uniform(-6.0, 6.0) as f32, rng.uniform(-6.0, 6.0) as f32)).collect();
            Poly { subs: vec![(a, true), (b, true)], kind: "overlap" }
        }
        8 => {
            // coincident / shared edges: two squares sharing an edge or identical
            let a = rect(0.0, 0.0, 4.0, 4.0, rng.chance(1, 2));
            let b = match rng.below(3) {
                0 => rect(0.0, 0.0, 4.0, 4.0, rng.chance(1, 2)),
                1 => rect(4.0, 0.0, 8.0, 4.0, rng.chance(1, 2)),
                _ => rect(2.0, 0.0, 6.0, 4.0, rng.chance(1, 2)),
            };
            Poly { subs: vec![(a, true), (b, true)], kind: "coincident" }
        }
        9 => {
            // degenerate: repeated points, collinear runs, zero area
            let mut pts: Vec<Point> = Vec::new();
            let n = rng.range(3, 6) as usize;
            for _ in 0..n {
                let p = lattice_pt(rng, 6);
                pts.push(p);
                if rng.chance(1, 3) {
                    pts.push(p);
                }
                if rng.chance(1, 4) {
                    pts.push(point(p.x + 1.0, p.y));
                    pts.push(point(p.x + 2.0, p.y));
                }
            }
            if rng.chance(1, 4) {
                // all on a line
                for (i, p) in pts.iter_mut().enumerate() {
                    *p = point(i as f32 % 4.0, i as f32 % 4.0);
                }
            }
            Poly { subs: vec![(pts, rng.chance(1, 2))], kind: "degenerate" }
        }
        16 => {
            // self-intersecting polygon on a coarse 0..100 integer grid, 5-8 vertices
            let n = rng.range(5, 8) as usize;
            let pts = (0..n).map(|_| point(rng.range(0, 100) as f32, rng.range(0, 100) as f32)).collect();
            Poly { subs: vec![(pts, true)], kind: "grid100" }
        }
        12 => {
            // convex polygon with many vertices (long convex chains on both sides of the sweep)
            let n = rng.range(12, (max_edges as i64).max(14).min(28)) as usize;
            let pts = regular(4.0, 4.0, 4.0, n, 1, rng.uniform(0.0, 6.3) as f32, rng.chance(1, 2));
            Poly { subs: vec![(pts, true)], kind: "convex-many" }
        }
        13 => {
            // blobby star-shaped polygon: random radii around a centre, many vertices
            let n = rng.range(8, (max_edges as i64).max(10).min(24)) as usize;
            let ph = rng.uniform(0.0, 6.3);
            let ccw = rng.chance(1, 2);
            let pts = (0..n)
                .map(|i| {
                    let a = ph + (if ccw { 1.0 } else { -1.0 }) * i as f64 * std::f64::consts::TAU / n as f64;
                    let r = rng.uniform(1.5, 4.0);
                    point((4.0 + r * a.cos()) as f32, (4.0 + r * a.sin()) as f32)
                })
                .collect();
            Poly { subs: vec![(pts, true)], kind: "blob" }
        }
        14 => {
            // several long thin spikes crossing each other (many crossings, varied active-edge orders)
            let k = rng.range(2, 4) as usize;
            let mut subs = Vec::new();
            for _ in 0..k {
                let lat = rng.chance(1, 2);
                let c = |rng: &mut Rng| if lat { rng.range(0, 10) as f32 } else { rng.uniform(0.0, 10.0) as f32 };
                let a = point(c(rng), c(rng));
                let b = point(c(rng), c(rng));
                let w = if lat { rng.range(1, 2) as f32 } else { rng.uniform(0.3, 1.5) as f32 };
                subs.push((vec![a, b, point(b.x + w, b.y + if rng.chance(1, 2) { w } else { 0.0 })], true));
            }
            Poly { subs, kind: "spikes" }
        }
        15 => {
            // random integer-grid multi-polygon with more sub-paths and vertices
            let k = rng.range(2, 4) as usize;
            let mut subs = Vec::new();
            for _ in 0..k {
                let n = rng.range(3, 6) as usize;
                subs.push(((0..n).map(|_| lattice_pt(rng, 10)).collect(), true));
            }
            Poly { subs, kind: "grid-multi" }
        }
        10 => {
            // vertex lying on another edge (T-junction) and touching sub-paths
            let a = rect(0.0, 0.0, 8.0, 8.0, true);
            let x = rng.range(1, 7) as f32;
            let b = vec![point(x, 0.0), point(x + 1.0, rng.range(1, 7) as f32), point(x - 1.0, rng.range(1, 7) as f32)];
            Poly { subs: vec![(a, true), (b, true)], kind: "tjunction" }
        }
        _ => {
            // single-point and two-point sub-paths mixed with a triangle
            let mut subs = vec![(vec![lattice_pt(rng, 8)], rng.chance(1, 2))];
            subs.push((vec![lattice_pt(rng, 8), lattice_pt(rng, 8)], rng.chance(1, 2)));
            subs.push(((0..3).map(|_| lattice_pt(rng, 8)).collect(), true));
            Poly { subs, kind: "tiny-subpaths" }
        }
    };
    // occasionally rescale / translate (huge, tiny)
    match rng.below(10) {
        0 => p.transform(|q| point(q.x * 1000.0, q.y * 1000.0)),
        1 => p.transform(|q| point(q.x * 0.001, q.y * 0.001)),
        2 => p.transform(|q| point(q.x + 1000.0, q.y - 500.0)),
        3 => p.transform(|q| point(q.x * 0.37 + 0.11, q.y * 1.93 - 0.7)),
        _ => {}
    }
    p
}

/// Inputs at the edge of what `f32` resolves (regression streams of lyon 9151b7de / 748da73e):
/// * `far-tjunction`: sub-paths far from the origin (|x|, |y| up to 6e4) where a vertex of one
///   sub-path lies EXACTLY on a slanted edge of another, to be filled with a tolerance finer than
///   the spacing of `f32` there;
/// * `long-sliver`: a thin triangle whose two long sides leave one vertex with slopes closer than
///   the merge threshold of `handle_coincident_edges_below` (5e-5) while their far ends are many
///   tolerances apart.
/// Returns the polygon and the tolerance to use.
pub fn gen_poly_extreme(rng: &mut Rng) -> (Poly, f32) {
    if rng.chance(1, 2) {
        let off = |rng: &mut Rng| {
            let m = *rng.pick(&[4096.0f32, 10000.0, 16384.0, 30000.0, 60000.0]);
            if rng.chance(1, 2) { m } else { -m }
        };
        let (ox, oy) = (off(rng), off(rng));
        // edge A -> A + k (dx, dy), vertex at A + j (dx, dy)
        let (dx, dy) = (rng.range(-3, 3) as f32, rng.range(1, 3) as f32);
        let k = rng.range(2, 4) as f32;
        let j = rng.range(1, k as i64 - 1) as f32;
        let a = point(ox + rng.range(0, 4) as f32, oy + rng.range(0, 4) as f32);
        let b = point(a.x + k * dx, a.y + k * dy);
        let c = point(a.x + rng.range(4, 9) as f32, a.y + rng.range(-2, 8) as f32);
        let v = point(a.x + j * dx, a.y + j * dy);
        let w1 = point(v.x - rng.range(1, 5) as f32, v.y + rng.range(-3, 3) as f32);
        let w2 = point(v.x - rng.range(1, 5) as f32, v.y + rng.range(-3, 3) as f32);
        let mut outer = vec![a, b, c];
        let mut inner = vec![v, w1, w2];
        if rng.chance(1, 2) { outer.reverse(); }
        if rng.chance(1, 2) { inner.reverse(); }
        let mut p = Poly { subs: vec![(outer, true), (inner, true)], kind: "far-tjunction" };
        if rng.chance(1, 2) { p.transform(|q| point(q.y, q.x)); }
        (p, *rng.pick(&[0.001f32, 0.001, 0.01]))
    } else {
        let l = rng.uniform(4000.0, 9000.0) as f32;
        let d = (rng.uniform(0.55, 0.95) * 5.0e-5) as f32 * l;
        let s = rng.uniform(-0.8, 0.8) as f32;
        let shorten = rng.uniform(0.0, 0.3) as f32;
        let o = point(rng.range(-5, 5) as f32, rng.range(-5, 5) as f32);
        let a_to = point(o.x + l * s, o.y + l);
        let b_to = point(o.x + l * s + d, o.y + l - shorten);
        let mut pts = vec![o, a_to, b_to];
        if rng.chance(1, 2) { pts.reverse(); }
        let mut p = Poly { subs: vec![(pts, true)], kind: "long-sliver" };
        if rng.chance(1, 3) {
            // a second shape nearby so that the sliver is not alone in the sweep
            let q = point(o.x + rng.range(-20, 20) as f32, o.y + rng.range(5, 40) as f32);
            p.subs.push((vec![q, point(q.x + 7.0, q.y + 3.0), point(q.x - 2.0, q.y + 9.0)], true));
        }
        match rng.below(4) {
            0 => p.transform(|q| point(q.y, q.x)),
            1 => p.transform(|q| point(q.x, -q.y)),
            2 => p.transform(|q| point(-q.y, q.x)),
            _ => {}
        }
        (p, *rng.pick(&[0.001f32, 0.01]))
    }
}

pub const ENTRY_NAMES: [&str; 5] = ["events", "path", "ids", "polygon", "builder"];

#[derive(Clone, Copy, Debug)]
pub struct FillCfg {
    pub rule: FillRule,
    pub orientation: Orientation,
    pub tolerance: f32,
    pub entry: usize,
}

impl FillCfg {
    pub fn gen(rng: &mut Rng) -> FillCfg {
        FillCfg {
            rule: if rng.chance(1, 2) { FillRule::EvenOdd } else { FillRule::NonZero },
            orientation: if rng.chance(1, 2) { Orientation::Vertical } else { Orientation::Horizontal },
            tolerance: *rng.pick(&[0.001f32, 0.01, 0.1, 1.0]),
            entry: rng.below(5) as usize,
        }
    }
    pub fn options(&self) -> FillOptions {
        FillOptions::tolerance(self.tolerance).with_fill_rule(self.rule).with_sweep_orientation(self.orientation)
    }
    pub fn put(&self, o: &mut Out) {
        o.u(if self.rule == FillRule::EvenOdd { 0 } else { 1 });
        o.u(if self.orientation == Orientation::Vertical { 0 } else { 1 });
        o.f(self.tolerance);
        o.t(ENTRY_NAMES[self.entry]);
    }
}

pub type Mesh = VertexBuffers<Point, u32>;

/// geometry builder refusing the `k`-th vertex (1-based; 0 = never)
pub struct RefuseAt<B> {
    pub inner: B,
    pub k: usize,
    pub seen: usize,
}
impl<B: GeometryBuilder> GeometryBuilder for RefuseAt<B> {
    fn begin_geometry(&mut self) {
        self.inner.begin_geometry()
    }
    fn end_geometry(&mut self) {
        self.inner.end_geometry()
    }
    fn add_triangle(&mut self, a: VertexId, b: VertexId, c: VertexId) {
        self.inner.add_triangle(a, b, c)
    }
    fn abort_geometry(&mut self) {
        self.inner.abort_geometry()
    }
}
impl<B: FillGeometryBuilder> FillGeometryBuilder for RefuseAt<B> {
    fn add_fill_vertex(&mut self, v: FillVertex) -> Result<VertexId, GeometryBuilderError> {
        self.seen += 1;
        if self.seen == self.k {
            return Err(GeometryBuilderError::InvalidVertex);
        }
        self.inner.add_fill_vertex(v)
    }
}

/// What the tessellator object went through BEFORE the call under test. The fill properties
/// (C01-C03) are statements about every `FillTessellator` object, not only a newly created one:
/// half of the cases run on an object that has already served other calls, some of them aborted
/// by the geometry builder at the k-th vertex (spans left open with buffered triangles).
/// Drawn from the case's RNG AFTER everything else, so that (seed, case id) still regenerates the
/// same polygon as before this was added.
#[derive(Clone, Debug)]
pub struct History {
    pub steps: Vec<(Poly, FillCfg, usize)>,
}

impl History {
    pub fn gen(rng: &mut Rng) -> History {
        let mut steps = Vec::new();
        if rng.chance(1, 2) {
            let n = rng.range(1, 3);
            for _ in 0..n {
                let poly = if rng.chance(1, 2) {
                    // tall thin zig-zag strip: the span buffers triangles long before it ends
                    let m = rng.range(3, 9);
                    let x0 = rng.range(-20, 20) as f32;
                    let mut l = Vec::new();
                    let mut r = Vec::new();
                    for i in 0..m {
                        l.push(point(x0 + (i % 2) as f32 * 0.5, i as f32 * 2.0));
                        r.push(point(x0 + 3.0 + (i % 2) as f32 * 0.5, i as f32 * 2.0 + 1.0));
                    }
                    r.reverse();
                    l.extend(r);
                    Poly { subs: vec![(l, true)], kind: "strip" }
                } else {
                    gen_poly(rng, 12)
                };
                let cfg = FillCfg::gen(rng);
                let k = if rng.chance(2, 3) { rng.range(2, 12) as usize } else { 0 };
                steps.push((poly, cfg, k));
            }
        }
        History { steps }
    }
    pub fn tag(&self) -> &'static str {
        if self.steps.is_empty() {
            "fresh"
        } else if self.steps.iter().any(|s| s.2 != 0) {
            "used+aborted"
        } else {
            "used"
        }
    }
    /// a tessellator object with this history
    pub fn tessellator(&self) -> FillTessellator {
        let mut tess = FillTessellator::new();
        for (poly, cfg, k) in &self.steps {
            let mut mesh = Mesh::new();
            let _ = run_fill_refusing(&mut tess, poly, cfg, &mut mesh, *k);
        }
        tess
    }
}

/// Run the fill tessellator through the chosen entry point. `polygon` entry needs a single
/// sub-path; for several sub-paths it falls back to `events`.
pub fn run_fill(tess: &mut FillTessellator, poly: &Poly, cfg: &FillCfg, mesh: &mut Mesh) -> Result<(), String> {
    run_fill_refusing(tess, poly, cfg, mesh, 0)
}

/// `run_fill` against a geometry builder that refuses the `k`-th vertex (0 = never)
pub fn run_fill_refusing(tess: &mut FillTessellator, poly: &Poly, cfg: &FillCfg, mesh: &mut Mesh, k: usize) -> Result<(), String> {
    let opts = cfg.options();
    let path = poly.to_path();
    let mut bb = RefuseAt { inner: BuffersBuilder::new(mesh, Positions), k, seen: 0 };
    let r = match cfg.entry {
        0 => tess.tessellate(path.iter(), &opts, &mut bb),
        1 => tess.tessellate_path(&path, &opts, &mut bb),
        2 => tess.tessellate_with_ids(path.id_iter(), &path, None, &opts, &mut bb),
        3 if poly.subs.len() == 1 && !poly.subs[0].0.is_empty() => {
            let (pts, closed) = &poly.subs[0];
            tess.tessellate_polygon(Polygon { points: &pts[..], closed: *closed }, &opts, &mut bb)
        }
        3 => tess.tessellate(path.iter(), &opts, &mut bb),
        _ => {
            use lyon_path::builder::PathBuilder;
            let mut b = tess.builder(&opts, &mut bb);
            for (pts, closed) in &poly.subs {
                if pts.is_empty() {
                    continue;
                }
                b.begin(pts[0]);
                for p in &pts[1..] {
                    b.line_to(*p);
                }
                b.end(*closed);
            }
            b.build()
        }
    };
    r.map_err(|e| format!("{:?}", e))
}

pub fn put_edges(o: &mut Out, edges: &[(Point, Point)]) {
    o.u(edges.len() as u64);
    for (a, b) in edges {
        o.p(*a).p(*b);
    }
}

pub fn put_tris(o: &mut Out, mesh: &Mesh) {
    let n = mesh.indices.len() / 3;
    o.u(n as u64);
    for t in mesh.indices.chunks(3) {
        for &i in t {
            let p = mesh.vertices.get(i as usize).copied().unwrap_or(point(f32::NAN, f32::NAN));
            o.p(p);
        }
    }
}


// ---------------------------------------------------------------------------------------------
// y-monotone polygons as (position, is_left) sequences in sweep order

/// abscissa of a chain (sorted by y, first/last shared with the other chain) at height y
pub fn chain_x(chain: &[Point], y: f32) -> f32 {
    for w in chain.windows(2) {
        if w[0].y <= y && y <= w[1].y {
            if w[1].y == w[0].y {
                return w[0].x;
            }
            return w[0].x + (w[1].x - w[0].x) * (y - w[0].y) / (w[1].y - w[0].y);
        }
    }
    chain[chain.len() - 1].x
}

/// y-monotone polygon whose chains interleave in x (rejection-sampled to be simple)
pub fn gen_monotone_interleaved(rng: &mut Rng, n_mid: usize) -> Option<Vec<(Point, bool)>> {
    for _ in 0..40 {
        let mut seq = vec![(point(rng.uniform(-1.0, 1.0) as f32, 0.0), true)];
        let mut y = 0.0f32;
        for _ in 0..n_mid {
            y += rng.uniform(0.2, 3.0) as f32;
            let left = rng.chance(1, 2);
            let x = if left { rng.uniform(-8.0, 4.0) } else { rng.uniform(-4.0, 8.0) } as f32;
            seq.push((point(x, y), left));
        }
        y += rng.uniform(0.2, 3.0) as f32;
        seq.push((point(rng.uniform(-1.0, 1.0) as f32, y), true));
        let n = seq.len();
        let mut l: Vec<Point> = vec![seq[0].0];
        let mut r: Vec<Point> = vec![seq[0].0];
        for (p, left) in &seq[1..n - 1] {
            if *left {
                l.push(*p)
            } else {
                r.push(*p)
            }
        }
        l.push(seq[n - 1].0);
        r.push(seq[n - 1].0);
        if seq[1..n - 1].iter().all(|(p, _)| chain_x(&l, p.y) + 0.3 < chain_x(&r, p.y) || (chain_x(&l, p.y) - chain_x(&r, p.y)).abs() < 0.0)
            && seq[1..n - 1].iter().all(|(p, _)| chain_x(&l, p.y) + 0.3 < chain_x(&r, p.y))
        {
            return Some(seq);
        }
    }
    None
}

pub fn gen_monotone(rng: &mut Rng, n_mid: usize, pattern: Option<u32>, lattice: bool) -> Vec<(Point, bool)> {
    if pattern.is_none() && !lattice && n_mid >= 2 && n_mid <= 14 && rng.chance(1, 2) {
        if let Some(s) = gen_monotone_interleaved(rng, n_mid) {
            return s;
        }
    }
    let mut seq = Vec::new();
    let mut y = 0.0f32;
    // three shapes of chains: far apart, coming close to the axis, long convex runs on one side
    let shape = rng.below(3);
    let mut run_left = rng.chance(1, 2);
    let mut run_len = 0usize;
    let c = |rng: &mut Rng, lo: f64, hi: f64| -> f32 {
        if lattice {
            rng.range(lo as i64, hi as i64) as f32
        } else {
            rng.uniform(lo, hi) as f32
        }
    };
    // begin/end on the axis when the chains may come within 0.5 of it (keeps the polygon simple)
    let x0 = if shape == 1 { 0.0 } else { c(rng, -1.0, 1.0) };
    seq.push((point(x0, y), true));
    for i in 0..n_mid {
        y += if lattice { rng.range(1, 3) as f32 } else { rng.uniform(0.1, 3.0) as f32 };
        let left = match pattern {
            Some(p) => (p >> i) & 1 == 1,
            None => {
                if shape == 2 {
                    // long runs on one side
                    if run_len == 0 {
                        run_left = !run_left;
                        run_len = rng.range(1, 14) as usize;
                    }
                    run_len -= 1;
                    run_left
                } else {
                    rng.chance(1, 2)
                }
            }
        };
        let x = if shape == 2 && !lattice {
            // convex arc bulging away from the axis: x = -(2 + 8 sin(pi * progress))
            let prog = (i as f64 + 0.5) / n_mid as f64;
            let r = (2.0 + 8.0 * (std::f64::consts::PI * prog).sin() + rng.uniform(-0.3, 0.3)) as f32;
            if left { -r } else { r }
        } else if shape == 1 {
            if left { -c(rng, 0.5, 10.0).max(0.5) } else { c(rng, 0.5, 10.0).max(0.5) }
        } else if left {
            -c(rng, 2.0, 10.0)
        } else {
            c(rng, 2.0, 10.0)
        };
        seq.push((point(x, y), left));
    }
    y += if lattice { rng.range(1, 3) as f32 } else { rng.uniform(0.1, 3.0) as f32 };
    let x1 = if shape == 1 { 0.0 } else { c(rng, -1.0, 1.0) };
    seq.push((point(x1, y), true));
    // a horizontal shear keeps the polygon simple and y-monotone but moves the chains across each
    // other's x-ranges (what the advanced tessellator's reference-x heuristics look at)
    if rng.chance(1, 2) {
        let k = if lattice { rng.range(-2, 2) as f32 * 0.5 } else { rng.uniform(-1.5, 1.5) as f32 };
        for s in seq.iter_mut() {
            s.0.x += k * s.0.y;
        }
    }
    seq
}

/// boundary loop of the monotone polygon: begin, right chain downwards, end, left chain upwards
pub fn monotone_outline(seq: &[(Point, bool)]) -> Vec<Point> {
    let n = seq.len();
    let mut v = vec![seq[0].0];
    for (p, left) in &seq[1..n - 1] {
        if !*left {
            v.push(*p);
        }
    }
    v.push(seq[n - 1].0);
    for (p, left) in seq[1..n - 1].iter().rev() {
        if *left {
            v.push(*p);
        }
    }
    v
}


fn tri_area2(a: Point, b: Point, c: Point) -> f64 {
    (b.x as f64 - a.x as f64) * (c.y as f64 - a.y as f64) - (b.y as f64 - a.y as f64) * (c.x as f64 - a.x as f64)
}

/// Witness predicate of the known defect of `AdvancedMonotoneTessellator` (hook H2): on this
/// sequence the advanced tessellator's triangle areas do not add up to the polygon's area while
/// the basic tessellator's do.
pub fn advanced_monotone_misbehaves(seq: &[(Point, bool)]) -> bool {
    let outline = monotone_outline(seq);
    let mut pa = 0.0f64;
    for i in 0..outline.len() {
        let (a, b) = (outline[i], outline[(i + 1) % outline.len()]);
        pa += a.x as f64 * b.y as f64 - b.x as f64 * a.y as f64;
    }
    let pa = pa.abs() * 0.5;
    let area = |basic: bool| -> f64 {
        lyon_tessellation::verif_monotone(seq, basic).iter().map(|t| (tri_area2(seq[t.0 as usize].0, seq[t.1 as usize].0, seq[t.2 as usize].0) * 0.5).abs()).sum()
    };
    let tol = 1e-4 * (1.0 + pa);
    (area(true) - pa).abs() <= tol && (area(false) - pa).abs() > tol
}


// ---------------------------------------------------------------------------------------------
// Fills into caller-owned `VertexBuffers` of every index type lyon's `BuffersBuilder` accepts,
// with prior contents (dummy geometry and/or earlier fills appended to the SAME buffers), with and
// without a vertex offset / inverted winding, through `BuffersBuilder::new` or `simple_builder`,
// with one builder object per fill or one builder object serving every fill. (C02 `chk_tilingbuf`,
// `bufidx`.) Add-only: nothing above this line was changed.

use lyon_tessellation::geometry_builder::{simple_builder, MaxIndex};

/// run the fill through entry point `cfg.entry` against ANY geometry builder
pub fn run_fill_dyn(tess: &mut FillTessellator, poly: &Poly, cfg: &FillCfg, out: &mut dyn FillGeometryBuilder) -> Result<(), lyon_tessellation::TessellationError> {
    let opts = cfg.options();
    let path = poly.to_path();
    match cfg.entry {
        0 => tess.tessellate(path.iter(), &opts, out),
        1 => tess.tessellate_path(&path, &opts, out),
        2 => tess.tessellate_with_ids(path.id_iter(), &path, None, &opts, out),
        3 if poly.subs.len() == 1 && !poly.subs[0].0.is_empty() => {
            let (pts, closed) = &poly.subs[0];
            tess.tessellate_polygon(Polygon { points: &pts[..], closed: *closed }, &opts, out)
        }
        3 => tess.tessellate(path.iter(), &opts, out),
        _ => {
            use lyon_path::builder::PathBuilder;
            let mut b = tess.builder(&opts, out);
            for (pts, closed) in &poly.subs {
                if pts.is_empty() {
                    continue;
                }
                b.begin(pts[0]);
                for p in &pts[1..] {
                    b.line_to(*p);
                }
                b.end(*closed);
            }
            b.build()
        }
    }
}

/// `RefuseAt` over a trait object: refuses the `k`-th vertex since construction (0 = never)
pub struct RefuseDyn<'a> {
    pub inner: &'a mut dyn FillGeometryBuilder,
    pub k: usize,
    pub seen: usize,
}
impl<'a> GeometryBuilder for RefuseDyn<'a> {
    fn begin_geometry(&mut self) {
        self.inner.begin_geometry()
    }
    fn end_geometry(&mut self) {
        self.inner.end_geometry()
    }
    fn add_triangle(&mut self, a: VertexId, b: VertexId, c: VertexId) {
        self.inner.add_triangle(a, b, c)
    }
    fn abort_geometry(&mut self) {
        self.inner.abort_geometry()
    }
}
impl<'a> FillGeometryBuilder for RefuseDyn<'a> {
    fn add_fill_vertex(&mut self, v: FillVertex) -> Result<VertexId, GeometryBuilderError> {
        self.seen += 1;
        if self.seen == self.k {
            return Err(GeometryBuilderError::InvalidVertex);
        }
        self.inner.add_fill_vertex(v)
    }
}

/// Never-refusing builder that records what the tessellator asks for, vertices named by ordinal
/// (k-th vertex of this geometry = `VertexId(k)`): the request script of a fill.
#[derive(Default)]
pub struct ScriptRecorder {
    pub positions: Vec<Point>,
    /// `None` = vertex request, `Some((a, b, c))` = triangle over ordinals
    pub script: Vec<Option<(u32, u32, u32)>>,
    pub begins: usize,
    pub ends: usize,
    pub aborts: usize,
}
impl GeometryBuilder for ScriptRecorder {
    fn begin_geometry(&mut self) {
        self.begins += 1;
    }
    fn end_geometry(&mut self) {
        self.ends += 1;
    }
    fn add_triangle(&mut self, a: VertexId, b: VertexId, c: VertexId) {
        self.script.push(Some((a.0, b.0, c.0)));
    }
    fn abort_geometry(&mut self) {
        self.aborts += 1;
    }
}
impl FillGeometryBuilder for ScriptRecorder {
    fn add_fill_vertex(&mut self, v: FillVertex) -> Result<VertexId, GeometryBuilderError> {
        self.positions.push(v.position());
        self.script.push(None);
        Ok(VertexId(self.positions.len() as u32 - 1))
    }
}

/// An index type `BuffersBuilder` can write (lyon implements `From<VertexId>` for exactly these).
pub trait BufIdx: Copy + PartialEq + core::ops::Add + From<VertexId> + MaxIndex + 'static {
    const NAME: &'static str;
    /// the stored value read back as an integer
    fn val(self) -> i128;
    /// `simple_builder` exists for this type only when it is `u16`
    fn simple(_b: &mut VertexBuffers<Point, Self>) -> Option<BuffersBuilder<'_, Point, Self, Positions>> {
        None
    }
}
impl BufIdx for u16 {
    const NAME: &'static str = "u16";
    fn val(self) -> i128 {
        self as i128
    }
    fn simple(b: &mut VertexBuffers<Point, u16>) -> Option<BuffersBuilder<'_, Point, u16, Positions>> {
        Some(simple_builder(b))
    }
}
impl BufIdx for u32 {
    const NAME: &'static str = "u32";
    fn val(self) -> i128 {
        self as i128
    }
}
impl BufIdx for i32 {
    const NAME: &'static str = "i32";
    fn val(self) -> i128 {
        self as i128
    }
}
impl BufIdx for usize {
    const NAME: &'static str = "usize";
    fn val(self) -> i128 {
        self as i128
    }
}

pub const BUF_TYPES: [&str; 4] = ["u16", "u32", "i32", "usize"];

/// how the `BuffersBuilder` over the buffers is obtained / decorated
#[derive(Clone, Copy, Debug, PartialEq)]
pub struct BuilderCfg {
    /// `simple_builder(buffers)` instead of `BuffersBuilder::new(buffers, Positions)` (u16 only, no offset)
    pub simple: bool,
    /// `with_vertex_offset(offset)`
    pub offset: u32,
    /// `with_inverted_winding()`
    pub invert: bool,
}

/// `VertexBuffers<Point, I>` behind one interface for every `I`
pub trait AnyBuffers {
    fn ty(&self) -> &'static str;
    /// `<I as MaxIndex>::MAX`
    fn max_index(&self) -> u64;
    fn nv(&self) -> usize;
    fn ni(&self) -> usize;
    fn vertices(&self) -> &[Point];
    /// i-th stored index, as the buffer stores it
    fn index(&self, i: usize) -> i128;
    fn push_vertex(&mut self, p: Point);
    /// append an index the way lyon would (`I::from(VertexId(v))`)
    fn push_index(&mut self, v: u32);
    fn clone_box(&self) -> Box<dyn AnyBuffers>;
    /// bit-exact equality of the first `nv` vertices and `ni` indices with `other`'s whole contents
    fn has_prefix(&self, other: &dyn AnyBuffers) -> bool {
        other.nv() <= self.nv()
            && other.ni() <= self.ni()
            && self.vertices()[..other.nv()].iter().zip(other.vertices()).all(|(a, b)| a.x.to_bits() == b.x.to_bits() && a.y.to_bits() == b.y.to_bits())
            && (0..other.ni()).all(|i| self.index(i) == other.index(i))
    }
    /// hand a builder over these buffers to `f`
    fn with_builder(&mut self, bc: BuilderCfg, f: &mut dyn FnMut(&mut dyn FillGeometryBuilder));
}

impl<I: BufIdx> AnyBuffers for VertexBuffers<Point, I> {
    fn ty(&self) -> &'static str {
        I::NAME
    }
    fn max_index(&self) -> u64 {
        <I as MaxIndex>::MAX as u64
    }
    fn nv(&self) -> usize {
        self.vertices.len()
    }
    fn ni(&self) -> usize {
        self.indices.len()
    }
    fn vertices(&self) -> &[Point] {
        &self.vertices
    }
    fn index(&self, i: usize) -> i128 {
        self.indices[i].val()
    }
    fn push_vertex(&mut self, p: Point) {
        self.vertices.push(p)
    }
    fn push_index(&mut self, v: u32) {
        self.indices.push(I::from(VertexId(v)))
    }
    fn clone_box(&self) -> Box<dyn AnyBuffers> {
        Box::new(VertexBuffers::<Point, I> { vertices: self.vertices.clone(), indices: self.indices.clone() })
    }
    fn with_builder(&mut self, bc: BuilderCfg, f: &mut dyn FnMut(&mut dyn FillGeometryBuilder)) {
        let bb = if bc.simple { I::simple(self) } else { None };
        let bb = match bb {
            Some(b) => b,
            None => BuffersBuilder::new(self, Positions),
        };
        let bb = if bc.offset != 0 { bb.with_vertex_offset(bc.offset) } else { bb };
        if bc.invert {
            let mut b = bb.with_inverted_winding();
            f(&mut b)
        } else {
            let mut b = bb;
            f(&mut b)
        }
    }
}

pub fn new_buffers(ty: &str) -> Box<dyn AnyBuffers> {
    match ty {
        "u16" => Box::new(VertexBuffers::<Point, u16>::with_capacity(16, 16)),
        "u32" => Box::new(VertexBuffers::<Point, u32>::with_capacity(16, 16)),
        "i32" => Box::new(VertexBuffers::<Point, i32>::with_capacity(16, 16)),
        _ => Box::new(VertexBuffers::<Point, usize>::with_capacity(16, 16)),
    }
}

/// position of the i-th dummy vertex of a prefilled buffer: scattered over the region the generated
/// polygons live in, so that an index resolving to a dummy vertex gives a visibly wrong triangle
pub fn dummy_vertex(i: usize) -> Point {
    point((i * 7 % 23) as f32 - 11.0, (i * 13 % 19) as f32 - 9.0)
}

/// Output buffers and their history BEFORE the fill under test.
#[derive(Clone, Debug)]
pub struct BufSpec {
    pub ty: &'static str,
    /// dummy vertices the buffers start with
    pub n0: usize,
    /// dummy index triples (each index < n0) the buffers start with
    pub idx0: Vec<u32>,
    pub bc: BuilderCfg,
    /// fills appended to the same buffers before the one under test: polygon, configuration,
    /// vertex position at which the builder refuses (0 = never)
    pub earlier: Vec<(Poly, FillCfg, usize)>,
    /// one builder object serves the earlier fills and the fill under test
    pub reuse_builder: bool,
    pub band: &'static str,
}

impl BufSpec {
    /// `real_history`: also draw earlier real fills / builder reuse (the tie family keeps to dummy contents)
    pub fn gen(rng: &mut Rng, real_history: bool) -> BufSpec {
        let ty = *rng.pick(&["u16", "u16", "u16", "u32", "u32", "i32", "usize"]);
        let max: u64 = match ty { "u16" => 65535, "i32" => i32::MAX as u64, _ => u32::MAX as u64 };
        // prior vertex count: empty, small, anywhere, and around the first wrap point of a 16-bit
        // index (for u16: just below MaxIndex::MAX, so that the fill ends at, or would pass, the limit)
        let (n0, band) = match rng.below(8) {
            0 => (0usize, "empty"),
            1 | 2 => (rng.range(1, 400) as usize, "small"),
            3 => (rng.range(400, 65000) as usize, "mid"),
            _ => {
                if ty == "u16" {
                    ((65535 - rng.below(70)) as usize, "near-max")
                } else if rng.chance(3, 4) {
                    ((65536 + 40 - rng.below(120) as i64) as usize, "near-2^16")
                } else {
                    (rng.range(65600, 140000) as usize, "beyond-2^16")
                }
            }
        };
        let n_tri = if n0 == 0 { 0 } else { rng.below(4) as usize };
        let idx0 = (0..3 * n_tri).map(|_| rng.below(n0 as u64) as u32).collect();
        let room = max.saturating_sub(n0 as u64 + 400);
        let offset = if room > 0 && rng.chance(1, 4) {
            let cap = if rng.chance(1, 2) { 9 } else { 5000 };
            1 + rng.below(room.min(cap)) as u32
        } else {
            0
        };
        let simple = ty == "u16" && offset == 0 && rng.chance(1, 3);
        let invert = rng.chance(1, 5);
        let mut earlier = Vec::new();
        let mut reuse_builder = false;
        if real_history && rng.chance(1, 2) {
            for _ in 0..rng.range(1, 3) {
                let poly = gen_poly(rng, 12);
                let cfg = FillCfg::gen(rng);
                let k = if rng.chance(1, 4) { rng.range(2, 10) as usize } else { 0 };
                earlier.push((poly, cfg, k));
            }
            reuse_builder = rng.chance(1, 2);
        }
        BufSpec { ty, n0, idx0, bc: BuilderCfg { simple, offset, invert }, earlier, reuse_builder, band }
    }
    pub fn put(&self, o: &mut Out) {
        o.t(self.ty).u(self.n0 as u64).u(self.idx0.len() as u64).u(self.bc.offset as u64).b(self.bc.invert).b(self.bc.simple);
        o.u(self.earlier.len() as u64).b(self.reuse_builder);
    }
    pub fn tag(&self) -> String {
        format!(
            "{} {}{}{}{}{}",
            self.ty,
            self.band,
            if self.bc.offset > 0 { " offset" } else { "" },
            if self.bc.invert { " invert" } else { "" },
            if self.bc.simple { " simple_builder" } else { "" },
            if self.earlier.is_empty() { "" } else if self.reuse_builder { " earlier-fills(one-builder)" } else { " earlier-fills" }
        )
    }
    /// the buffers with their dummy contents
    pub fn prefill(&self) -> Box<dyn AnyBuffers> {
        let mut b = new_buffers(self.ty);
        for i in 0..self.n0 {
            b.push_vertex(dummy_vertex(i));
        }
        for &i in &self.idx0 {
            b.push_index(i);
        }
        b
    }
}

/// Result of `fill_into_buffers`: the buffers as they were when the fill under test began
/// (`before`), as it left them (`after`), and what it returned.
pub struct BufRun {
    pub before: Box<dyn AnyBuffers>,
    pub after: Box<dyn AnyBuffers>,
    pub result: Result<(), lyon_tessellation::TessellationError>,
}

/// Prefill, replay the earlier fills into the same buffers, then run the fill under test.
/// `mk_tess` yields the tessellator object (called twice when one builder object serves all
/// fills: the state at the start of the fill under test is then obtained from a separate,
/// identical replay of the earlier fills - lyon is deterministic).
pub fn fill_into_buffers(spec: &BufSpec, mk_tess: &dyn Fn() -> FillTessellator, poly: &Poly, cfg: &FillCfg) -> BufRun {
    let mut buf = spec.prefill();
    let run_earlier = |tess: &mut FillTessellator, bb: &mut dyn FillGeometryBuilder| {
        for (p, c, k) in &spec.earlier {
            let mut r = RefuseDyn { inner: &mut *bb, k: *k, seen: 0 };
            let _ = run_fill_dyn(tess, p, c, &mut r);
        }
    };
    let mut result = Ok(());
    let before;
    if spec.reuse_builder {
        let mut b1 = buf.clone_box();
        let mut t1 = mk_tess();
        b1.with_builder(spec.bc, &mut |bb| run_earlier(&mut t1, bb));
        before = b1;
        let mut tess = mk_tess();
        buf.with_builder(spec.bc, &mut |bb| {
            run_earlier(&mut tess, bb);
            result = run_fill_dyn(&mut tess, poly, cfg, bb);
        });
    } else {
        let mut tess = mk_tess();
        for (p, c, k) in &spec.earlier {
            buf.with_builder(spec.bc, &mut |bb| {
                let mut r = RefuseDyn { inner: &mut *bb, k: *k, seen: 0 };
                let _ = run_fill_dyn(&mut tess, p, c, &mut r);
            });
        }
        before = buf.clone_box();
        buf.with_builder(spec.bc, &mut |bb| {
            result = run_fill_dyn(&mut tess, poly, cfg, bb);
        });
    }
    BufRun { before, after: buf, result }
}
