//! Shared machinery of the correspondence / oracle harness.
//!
//! Every binary `src/bin/cNN.rs` drives the *real* lyon code (path deps on /repo/crates/*)
//! and prints, per case,
//!
//! ```text
//! CASE <id> <family> <args…>        input, floats as `~hexbits`
//! TAG  <id> <generator/branch tag>  what kind of input this is (distribution + nontriviality)
//! IMPL <id> <canonical result…>     what lyon returned (or `panic …`)
//! ORCL <id> ok | skip <why> | fail <clause> <class> <detail…>
//! ```
//!
//! `CASE` lines are piped by `/verif/check` to the Lean model driver, whose `MODEL` lines are
//! compared token by token with the `IMPL` lines.  `ORCL` is the property itself evaluated on
//! the implementation's output (the failing-input search); it never stands in for a theorem.
//!
//! All random choices of case `id` derive from SplitMix64 seeded with (seed, id), so that a
//! case replays from `(seed, id)` alone and sharding does not change what is generated.

use std::fmt::Write as _;
use std::io::Write as _;
use std::panic::{catch_unwind, AssertUnwindSafe};
use std::sync::atomic::{AtomicU64, Ordering};
use std::sync::Arc;
use std::time::{Duration, Instant};

pub mod fl;
pub mod fillgen;
pub use fl::Fl;

// ---------------------------------------------------------------------------------------------
// RNG

#[derive(Clone)]
pub struct Rng(pub u64);

impl Rng {
    pub fn new(seed: u64, id: u64) -> Rng {
        let mut r = Rng(seed ^ 0x9E37_79B9_7F4A_7C15u64.wrapping_mul(id.wrapping_add(0x1234_5678)));
        r.next();
        r.next();
        r
    }
    pub fn next(&mut self) -> u64 {
        self.0 = self.0.wrapping_add(0x9E37_79B9_7F4A_7C15);
        let mut z = self.0;
        z = (z ^ (z >> 30)).wrapping_mul(0xBF58_476D_1CE4_E5B9);
        z = (z ^ (z >> 27)).wrapping_mul(0x94D0_49BB_1331_11EB);
        z ^ (z >> 31)
    }
    /// uniform in 0..n
    pub fn below(&mut self, n: u64) -> u64 {
        if n == 0 {
            0
        } else {
            self.next() % n
        }
    }
    pub fn range(&mut self, lo: i64, hi: i64) -> i64 {
        lo + self.below((hi - lo + 1) as u64) as i64
    }
    pub fn chance(&mut self, num: u64, den: u64) -> bool {
        self.below(den) < num
    }
    /// uniform in [0,1)
    pub fn unit(&mut self) -> f64 {
        (self.next() >> 11) as f64 / (1u64 << 53) as f64
    }
    pub fn uniform(&mut self, lo: f64, hi: f64) -> f64 {
        lo + (hi - lo) * self.unit()
    }
    pub fn pick<'a, T>(&mut self, xs: &'a [T]) -> &'a T {
        &xs[self.below(xs.len() as u64) as usize]
    }
    /// a coordinate on a small dyadic lattice (exact in f32 for all modelled polynomial ops)
    pub fn lattice(&mut self, span: i64, denom_pow: u32) -> f64 {
        self.range(-span, span) as f64 / (1u64 << denom_pow) as f64
    }
    /// log-uniform magnitude with random sign
    pub fn log_uniform(&mut self, lo_exp: f64, hi_exp: f64) -> f64 {
        let e = self.uniform(lo_exp, hi_exp);
        let m = 10f64.powf(e);
        if self.chance(1, 2) {
            m
        } else {
            -m
        }
    }
}

// ---------------------------------------------------------------------------------------------
// Token output

#[derive(Default, Clone)]
pub struct Out(pub String);

impl Out {
    pub fn new() -> Out {
        Out(String::new())
    }
    fn sep(&mut self) {
        if !self.0.is_empty() {
            self.0.push(' ');
        }
    }
    /// plain token (compared exactly)
    pub fn t(&mut self, s: &str) -> &mut Self {
        self.sep();
        self.0.push_str(s);
        self
    }
    pub fn u(&mut self, n: u64) -> &mut Self {
        self.sep();
        let _ = write!(self.0, "{}", n);
        self
    }
    pub fn i(&mut self, n: i64) -> &mut Self {
        self.sep();
        let _ = write!(self.0, "{}", n);
        self
    }
    pub fn b(&mut self, v: bool) -> &mut Self {
        self.t(if v { "1" } else { "0" })
    }
    pub fn f<S: Fl>(&mut self, x: S) -> &mut Self {
        self.sep();
        self.0.push_str(&x.hex());
        self
    }
    pub fn p<S: Fl>(&mut self, p: lyon_geom::Point<S>) -> &mut Self {
        self.f(p.x).f(p.y)
    }
    pub fn v<S: Fl>(&mut self, p: lyon_geom::Vector<S>) -> &mut Self {
        self.f(p.x).f(p.y)
    }
    pub fn opt_f<S: Fl>(&mut self, x: Option<S>) -> &mut Self {
        match x {
            None => self.t("none"),
            Some(v) => self.t("some").f(v),
        }
    }
}

// ---------------------------------------------------------------------------------------------
// Oracle verdicts

pub enum Verdict {
    Ok,
    Skip(String),
    /// clause = call site + property clause (stable identifier, e.g. `quad.split/left`)
    /// class  = witness class used to match `known_findings.json` entries (e.g. `generic`)
    Fail { clause: String, class: String, detail: String },
}

impl Verdict {
    pub fn fail(clause: &str, class: &str, detail: String) -> Verdict {
        Verdict::Fail { clause: clause.to_string(), class: class.to_string(), detail }
    }
}

/// Collects the first failing clause of a case.
pub struct Oracle {
    pub verdict: Verdict,
}

impl Oracle {
    pub fn new() -> Oracle {
        Oracle { verdict: Verdict::Ok }
    }
    pub fn check(&mut self, cond: bool, clause: &str, class: &str, detail: impl FnOnce() -> String) {
        if !cond {
            if let Verdict::Ok = self.verdict {
                self.verdict = Verdict::fail(clause, class, detail());
            }
        }
    }
    pub fn skip(&mut self, why: &str) {
        if let Verdict::Ok = self.verdict {
            self.verdict = Verdict::Skip(why.to_string());
        }
    }
    pub fn failed(&self) -> bool {
        matches!(self.verdict, Verdict::Fail { .. })
    }
}

// ---------------------------------------------------------------------------------------------
// Driver context

pub struct Ctx {
    pub prop: String,
    pub seed: u64,
    pub thorough: bool,
    pub shard: u64,
    pub nshards: u64,
    /// when set, only this case id is run (replay)
    pub only: Option<u64>,
    /// skip ids below this (restart after a watchdog kill)
    pub from: u64,
    next_id: u64,
    heartbeat: Arc<AtomicU64>,
    start: Instant,
    out: std::io::BufWriter<std::io::Stdout>,
    pub timeout_s: u64,
}

pub struct CaseOut {
    pub imp: Out,
    pub orcl: Verdict,
}

impl Ctx {
    pub fn from_args(prop: &str) -> Ctx {
        let args: Vec<String> = std::env::args().collect();
        let mut seed = 1u64;
        let mut thorough = false;
        let mut shard = 0;
        let mut nshards = 1;
        let mut only = None;
        let mut from = 0;
        let mut timeout_s = 20;
        let mut i = 1;
        while i < args.len() {
            match args[i].as_str() {
                "--seed" => {
                    seed = args[i + 1].parse().unwrap();
                    i += 1
                }
                "--tier" => {
                    thorough = args[i + 1] == "thorough";
                    i += 1
                }
                "--shard" => {
                    let mut it = args[i + 1].split('/');
                    shard = it.next().unwrap().parse().unwrap();
                    nshards = it.next().unwrap().parse().unwrap();
                    i += 1
                }
                "--only" => {
                    only = Some(args[i + 1].parse().unwrap());
                    i += 1
                }
                "--from" => {
                    from = args[i + 1].parse().unwrap();
                    i += 1
                }
                "--timeout" => {
                    timeout_s = args[i + 1].parse().unwrap();
                    i += 1
                }
                _ => {}
            }
            i += 1;
        }
        // Quiet panics: they are reported through IMPL lines.
        std::panic::set_hook(Box::new(|_| {}));
        let heartbeat = Arc::new(AtomicU64::new(u64::MAX));
        let ctx = Ctx {
            prop: prop.to_string(),
            seed,
            thorough,
            shard,
            nshards,
            only,
            from,
            next_id: 0,
            heartbeat: heartbeat.clone(),
            start: Instant::now(),
            out: std::io::BufWriter::new(std::io::stdout()),
            timeout_s,
        };
        // Watchdog: a case that runs longer than timeout_s is reported and the process exits
        // with status 3; the driver restarts after it.
        let start = ctx.start;
        let limit = timeout_s;
        std::thread::spawn(move || loop {
            std::thread::sleep(Duration::from_millis(200));
            let hb = heartbeat.load(Ordering::SeqCst);
            if hb == u64::MAX {
                continue;
            }
            let id = hb >> 24;
            let started_ds = hb & 0xFF_FFFF;
            let now_ds = (start.elapsed().as_millis() / 100) as u64;
            if now_ds.saturating_sub(started_ds) > limit * 10 {
                let so = std::io::stdout();
                let mut l = so.lock();
                let _ = writeln!(l, "\nIMPL {} timeout", id);
                let _ = writeln!(l, "ORCL {} fail termination timeout case ran longer than {}s", id, limit);
                let _ = l.flush();
                std::process::exit(3);
            }
        });
        ctx
    }

    /// number of cases: quick vs thorough
    pub fn n(&self, quick: u64, thorough: u64) -> u64 {
        if self.thorough {
            thorough
        } else {
            quick
        }
    }

    /// Run one case.  `gen` builds the input from the case's own RNG and returns
    /// (args, tag, closure running the implementation + oracle).
    pub fn case<G, R>(&mut self, family: &str, gen: G)
    where
        G: FnOnce(&mut Rng) -> (Out, String, R),
        R: FnOnce() -> CaseOut,
    {
        self.case_inner(family, gen, |r: R| (r(), None));
    }

    /// Like `case`, for families decided by a checker on the model side (family names start
    /// with `chk_`): the closure additionally returns the checker's input (typically the
    /// implementation's output in exact form), printed as `CHECK <id> <family> <args>`; the
    /// model driver answers CHECK lines with its verdict and ignores the CASE line.
    pub fn case_check<G, R>(&mut self, family: &str, gen: G)
    where
        G: FnOnce(&mut Rng) -> (Out, String, R),
        R: FnOnce() -> (CaseOut, Option<Out>),
    {
        self.case_inner(family, gen, |r: R| r());
    }

    fn case_inner<G, R, W>(&mut self, family: &str, gen: G, wrap: W)
    where
        G: FnOnce(&mut Rng) -> (Out, String, R),
        W: FnOnce(R) -> (CaseOut, Option<Out>),
    {
        let id = self.next_id;
        self.next_id += 1;
        if let Some(o) = self.only {
            if o != id {
                return;
            }
        } else if id % self.nshards != self.shard || id < self.from {
            return;
        }
        let mut rng = Rng::new(self.seed, id);
        let (args, tag, run) = gen(&mut rng);
        let _ = writeln!(self.out, "CASE {} {} {}", id, family, args.0);
        let _ = writeln!(self.out, "TAG {} {}", id, tag);
        let _ = self.out.flush();
        let ds = (self.start.elapsed().as_millis() / 100) as u64;
        self.heartbeat.store((id << 24) | (ds & 0xFF_FFFF), Ordering::SeqCst);
        let res = catch_unwind(AssertUnwindSafe(move || wrap(run)));
        self.heartbeat.store(u64::MAX, Ordering::SeqCst);
        match res {
            Ok((co, chk)) => {
                let _ = writeln!(self.out, "IMPL {} {}", id, co.imp.0);
                if let Some(c) = chk {
                    let _ = writeln!(self.out, "CHECK {} {} {}", id, family, c.0);
                }
                match co.orcl {
                    Verdict::Ok => {
                        let _ = writeln!(self.out, "ORCL {} ok", id);
                    }
                    Verdict::Skip(w) => {
                        let _ = writeln!(self.out, "ORCL {} skip {}", id, w);
                    }
                    Verdict::Fail { clause, class, detail } => {
                        let _ = writeln!(self.out, "ORCL {} fail {} {} {}", id, clause, class, detail.replace('\n', " "));
                    }
                }
            }
            Err(e) => {
                let msg = if let Some(s) = e.downcast_ref::<&str>() {
                    s.to_string()
                } else if let Some(s) = e.downcast_ref::<String>() {
                    s.clone()
                } else {
                    "?".to_string()
                };
                let short: String = msg.chars().take(120).collect::<String>().replace('\n', " ");
                let _ = writeln!(self.out, "IMPL {} panic", id);
                let _ = writeln!(self.out, "ORCL {} fail no-panic panic {}", id, short);
            }
        }
    }

    pub fn finish(&mut self) {
        let _ = writeln!(self.out, "DONE {}", self.next_id);
        let _ = self.out.flush();
    }
}

/// Run `f`, converting a panic into `None`.
pub fn guarded<T>(f: impl FnOnce() -> T) -> Option<T> {
    catch_unwind(AssertUnwindSafe(f)).ok()
}
