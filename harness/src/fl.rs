//! f32 / f64 abstraction for the generators and oracles.

use crate::Rng;
use lyon_geom::{point, Point};

pub trait Fl: lyon_geom::Scalar + std::fmt::Debug + 'static {
    const BITS: u32;
    const EPS: f64;
    fn hex(self) -> String;
    fn of(x: f64) -> Self;
    fn f(self) -> f64;
    fn finite(self) -> bool {
        self.f().is_finite()
    }
}

impl Fl for f32 {
    const BITS: u32 = 32;
    const EPS: f64 = 1.1920929e-7;
    fn hex(self) -> String {
        format!("~{:08x}", self.to_bits())
    }
    fn of(x: f64) -> f32 {
        x as f32
    }
    fn f(self) -> f64 {
        self as f64
    }
}

impl Fl for f64 {
    const BITS: u32 = 64;
    const EPS: f64 = 2.220446049250313e-16;
    fn hex(self) -> String {
        format!("~{:016x}", self.to_bits())
    }
    fn of(x: f64) -> f64 {
        x
    }
    fn f(self) -> f64 {
        self
    }
}

/// How coordinates are drawn; printed in TAG lines so the evidence shows the distribution.
#[derive(Clone, Copy, Debug, PartialEq)]
pub enum Gen {
    /// small dyadic lattice: all modelled polynomial arithmetic is exact in f32
    Lattice,
    /// uniform in [-100, 100]
    Uniform,
    /// log-uniform magnitudes 1e-3 .. 1e4
    Wide,
    /// degenerate: coincident / collinear points
    Degenerate,
}

impl Gen {
    pub fn pick(rng: &mut Rng) -> Gen {
        match rng.below(10) {
            0..=2 => Gen::Lattice,
            3..=6 => Gen::Uniform,
            7..=8 => Gen::Wide,
            _ => Gen::Degenerate,
        }
    }
    pub fn name(self) -> &'static str {
        match self {
            Gen::Lattice => "lattice",
            Gen::Uniform => "uniform",
            Gen::Wide => "wide",
            Gen::Degenerate => "degenerate",
        }
    }
    pub fn coord(self, rng: &mut Rng) -> f64 {
        match self {
            Gen::Lattice | Gen::Degenerate => rng.lattice(32, 2),
            Gen::Uniform => rng.uniform(-100.0, 100.0),
            Gen::Wide => rng.log_uniform(-3.0, 4.0),
        }
    }
    pub fn point<S: Fl>(self, rng: &mut Rng) -> Point<S> {
        point(S::of(self.coord(rng)), S::of(self.coord(rng)))
    }
    /// `n` control points; in `Degenerate` mode some coincide or are collinear.
    pub fn points<S: Fl>(self, rng: &mut Rng, n: usize) -> Vec<Point<S>> {
        let mut v: Vec<Point<S>> = (0..n).map(|_| self.point(rng)).collect();
        if self == Gen::Degenerate {
            match rng.below(4) {
                0 => {
                    // two coincide
                    let i = rng.below(n as u64) as usize;
                    let j = rng.below(n as u64) as usize;
                    v[i] = v[j];
                }
                1 => {
                    // all collinear on a lattice line
                    let a = v[0];
                    let d = point(S::of(rng.range(-3, 3) as f64), S::of(rng.range(-3, 3) as f64));
                    for (k, p) in v.iter_mut().enumerate() {
                        let s = S::of(rng.range(-4, 4) as f64 + k as f64);
                        *p = point(a.x + d.x * s, a.y + d.y * s);
                    }
                }
                2 => {
                    // first == last
                    v[n - 1] = v[0];
                }
                _ => {
                    // all equal
                    let a = v[0];
                    for p in v.iter_mut() {
                        *p = a;
                    }
                }
            }
        }
        v
    }
    /// a curve parameter: mostly in [0,1], sometimes the ends, sometimes outside
    pub fn param<S: Fl>(self, rng: &mut Rng) -> S {
        let x = match rng.below(12) {
            0 => 0.0,
            1 => 1.0,
            2 => rng.uniform(-1.0, 2.0),
            3 => 0.5,
            _ => {
                if self == Gen::Lattice || self == Gen::Degenerate {
                    rng.range(0, 16) as f64 / 16.0
                } else {
                    rng.unit()
                }
            }
        };
        S::of(x)
    }
}

pub fn dist<S: Fl>(a: Point<S>, b: Point<S>) -> f64 {
    let dx = a.x.f() - b.x.f();
    let dy = a.y.f() - b.y.f();
    (dx * dx + dy * dy).sqrt()
}

pub fn maxabs<S: Fl>(ps: &[Point<S>]) -> f64 {
    ps.iter().fold(0.0f64, |m, p| m.max(p.x.f().abs()).max(p.y.f().abs()))
}
